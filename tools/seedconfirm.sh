#!/bin/bash
# tools/seedconfirm.sh <ID> [extra cargo test features]: confirm a seeded change produced by a sub-agent in /tmp/seed-<ID>
# (patch from /tmp/seed-out/<ID>/patch.diff, demo /tmp/seed-out/<ID>/seeded_demo.rs) on a clean checkout:
#  (1) patch applies to /repo HEAD, (2) full suite passes with it, (3) demo fails with it, (4) demo passes without.
ID=$1; FEAT=$2
WT=/tmp/seed-$ID; OUT=/tmp/seed-out/$ID
export CARGO_NET_OFFLINE=true CARGO_TARGET_DIR=$WT/target
cd $WT || exit 2
git reset -q --hard; git clean -fdq -e target
git checkout -q --detach $(git -C /repo rev-parse HEAD)
git apply $OUT/patch.diff || { echo "CONFIRM $ID: patch does not apply"; exit 1; }
echo "== suite with change"; cargo nextest run --workspace --no-fail-fast --offline --test-threads 6 2>&1 | grep -E "Summary|FAIL \[" | head -20
if [ -n "$FEAT" ]; then echo "== feature suite with change"; cargo test --offline --features $FEAT 2>&1 | grep -E "^test result|FAILED|failed" | sort | uniq -c | head; fi
cp $OUT/seeded_demo.rs tests/seeded_demo.rs
echo "== demo with change (must fail)"; cargo test --offline ${FEAT:+--features $FEAT} --test seeded_demo 2>&1 | grep -E "^test result|panicked|assert" | head -5
git apply -R $OUT/patch.diff || echo "cannot revert patch"
echo "== demo without change (must pass)"; cargo test --offline ${FEAT:+--features $FEAT} --test seeded_demo 2>&1 | grep -E "^test result|panicked" | head -5
git apply $OUT/patch.diff
rm -f tests/seeded_demo.rs
echo "CONFIRM $ID done"

#!/usr/bin/env python3
"""Run registered checks against a seeded defect without touching /repo.

    tools/seedrun.py seeded/<id> C05 [C01 ...] [--tier quick|thorough] [--keep]

A scratch worktree of /repo's HEAD is created under /tmp (outside /repo and /verif), the seed's
patch.diff is applied there, and each check runs with VERIF_REPO pointing at it (the checks then
build private copies of the harness crates against that tree) and VERIF_EVIDENCE_DIR pointing
at a scratch directory, so the committed evidence of the unchanged tree is not overwritten.
The worktree and its build output are removed afterwards.  Nothing registered in MANIFEST.json
depends on this script."""
import os
import subprocess
import sys
import shutil

ROOT = os.path.dirname(os.path.dirname(os.path.abspath(__file__)))
ALT = "/tmp/alt-seed-%d" % os.getpid()      # private per invocation: concurrent runs must not share a worktree
EVD = "/tmp/alt-evidence-%d" % os.getpid()


def sh(cmd, **kw):
    return subprocess.run(cmd, stdout=subprocess.PIPE, stderr=subprocess.STDOUT, text=True, **kw)


def main():
    args = [a for a in sys.argv[1:] if not a.startswith("--")]
    tier = "quick"
    if "--tier" in sys.argv:
        tier = sys.argv[sys.argv.index("--tier") + 1]
        args.remove(tier)
    keep = False        # (--keep is accepted and ignored: every run uses its own scratch worktree)
    seed, checks = args[0], args[1:]
    patch = os.path.join(ROOT, seed, "patch.diff") if not os.path.isabs(seed) else os.path.join(seed, "patch.diff")
    head = sh(["git", "-C", "/repo", "rev-parse", "HEAD"]).stdout.strip()
    if os.path.exists(ALT):
        sh(["git", "-C", ALT, "reset", "-q", "--hard"])
        sh(["git", "-C", ALT, "clean", "-fdq", "-e", "target"])
        sh(["git", "-C", ALT, "checkout", "-q", "--detach", head])
        sh(["git", "-C", ALT, "reset", "-q", "--hard", head])
    else:
        r = sh(["git", "-C", "/repo", "worktree", "add", "--detach", ALT, head])
        if r.returncode:
            print(r.stdout)
            return 2
    r = sh(["git", "-C", ALT, "apply", patch])
    if r.returncode:
        r = sh(["git", "-C", ALT, "apply", "--3way", patch])
    if r.returncode:
        print("patch does not apply:\n" + r.stdout)
        return 2
    env = dict(os.environ, VERIF_REPO=ALT, VERIF_EVIDENCE_DIR=EVD)
    rc = 0
    for c in checks:
        r = sh([os.path.join(ROOT, "vp"), "check", c, "--tier", tier], env=env, cwd=ROOT)
        lines = [l for l in r.stdout.splitlines() if l.startswith(("OK", "VIOLATION", "CHECK-BROKEN"))]
        print(f"{os.path.basename(seed.rstrip('/'))} {c} {tier}: exit={r.returncode} " + " | ".join(l[:220] for l in lines))
        rc |= r.returncode
    # the checks regenerated coq/gen/Kernels.v from the seeded tree: restore it from /repo at once
    sh([sys.executable, "-c", "import sys; sys.path.insert(0, %r); from vplib import common; common.run_translator()" % ROOT],
       env=dict(os.environ, VERIF_REPO="/repo"))
    if not keep:
        sh(["git", "-C", "/repo", "worktree", "remove", "--force", ALT])
        shutil.rmtree(ALT, ignore_errors=True)
        shutil.rmtree(EVD, ignore_errors=True)
        sh(["git", "-C", "/repo", "worktree", "prune"])
        import hashlib
        shutil.rmtree(os.path.join(ROOT, ".build", "alt", hashlib.sha256(ALT.encode()).hexdigest()[:8]), ignore_errors=True)
    return rc


if __name__ == "__main__":
    sys.exit(main())

#!/bin/sh
# Independent re-check of every compiled property file (and everything it depends on) with coqchk;
# prints the context summary (axioms, type-in-type, unsafe fixpoints, assumed positivity).
# Expected on this tree: "Axioms: <none>" and <none> for the three other lists.  ~1 min.
cd "$(dirname "$0")/../coq" || exit 2
exec timeout 3000 coqchk -o -silent -Q . Salsa $(ls Props/*.vo | sed 's/\.vo//; s/\//./; s/^/Salsa./')

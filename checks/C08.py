"""C08 — interning is canonical within a revision, across queries and threads."""
from checks import interncheck

NOTE = ("Proved for ALL operation sequences, any number of threads (sequences of atomic shard-locked steps), every "
        "shard/hash function: C08_invariant, C08_canonical, C08_handle_value, C08_readback, C08_kept (REVISIONS <> 1). "
        "C08_kept_revisions1_refuted: with revisions = 1 a value re-interned in every revision can lose its handle "
        "(slot taken earlier in the same revision) — confirmed on the real crate, recorded as known finding.")


def run(ctx):
    interncheck.run(ctx, NOTE)


def replay(ctx, rp):
    return interncheck.replay(ctx, rp)

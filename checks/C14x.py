"""C14, cross-thread part — a function without cycle handling re-entered through WAITING THREADS.
(The single-thread part is checks/C14.py, Cycle layer.)

  * proof: Props/C14x.v (protocol level, on top of C19);
  * OS-thread workload (shuttle cannot soundly drive workloads that unwind): generated programs
    with an input-guarded cycle a -> b -> a through functions without recovery, entered from
    both ends by two handles (a third handle reads something unrelated or a member); many
    repetitions with randomised rendezvous / yields; then the cycle is broken by a write and the
    same requests are made again, re-made, broken again.  Checked per repetition: no hang
    (20 s), a request whose single-threaded evaluation re-enters a node never returns a value —
    it panics with the cycle error or unwinds with Cancelled::PropagatedPanic —, every other
    request returns the single-threaded value; the H2 traces are replayed through Proto;
  * the single-thread panic-cycle correspondence of the sequential engine (profile
    `panic-cycles`: implementation == Core model, specification `cycle` <-> panic 2) is run as
    well and folded into the evidence.

`cross_part(ctx)` returns the coverage dict without writing evidence, for checks/C14.py."""
import os
import shutil
import time

from checks import parcheck
from vplib import common
from vplib import parengine as pe
from vplib import seqengine as se

OWN = ("values", "reference", "failure")
WHAT = ("a request inside a cross-thread cycle through functions without recovery returned a value / hung, or an "
        "unrelated or formerly cyclic request returned a wrong value")


def cross_part(ctx, proof_broken=None, driver=None):
    t0 = time.time()
    harness = parcheck.build_harness(std=True)
    quick = ctx.tier == "quick"
    ncases = 24 if quick else 80
    iters = 80 if quick else 200
    cases = list(pe.corpus("C14x")) + pe.generate(ctx.seed, "cross-cycles", ncases, "quick" if quick else "thorough", prefix="x")
    spec = pe.specification(cases, driver)
    out_root = os.path.join(common.BUILD, "par-traces", f"C14x-{ctx.seed}-{os.getpid()}")
    shutil.rmtree(out_root, ignore_errors=True)
    os.makedirs(out_root)
    res, tdirs = parcheck.explore(ctx, cases, harness, ["os"], iters, out_root, trace_cap=6 if quick else 8, std=True)
    fnd = parcheck.findings_for(cases, spec, res, "cycles", ("values", "reference", "failure", "harness"))
    herr = [x for x in fnd if x[2]["kind"] == "harness"]
    hung_any = any(h for (_o, h) in res.values())
    if herr and not hung_any:
        raise common.CheckError(f"par_harness produced no usable output: {herr[0][2]}")
    # after a hang the process stops (stuck threads cannot be reclaimed): the cases behind it in
    # the same shard were not run — that is not a finding about them
    fnd = [x for x in fnd if x[2]["kind"] != "harness"]
    fnd.sort(key=lambda x: 0 if x[2]["kind"] == "failure" else 1)
    rp = parcheck.replay_traces(tdirs)
    seen = set()
    for c, sched, f in fnd:
        cid = c.split()[1]
        if cid in seen or len(seen) >= 3:
            continue
        seen.add(cid)
        # OS-thread runs are not deterministic: the replay re-runs the case with many repetitions
        ctx.violation(dict(kind=WHAT, case=c, scheduler="os", harness_seed=ctx.seed, iteration=f["iter"],
                           iters_to_run=max(iters, 400), finding=f, mode="cycles", os_threads=True,
                           how_to_replay="./vp replay <this file>  (re-runs the case on OS threads with randomised "
                                         "rendezvous; not deterministic, the finding is looked for among the repetitions)"))
    if not fnd and rp["mismatch"]:
        m = rp["mismatches"][0]
        ctx.violation(dict(kind="correspondence model/implementation no longer holds",
                           relation="Proto model vs recorded protocol traces of the panicking cross-thread cycle workload",
                           first_mismatch=m, search="no repetition violates the specification"), no_input=True)
    st = pe.stats(res["os"][0])
    nspec_cycle = sum(1 for sp in spec.values() for v in sp.values() if v == "cycle")
    cov = {
        "cross_cases": len(cases), "cross_repetitions_per_case": iters,
        "cross_schedules": st["schedules"],
        "cross_schedules_with_a_real_wait": st["with_wait"],
        "cross_schedules_with_cross_thread_cycle_answer": st["with_cross_thread_cycle_answer"],
        "cross_schedules_with_propagated_panic": st["with_propagated_panic"],
        "cross_distinct_protocol_traces": st["distinct_protocol_traces"],
        "cross_distinct_with_cross_thread_cycle": st["distinct_with_cross_thread_cycle"],
        "cross_requests_specified_as_cycle": nspec_cycle,
        "cross_findings": len(fnd),
        "cross_proto_traces_replayed": rp["files"], "cross_proto_trace_mismatches": rp["mismatch"],
        "cross_proto_steps_replayed": rp["steps"],
        "cross_wall_s": round(time.time() - t0, 1),
    }
    shutil.rmtree(out_root, ignore_errors=True)
    return cov


def seq_part(ctx, driver):
    """single-thread panic-cycle correspondence of the sequential engine"""
    rel = common.cargo_build("harness", "default")
    harness = os.path.join(rel, "core_harness")
    n = 150 if ctx.tier == "quick" else 2500
    cases = se.generate(ctx.seed, "panic-cycles", n, "quick" if ctx.tier == "quick" else "thorough", prefix="pc-")
    impl, model = se.run_both(cases, harness, driver, shards=6)
    spec_diffs, corr_diffs, ncycle = [], [], 0
    for c in cases:
        cid = c.split()[1]
        il, ml = impl.get(cid, ["ERROR missing"]), model.get(cid, ["ERROR missing"])
        r = se.compare_case(il, ml)
        if r["level"] == "error":
            raise common.CheckError(f"driver error on case {cid}: {r}")
        if r["level"] == "spec":
            spec_diffs.append((c, r))
        elif r["level"] is not None:
            corr_diffs.append((c, r))
        ncycle += sum(1 for v in se.split_lines(ml)["V"].values() if v == "cycle")
    for c, r in spec_diffs[:2]:
        ctx.violation(dict(kind="single-thread: implementation differs from the from-scratch specification "
                                "(cycle <-> panic with the cycle error)", case=c, first_difference=r, sequential=True))
    return dict(seq_cases=len(cases), seq_reads_specified_as_cycle=ncycle, seq_spec_mismatches=len(spec_diffs),
                seq_model_mismatches=len(corr_diffs),
                seq_first_model_mismatch=corr_diffs[0][1] if corr_diffs else None)


def run(ctx):
    t0 = time.time()
    proof_broken, rep, driver = parcheck.build_common(ctx, prop_file="C14x")
    cov = cross_part(ctx, proof_broken, driver)
    cov.update(seq_part(ctx, driver))
    if proof_broken is not None and not ctx.violations:
        ctx.violation(dict(kind="proof obligation no longer checks", broken=proof_broken, theorem_file="coq/Props/C14x.v",
                           search=f"{cov['cross_schedules']} repetitions of the cross-thread workload, none fails"), no_input=True)
    ctx.coverage.update({
        "obligations": rep["obligations"] if rep else 0,
        "discharged": rep["discharged"] if rep else 0,
        "checker_cmd": "make -C coq Props/C14x.vo  (coqc 8.16.1, Print Assumptions captured)",
        "trusted_base": common.TRUSTED_BASE_COMMON + [
            "the OS scheduler plus the harness' randomised rendezvous produce the explored interleavings (no schedule control: shuttle cannot drive unwinding workloads)",
            "hook H2 appends each protocol record while the critical section's locks are held",
            "panic payloads are classified by message text (cycle error) / type (salsa::Cancelled)"],
        "theorems": rep["statements"] if rep else [],
        "axioms_reported": rep["axioms"] if rep else [],
        "closed_under_global_context": rep["closed_count"] if rep else 0,
        "theorem_note": open(__file__.replace("C14x.py", "notes/C14x.txt")).read(),
        "evaluations": cov["cross_schedules"] + cov["seq_cases"],
        "distinct_nontrivial": cov["cross_distinct_with_cross_thread_cycle"],
        "rule": "one evaluation = one repetition of one generated cross-thread case on OS threads (plus one sequential "
                "panic-cycles case each); distinct_nontrivial = distinct (case, protocol-trace hash) pairs among the "
                "repetitions in which try_claim/block answered Cycle to a thread different from the owner",
        "wall_s": round(time.time() - t0, 1),
    })
    ctx.coverage.update(cov)
    ctx.assumptions = ["critical sections are atomic", "the evaluator performs exactly the protocol steps of Props/C14x.v when it unwinds (checked by trace replay)"]
    ctx.write_evidence("proof")


def replay(ctx, rp):
    if rp.get("sequential"):
        from checks import seqcheck
        return seqcheck.replay(ctx, rp)
    return parcheck.replay_generic(ctx, rp, std=True)

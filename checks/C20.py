"""C20 — writes exclude and cancel concurrent readers; results never mix revisions."""
from checks import conccheck

NOTE = ("Proved for any number of handles and every interleaving of the writer/reader machine: C20_exclusive (mutation "
        "only with clones = 1 and Arc count 1), C20_cancelled (a check with the flag set unwinds; local token tested "
        "first), C20_progress (well-founded measure on live readers; writer's wait enabled at 0), C20_no_mix_stamp "
        "(after the count bump every earlier provisional stamp is rejected; u8 overflow forces a new revision). "
        "Composition with the evaluator ('every result equals from-scratch after the write') is checked per explored "
        "schedule by the harness, not proved. Known finding: a reader BLOCKED on another reader's query unwinds with "
        "PropagatedPanic rather than PendingWrite.")


def run(ctx):
    conccheck.run(ctx, "writer", NOTE, known_obs="reader_propagated_panic")


def replay(ctx, rp):
    return conccheck.replay(ctx, rp)

"""C20 — writes exclude and cancel concurrent readers; results never mix revisions.

Stage 1 (conc engine, unchanged): the writer/reader machine + replay of hook-H6 event traces of
the `writer` profile (acyclic and simple cyclic programs) under the OS-thread baton scheduler.

Stage 2 (par-cycle engine, harness-par bin cyc_par on OS threads): the clause "no value computed
for the old revision is ever returned in the new revision, INCLUDING PROVISIONAL FIXPOINT RESULTS
ABANDONED BY THE CANCELLATION".  Generated programs with NESTED fixpoints (outer head -> inner
head -> step -> {inner, outer}, input-conditional edges, further nested / side cycles); one or two
reader handles enter them; at the k-th tracked-function body execution of the group — for every k
up to 12, i.e. at every point of the nested iteration — the reader is held until the main
handle's write has set the cancellation flag (it then unwinds with Cancelled::PendingWrite from
inside the iteration it had reached, abandoning whatever provisional memos exist), or the body
panics there (the single-threaded analogue: the iteration is abandoned by unwinding, C22's
clause).  The write shrinks an input the program reads, so that an abandoned provisional value of
the old revision would be a non-least fixpoint of the new equations.  After the write EVERY member
is read on the main handle and compared with the specification of the NEW snapshot (`kleene`,
computed by the extracted cycle driver); a second cancelled group and a second read-all follow.
Reader results of the cancelled group must be the OLD snapshot's value, PendingWrite,
PropagatedPanic (known finding blocked-reader) or the injected panic.  A wrong value that the
same history WITHOUT any hold point (no cancellation, no panic — the harness' single-threaded REF
run, or, because the cycle engine's known finding C12 cycle_participant_validated_on_incomplete_edges
depends on the ENTRY ORDER and two readers pick the order by their interleaving, one of the
single-threaded linearisations of the readers' requests) returns as well at the same request is
that known finding, not a finding of this stage.  Nothing a cancellation or a panic leaves behind
can be reproduced by such a run, so this does not weaken what is demanded of MODE 1 / MODE 2."""
import os
import time

from checks import conccheck
from checks import parcheck
from vplib import common
from vplib import parengine as pe

NOTE = ("Proved for any number of handles and every interleaving of the writer/reader machine: C20_exclusive (mutation "
        "only with clones = 1 and Arc count 1), C20_cancelled (a check with the flag set unwinds; local token tested "
        "first), C20_progress (well-founded measure on live readers; writer's wait enabled at 0), C20_no_mix_stamp "
        "(after the count bump every earlier provisional stamp is rejected; u8 overflow forces a new revision). "
        "Composition with the evaluator ('every result equals from-scratch after the write') is checked per explored "
        "schedule by the harness, not proved: stage 1 on the conc engine's writer profile, stage 2 (nested fixpoints: readers "
        "cancelled, or panicking, at every point of a nested fixpoint iteration, then every member compared with the least "
        "fixpoint of the new snapshot) on the par-cycle engine. Known finding: a reader BLOCKED on another reader's query "
        "unwinds with PropagatedPanic rather than PendingWrite.")

ACCEPT = ("p8", "p7", "p5")
HOLD_POINTS = 12


def nested_stage(ctx):
    """-> coverage dict; violations are reported through ctx"""
    t0 = time.time()
    harness = parcheck.build_cyc_harness(std=True)
    driver = parcheck.build_cycle_driver()
    quick = ctx.tier == "quick"
    nbase = 30 if quick else 220
    iters = 2 if quick else 3
    base = list(pe.corpus("C20")) + pe.generate_w(ctx.seed, nbase, "quick" if quick else "thorough", prefix="w")
    cases = []
    for c in base:
        cid = c.split()[1]
        ngroups = c.count("(wpar ")
        for at in range(1, HOLD_POINTS + 1):
            for mode in (1, 2):
                settings = [(mode, at)] + [(mode, 1 + (at * 7 + g) % 9) for g in range(1, ngroups)]
                cases.append(pe.with_hold(c, f"{cid}-m{mode}a{at}", settings))
    spec = pe.specification18(cases, driver)
    out, hung = pe.run_harness18(cases, harness, iters, "os", ctx.seed, trace_cap=0)
    findings, known, lin = [], [], {}
    outcomes = {}
    for c in cases:
        cid = c.split()[1]
        fs, kn = pe.check_case18(cid, spec[cid], out, accept=ACCEPT)
        known += [(cid, k) for k in kn]
        for f in fs:
            if f["kind"] == "harness" and not hung:
                raise common.CheckError(f"cyc_par produced no usable output for {cid}: {f}")
            if f["kind"] == "harness":
                continue
            if f["kind"] == "values" and f["detail"]["revision"] > 0:
                # The cycle engine's single-threaded known finding (C12
                # cycle_participant_validated_on_incomplete_edges) depends on the ENTRY ORDER: with two
                # readers the interleaving picks it.  A wrong value that a single-threaded run of the same
                # history WITHOUT any hold point (no cancellation, no panic: nothing is abandoned) returns
                # at the same request under some order of the group's requests is that finding, not a leak.
                b = cid.split("-")[0]
                if b not in lin:
                    lin[b] = parcheck.linearisation_results(c, harness, ctx.seed, n=120 if quick else 300)
                if any(r.get(tuple(f["detail"]["request"])) == f["detail"]["got"] for r in lin[b]):
                    known.append((cid, dict(iter=f["iter"], other_entry_order=True, **f["detail"])))
                    continue
            findings.append((c, f))
        for it in out.get(cid, {}).get("iters", []):
            for key, v in pe.parse_results(it["r"]).items():
                if v.startswith("p"):
                    outcomes[v] = outcomes.get(v, 0) + 1
    findings.sort(key=lambda x: (0 if x[1]["kind"] == "failure" else 1, len(x[0])))
    seen = set()
    for c, f in findings:
        b = c.split()[1].split("-")[0]
        if b in seen or len(seen) >= 3:
            continue
        seen.add(b)
        what = ("a reader was cancelled (or panicked) inside a nested fixpoint iteration; after the write a read returned a "
                "value different from the least fixpoint of the new snapshot, although the same history without "
                "cancellation returns the specification: a result computed for the old revision leaked into the new one"
                if f["kind"] == "values" else
                "the cancelled-reader workload hung / failed" if f["kind"] == "failure" else
                "the single-threaded reference run differs from the specification on a fresh database")
        ctx.violation(dict(kind=what, case=c, scheduler="os", harness_seed=ctx.seed, iteration=f["iter"],
                           iters_to_run=max(iters, 4), finding=f, engine="par-cycle", os_threads=True, accept=list(ACCEPT),
                           failing_history="the history of `case`: (wpar MODE AT (T reads..) (W write)) = reader(s) held at the AT-th "
                                           "body execution (MODE 1: released by the write's cancellation flag and unwound with "
                                           "PendingWrite; MODE 2: the body panics), then the write, then the reads listed; "
                                           "finding.detail.request = (operation index, handle, position) of the read that returned "
                                           "`got` where the new snapshot's least fixpoint is `want`",
                           how_to_replay="./vp replay <this file>  (re-runs the case on OS threads; deterministic for one reader)"))
    if known:
        ctx.known_finding(f"class=cycle_participant_validated_on_incomplete_edges (C12) met in stage 2: {len(known)} reads differ from "
                          "the specification in the cancelled / panicking run AND in a single-threaded run of the same history "
                          "without any hold point (same or another entry order of the readers' requests)")
    st = pe.stats18(out)
    after_reads = sum(1 for s in spec.values() for k in s["spec"] if s["rev"][k[0]] > 0)
    return {
        "nested_base_programs": len(base), "nested_cases": len(cases), "nested_repetitions_per_case": iters,
        "nested_schedules": st["schedules"],
        "nested_hold_point_reached": st["hold_reached"],
        "nested_hold_point_inside_a_fixpoint_iteration": st["hold_inside_fixpoint_iteration"],
        "nested_reader_outcomes": {"PendingWrite": outcomes.get("p8", 0), "PropagatedPanic": outcomes.get("p7", 0),
                                   "injected_panic": outcomes.get("p5", 0),
                                   "other": {k: v for k, v in outcomes.items() if k not in ACCEPT}},
        "nested_reads_after_a_write_compared_with_kleene_per_repetition": after_reads,
        "nested_findings": len(findings), "nested_known_class_differences": len(known),
        "nested_linearisation_searches": len(lin),
        "nested_hung": bool(hung),
        "nested_wall_s": round(time.time() - t0, 1),
    }


def run(ctx):
    # stage 1 writes the evidence; stage 2 is merged into it afterwards
    conccheck.run(ctx, "writer", NOTE, known_obs="reader_propagated_panic")
    cov = nested_stage(ctx)
    ctx.coverage.update(cov)
    ctx.coverage["evaluations"] = ctx.coverage.get("evaluations", 0) + cov["nested_schedules"]
    ctx.coverage["distinct_nontrivial"] = ctx.coverage.get("distinct_nontrivial", 0) + cov["nested_hold_point_inside_a_fixpoint_iteration"]
    ctx.coverage["rule"] = (ctx.coverage.get("rule", "") + "; stage 2: one evaluation = one repetition of one (program, hold point, "
                            "mode) case on OS threads, counted non-trivial when the hold point was reached after a "
                            "WillIterateCycle event (the reader was inside a fixpoint iteration when it was cancelled / panicked)")
    ctx.coverage["trusted_base"] = ctx.coverage.get("trusted_base", []) + [
        "stage 2: the hold point (harness, inside the DSL interpreter) and the DidSetCancellationFlag event decide where the reader "
        "is cancelled; the specification column is `kleene` of the extracted cycle driver"]
    ctx.coverage["wall_s"] = round(ctx.coverage.get("wall_s", 0) + cov["nested_wall_s"], 1)
    ctx.write_evidence("proof")


def replay(ctx, rp):
    if rp.get("engine") == "par-cycle":
        return parcheck.replay18(ctx, rp, std=True)
    return conccheck.replay(ctx, rp)

"""C22 — panics in user code leave the database consistent and unblocked (single handle)."""
from checks import seqcheck
from vplib import seqengine as se


def oracle(case, impl_lines, model_lines):
    """Implementation only: while no fault switch is on no Get may unwind with an injected
    panic; a Get that panics returns no value (by construction of the harness); once all
    switches are off every Get equals the from-scratch value (spec column, checked generically)."""
    a = se.split_lines(impl_lines)
    tree = se.parse_sx(case)
    hist = next(x for x in tree[2:] if isinstance(x, list) and x and x[0] == "hist")[1:]
    on = set()
    for i, op in enumerate(hist):
        if op[0] == "setpanic":
            (on.add if op[2] != "0" else on.discard)(op[1])
        if op[0] == "evfault":
            (on.discard if op[1] == "off" else on.add)("ev")
        if op[0] == "get" and not on and a["R"].get(i) == "panic 5":
            return dict(level="oracle", step=i, why="injected panic although every fault switch is off")
        if op[0] == "get" and a["R"].get(i) == "panic 5" and "ev" in on:
            # the event-callback fault is one-shot; it may have been the one that fired
            # (if a body switch is also on we cannot tell which: keep the weaker knowledge)
            if on == {"ev"}:
                on.discard("ev")
    return None


def run(ctx):
    seqcheck.run_seq(ctx, ["faults"], n_quick=400, n_thorough=6000, oracle=oracle,
                     nontrivial_rule=lambda f: "injected_panic" in f and "reexec" in f,
                     thm_note=open(__file__.replace("C22.py", "notes/C22.txt")).read())


def replay(ctx, rp):
    return seqcheck.replay(ctx, rp)

"""C22 — panics in user code leave the database consistent and unblocked (single handle)."""
from checks import seqcheck
from vplib import seqengine as se


def oracle(case, impl_lines, model_lines):
    """Implementation only: while no fault switch is on no Get may unwind with an injected
    panic; a Get that panics returns no value (by construction of the harness); once all
    switches are off every Get equals the from-scratch value (spec column, checked generically)."""
    a = se.split_lines(impl_lines)
    tree = se.parse_sx(case)
    hist = next(x for x in tree[2:] if isinstance(x, list) and x and x[0] == "hist")[1:]
    on = set()
    for i, op in enumerate(hist):
        if op[0] == "setpanic":
            (on.add if op[2] != "0" else on.discard)(op[1])
        if op[0] == "evfault":
            (on.discard if op[1] == "off" else on.add)("ev")
        if op[0] == "get" and not on and a["R"].get(i) == "panic 5":
            return dict(level="oracle", step=i, why="injected panic although every fault switch is off")
        if op[0] == "get" and a["R"].get(i) == "panic 5" and "ev" in on:
            # the event-callback fault is one-shot; it may have been the one that fired
            # (if a body switch is also on we cannot tell which: keep the weaker knowledge)
            if on == {"ev"}:
                on.discard("ev")
    return None


def run(ctx):
    # stage 1: the sequential engine (Core model, bodies / PartialEq / event callback faults)
    seqcheck.run_seq(ctx, ["faults"], n_quick=400, n_thorough=6000, oracle=oracle,
                     nontrivial_rule=lambda f: "injected_panic" in f and "reexec" in f,
                     thm_note=open(__file__.replace("C22.py", "notes/C22.txt")).read())
    # stage 2: panics from the event callback and from the user's Hash / PartialEq while the
    # interned ingredient recycles slots (see notes/C22-intern.txt)
    intern_stage(ctx)
    # stage 3: a body panics while it is inside a (nested) fixpoint iteration (cycle engine: implementation ==
    # Cycle model, every later read == least fixpoint; checks/cyclepanic.py)
    from checks import cyclepanic
    cyclepanic.stage(ctx)
    ctx.write_evidence("proof")


def build_intern():
    import os
    from vplib import common
    from checks import intern_diff as idf
    rel = common.cargo_build("harness-intern", "default")
    idf.HARNESS_BIN = os.path.join(rel, "intern_harness")
    common.sh([os.path.join(common.ROOT, "ocaml/intern/build.sh"), common.ROOT], timeout=900, check=True)
    return idf


def intern_stage(ctx):
    import time
    from vplib import common
    t0 = time.time()
    idf = build_intern()
    res = idf.run_intern_panic(ctx.seed, ctx.tier)
    _, _, hashval = idf.shard_map(True)
    reported = 0
    for vf in res["value_failures"][:2]:
        # a concrete failing history: shrink while the implementation-side oracle still fails
        small, problems = idf.shrink_value_failure(vf["case"], hashval, budget=250)
        if not problems:
            small, problems = vf["case"], vf["problems"]
        ctx.violation(dict(kind="after a panic in user code (event callback / Hash / Eq of an interned field) "
                                "a request differs from a fresh database",
                           engine="intern", case=small, problems=problems[:6],
                           case_seed=vf["case_seed"], how_to_replay="./vp replay <this file>"))
        reported += 1
    if reported == 0 and res["model_mismatches"]:
        mm = res["model_mismatches"][0]

        def fails(cand):
            return bool(idf.check_case_full(cand, True, hashval)["model_problems"])
        small = idf.shrink(mm["case"], 150, True, hashval, fails)
        p2 = idf.check_case_full(small, True, hashval)["model_problems"]
        ctx.violation(dict(kind="correspondence model/implementation no longer holds",
                           relation="Intern model vs implementation under panics in user code (hook H5b commit/"
                                    "touch/abort records replayed through Model.intern_cut: path, id, generation, "
                                    "slot stamps, revision queue, LRU order, events)",
                           engine="intern", case=small, first_difference=(p2 or mm["problems"])[:5],
                           n_cases_differing=len(res["model_mismatches"]),
                           search="implementation-side oracles over %d generated histories (%d requests after a "
                                  "panic) found no failing input" % (res["cases"], res["requests_checked_after_a_panic"])),
                      no_input=True)
    if res["known_finding_cases"]:
        listed = [kf for kf in common.known_findings()
                  if kf["property"] == ctx.prop and kf["class"] == idf.KNOWN_ORPHAN]
        text = listed[0]["text"] if listed else (
            "a panic of the user's Hash during the key-map growth of intern_id_cold (insert_value links the new "
            "slot into the LRU before the key-map insertion that rehashes) leaves a slot that reuse can pick but "
            "that has no key-map entry; the first later interning that picks it panics once with salsa's own "
            "`interned value in LRU so must be in key_map` although no user code panics any more "
            "(see checks/notes/C22-intern.txt; not yet listed in known-findings.txt)")
        ctx.known_finding("class=%s %s (met in %d generated cases)" % (idf.KNOWN_ORPHAN, text, res["known_finding_cases"]))
    stage = {k: res[k] for k in ("cases", "requests", "records", "hook_h5b", "nshards", "cases_with_panic",
                                 "cases_with_unwound_reuse", "panics_by_fault", "unwound_calls",
                                 "requests_checked_after_a_panic", "known_finding_cases", "known")}
    stage.update({
        "value_oracle_failures": len(res["value_failures"]),
        "implementation_vs_model_disagreements": len(res["model_mismatches"]),
        "rule": "panic profile of checks/intern_diff.py (churn over collectable interned types, memos attached to "
                "the interned values, event callback / Hash / PartialEq armed to panic, every request under "
                "catch_unwind, the request repeated in the same and in later revisions)",
        "oracles": ["every completed request equals the from-scratch value (handle read-back, value of the function "
                    "keyed by the handle, field read inside the query)",
                    "one handle per value and one value per handle within a revision",
                    "no panic but the injected ones, and only in a request in which a fault fired",
                    "replay of the unwound linearisation through the extracted model (needs hook H5b)"],
        "samples": res["samples"][:1],
        "note": open(__file__.replace("C22.py", "notes/C22-intern.txt")).read(),
        "wall_s": round(time.time() - t0, 1),
    })
    ctx.coverage["intern_stage"] = stage
    ctx.coverage["evaluations"] = ctx.coverage.get("evaluations", 0) + res["cases"]
    if "wall_s" in ctx.coverage:
        ctx.coverage["wall_s"] = round(ctx.coverage["wall_s"] + stage["wall_s"], 1)


def replay(ctx, rp):
    if rp.get("engine") == "cycle-panic":
        from checks import cyclepanic
        return cyclepanic.replay(ctx, rp)
    if rp.get("engine") == "intern":
        idf = build_intern()
        if "case" not in rp:
            print("no concrete input recorded:", rp.get("relation"))
            return 1
        _, _, hashval = idf.shard_map(True)
        r = idf.check_case_full(rp["case"], True, hashval, replay=idf.h5b_present())
        rc, out, _ = idf.run_harness(rp["case"], True)
        print("\n".join(l for l in out.splitlines() if l.startswith(("OP ", "RET ", "FAULT "))))
        print("implementation-side oracles:", r["value_problems"] or "ok")
        print("model vs implementation:", r["model_problems"] or "agree")
        return 1 if (r["value_problems"] or r["model_problems"]) else 0
    return seqcheck.replay(ctx, rp)

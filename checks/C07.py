"""C07 — reclaimed identities never alias memoized state or field data (tracked-struct part;
the interned part is checks/C09.py / interncheck)."""
from vplib import structsengine as st


def oracle(case, impl_lines, model_lines):
    """On the implementation's own records:
    (1) per slot, the generations of the ids that memos hold never decrease over time, and after a
        DidDiscard of (slot, g) every later id of that slot has a generation > g;
    (2) when a slot shows a NEW generation (reuse after deletion, or identity change), every memo
        attached to that slot after the step was produced in that step (verified in the current
        revision): no memo of the previous occupant is served;
    (3) a deleted slot carries no memos and is on the free list exactly once.
    Field data and dependents are covered by the value-level comparison with the from-scratch
    specification (handles through canonical names)."""
    a = st.split_lines(impl_lines)
    maxgen = {}        # slot -> largest generation seen live
    dead_gen = {}      # slot -> generation of the last discard
    for i in sorted(a["R"]):
        s_txt = a["S"].get(i)
        if s_txt is None:
            return None
        sv = st.parse_state(s_txt)
        for e in a["E"].get(i, "").split():
            if e.startswith("d:s."):
                ix, g = (int(x) for x in e[4:].split("."))
                dead_gen[ix] = max(g, dead_gen.get(ix, -1))
        now = {}
        for k, m in sv["memo"].items():
            for h in m["structs"]:
                ix, g = (int(x) for x in h.split("."))
                now[ix] = g
        for ix, g in now.items():
            if g < maxgen.get(ix, 0):
                return dict(level="oracle", step=i, why=f"slot {ix}: generation went back from {maxgen[ix]} to {g}")
            if ix in dead_gen and g <= dead_gen[ix]:
                return dict(level="oracle", step=i, why=f"slot {ix}: id with generation {g} alive after discard of generation {dead_gen[ix]}")
            if g > maxgen.get(ix, -1) and ix in maxgen:
                for fam in ("2", "3"):
                    m = sv["memo"].get(f"{fam}.{ix}")
                    if m is not None and m["ver"] != sv["rev"]:
                        return dict(level="oracle", step=i,
                                    why=f"slot {ix} got generation {g}; memo {fam}.{ix} (verified at {m['ver']}) is from the previous occupant")
            maxgen[ix] = max(g, maxgen.get(ix, -1))
        idx = [ix for ix, _ in sv["free"]]
        if len(idx) != len(set(idx)):
            return dict(level="oracle", step=i, why="a slot is on the free list twice")
        for ix, sl in sv["slots"].items():
            if not sl["live"]:
                if ix not in idx:
                    return dict(level="oracle", step=i, why=f"deleted slot {ix} is not on the free list")
                if f"2.{ix}" in sv["memo"] or f"3.{ix}" in sv["memo"]:
                    return dict(level="oracle", step=i, why=f"deleted slot {ix} still has memos")
    return None


INTERN_NOTE = ("INTERNED PART (second stage, Intern layer): the theorems are those of Props/C09.v / Props/C08.v "
               "(C09_only_if: a slot is reused only when stale, LOW-durability and the revision queue is primed; "
               "C08_handle_value / C08_readback: a current handle reads back the value it was interned for; the reuse "
               "step bumps the generation and clears the memo table); this stage replays the hook-recorded "
               "linearisation of every intern / maybe_changed_after of generated churn histories through the extracted "
               "Intern model and checks, on the implementation's own records, that no handle stands for two values in "
               "one revision, that field read-backs return the interned value, and that every real slot reuse was of a "
               "stale LOW-durability value.")


def run(ctx):
    # stage 1: tracked structs (Structs layer)
    st.run_structs(ctx, ["churn", "structs"], n_quick=450, n_thorough=6000, oracle=oracle,
                   nontrivial_rule=lambda f: "slot_reused" in f and "generation_gt0_live" in f and "discard_memo" in f,
                   thm_note=open(__file__.replace("C07.py", "notes/C07.txt")).read())
    structs_cov = dict(ctx.coverage)
    structs_assumptions = list(ctx.assumptions)
    # stage 2: interned values (Intern layer; same engine as C08/C09, aliasing + reuse oracles)
    from checks import interncheck
    ctx.coverage = {}
    interncheck.run(ctx, INTERN_NOTE)
    intern_cov = ctx.coverage
    merged = dict(structs_cov)
    for k in ("obligations", "discharged", "closed_under_global_context"):
        merged[k] = structs_cov.get(k, 0)          # Props/C07.v is counted once (both stages report it)
    merged["evaluations"] = structs_cov.get("evaluations", 0) + intern_cov.get("evaluations", 0)
    merged["theorem_note"] = structs_cov.get("theorem_note", "") + "\n\n" + INTERN_NOTE
    merged["trusted_base"] = list(structs_cov.get("trusted_base", [])) + [
        t for t in intern_cov.get("trusted_base", []) if t not in structs_cov.get("trusted_base", [])]
    merged["intern_stage"] = {k: intern_cov.get(k) for k in (
        "evaluations", "records_replayed", "distinct_nontrivial", "traces_validated_against_impl",
        "implementation_vs_model_disagreements", "oracle_disagreements", "distribution", "totals", "wall_s")}
    ctx.coverage = merged
    ctx.assumptions = structs_assumptions + [a for a in ctx.assumptions if a not in structs_assumptions]
    ctx.write_evidence("proof")


def replay(ctx, rp):
    if isinstance(rp.get("case"), list):
        from checks import interncheck
        return interncheck.replay(ctx, rp)
    return st.replay(ctx, rp)

"""C07 — reclaimed identities never alias memoized state or field data (tracked-struct part;
the interned part is checks/C09.py / interncheck)."""
from vplib import structsengine as st


def oracle(case, impl_lines, model_lines):
    """On the implementation's own records:
    (1) per slot, the generations of the ids that memos hold never decrease over time, and after a
        DidDiscard of (slot, g) every later id of that slot has a generation > g;
    (2) when a slot shows a NEW generation (reuse after deletion, or identity change), every memo
        attached to that slot after the step was produced in that step (verified in the current
        revision): no memo of the previous occupant is served;
    (3) a deleted slot carries no memos and is on the free list exactly once.
    Field data and dependents are covered by the value-level comparison with the from-scratch
    specification (handles through canonical names)."""
    a = st.split_lines(impl_lines)
    maxgen = {}        # slot -> largest generation seen live
    dead_gen = {}      # slot -> generation of the last discard
    for i in sorted(a["R"]):
        s_txt = a["S"].get(i)
        if s_txt is None:
            return None
        sv = st.parse_state(s_txt)
        for e in a["E"].get(i, "").split():
            if e.startswith("d:s."):
                ix, g = (int(x) for x in e[4:].split("."))
                dead_gen[ix] = max(g, dead_gen.get(ix, -1))
        now = {}
        for k, m in sv["memo"].items():
            for h in m["structs"]:
                ix, g = (int(x) for x in h.split("."))
                now[ix] = g
        for ix, g in now.items():
            if g < maxgen.get(ix, 0):
                return dict(level="oracle", step=i, why=f"slot {ix}: generation went back from {maxgen[ix]} to {g}")
            if ix in dead_gen and g <= dead_gen[ix]:
                return dict(level="oracle", step=i, why=f"slot {ix}: id with generation {g} alive after discard of generation {dead_gen[ix]}")
            if g > maxgen.get(ix, -1) and ix in maxgen:
                for fam in ("2", "3"):
                    m = sv["memo"].get(f"{fam}.{ix}")
                    if m is not None and m["ver"] != sv["rev"]:
                        return dict(level="oracle", step=i,
                                    why=f"slot {ix} got generation {g}; memo {fam}.{ix} (verified at {m['ver']}) is from the previous occupant")
            maxgen[ix] = max(g, maxgen.get(ix, -1))
        idx = [ix for ix, _ in sv["free"]]
        if len(idx) != len(set(idx)):
            return dict(level="oracle", step=i, why="a slot is on the free list twice")
        for ix, sl in sv["slots"].items():
            if not sl["live"]:
                if ix not in idx:
                    return dict(level="oracle", step=i, why=f"deleted slot {ix} is not on the free list")
                if f"2.{ix}" in sv["memo"] or f"3.{ix}" in sv["memo"]:
                    return dict(level="oracle", step=i, why=f"deleted slot {ix} still has memos")
    return None


def run(ctx):
    st.run_structs(ctx, ["churn", "structs"], n_quick=450, n_thorough=6000, oracle=oracle,
                   nontrivial_rule=lambda f: "slot_reused" in f and "generation_gt0_live" in f and "discard_memo" in f,
                   thm_note=open(__file__.replace("C07.py", "notes/C07.txt")).read())


def replay(ctx, rp):
    return st.replay(ctx, rp)

"""C25 — stored dependency edges round-trip exactly.
The content of the property lives in the kernels (re-translated from the Rust on every run;
theorems re-checked against the generated definitions) and in the Codec model
(pack-then-spill control structure), which is tied to the code by a differential test
through hook H3 on boundary-class vectors."""
import os
import time

from vplib import common
from checks import codec_diff

NOTE = ("Proved over the TRANSLATED definitions, for all 32-bit values and edge lists of any length that fits u32 "
        "(above that the code panics; stated as hypothesis): C25_packed_roundtrip, C25_tag, C25_origin_roundtrip "
        "(both derived kinds, any extra, packed layout exactly when every edge packs, order-preserving inputs/outputs "
        "partition, clear_edges keeps kind and extra), C25_origin_keys, C25_serde. Not modelled: SliceWithHeader "
        "allocation layout / raw pointers (C23). Arithmetic uses wrapping (release) semantics.")


def run(ctx):
    t0 = time.time()
    probs = common.audit()
    if probs:
        raise common.CheckError("audit failed: " + "; ".join(probs[:5]))
    proof_broken = None
    ok, log, digest = common.run_translator()
    if not ok:
        proof_broken = dict(kind="translation", detail=log[-3000:])
    rep = None
    if proof_broken is None:
        rep = common.props_report("C25")
        if not rep["ok"]:
            proof_broken = dict(kind="proof", detail=rep["log"][-3000:], theorems=rep["theorems"],
                                bad_axioms=rep["bad_axioms"])
    res = None
    diff_error = None
    if proof_broken is None or proof_broken["kind"] == "proof":
        okm, logm = common.coq_make(["gen/Kernels.vo", "Codec/Model.vo", "Codec/Flat.vo"])
        if okm:
            try:
                res = codec_diff.run_codec_diff(common.REPO, ctx.seed, ctx.tier)
            except Exception as e:   # harness build failure etc.
                diff_error = str(e)
        else:
            diff_error = "Codec model does not compile against the regenerated kernels:\n" + logm[-2000:]
            if proof_broken is None:
                proof_broken = dict(kind="proof", detail=diff_error)
    if diff_error and proof_broken is None:
        raise common.CheckError(diff_error)
    spec_kinds = ("origin", "serde", "clear", "packed")
    reported = False
    if res is not None and res["mismatches"]:
        fm = res["first_mismatch"]
        kind = fm["vector"].split()[0]
        if kind.startswith(spec_kinds):
            ctx.violation(dict(kind="stored origin does not round-trip as the proved codec specification says",
                               vector=fm["vector"], rust_result=fm["rust"], specification_result=fm["coq"],
                               how_to_replay="echo '<vector>' | .build/target-codec/release/verif-harness-codec"))
        else:
            ctx.violation(dict(kind="correspondence translated kernel / compiled Rust no longer holds",
                               relation="kernel %s: coq/gen/Kernels.v vs salsa::verif_codec" % kind,
                               vector=fm["vector"], rust_result=fm["rust"], coq_result=fm["coq"],
                               search="%d origin/serde vectors compared with the round-trip specification, none fails" %
                                      sum(v["cases"] for k, v in res["by_kind"].items() if k.startswith(spec_kinds))),
                          no_input=True)
        reported = True
    if not reported and proof_broken is not None:
        # failing-input search: the round trip itself, on the implementation, against the
        # last specification that compiled is not available when the kernels do not translate;
        # boundary sweep through H3 is what run_codec_diff did (if it could run)
        ctx.violation(dict(kind="proof obligation no longer checks", broken=proof_broken,
                           theorem_file="coq/Props/C25.v (and coq/Kern/K5_Id.v, K7_Edge.v)",
                           search=("%d boundary vectors compared, none fails" % res["cases"]) if res else
                                  "differential test could not run: " + str(diff_error)),
                      no_input=True)
    ctx.coverage.update({
        "obligations": rep["obligations"] if rep else 0,
        "discharged": rep["discharged"] if rep else 0,
        "checker_cmd": "make -C coq Props/C25.vo  (coqc 8.16.1; kernels regenerated from /repo first; Print Assumptions captured)",
        "trusted_base": common.TRUSTED_BASE_COMMON + ["hook H3 (salsa::verif_codec) calls the real kernels and builds real OriginAndExtra values"],
        "theorems": rep["statements"] if rep else [],
        "axioms_reported": rep["axioms"] if rep else [],
        "closed_under_global_context": rep["closed_count"] if rep else 0,
        "theorem_note": NOTE,
        "kernels_translated": len(digest.get("kernels", [])) if isinstance(digest, dict) else 0,
        "evaluations": res["cases"] if res else 0,
        "distinct_nontrivial": sum(v["cases"] for k, v in res["by_kind"].items() if k.startswith(spec_kinds)) if res else 0,
        "rule": "boundary-class vectors {0,1,0xFFF,0x1000,MAX_INDEX}x{0,0xFFFFF,0x100000,u32::MAX}x indices; origin vectors exhaustive for lists up to length 3 over the classes (thorough) / sampled, lists up to length 40; non-trivial = origin/serde vectors (whole encode/decode round trips), the rest are single-kernel vectors",
        "traces_validated_against_impl": (res["cases"] - res["mismatches"]) if res else 0,
        "mismatches": res["mismatches"] if res else None,
        "by_kind": res["by_kind"] if res else {},
        "samples": [res["first_mismatch"]] if res and res["first_mismatch"] else ["origin 3 5 2 0 0 127 0 0 2147483647 128 0"],
        "wall_s": round(time.time() - t0, 1),
    })
    ctx.assumptions = ["wrapping (release) arithmetic", "allocation layout outside the model"]
    ctx.write_evidence("proof")


def replay(ctx, rp):
    print(rp.get("vector"), rp.get("rust_result"), rp.get("specification_result", rp.get("coq_result")))
    return 1

"""C18 — cross-thread cycles terminate with the single-threaded results.

  * proofs: Props/C18.v (protocol level over Proto/Model.v for every reachable state: lock
    hand-over of an inner cycle head, release of the outer head, who a claimant waits for;
    value level for every monotone program and ANY multi-handle final state: certificate =>
    single-threaded result, schedule independence; the abstract chaotic multi-handle iteration
    terminates under every schedule with the least fixpoint);
  * exploration of the real crate's shuttle build (harness-par, bin cyc_par): generated cyclic
    programs (fixpoint with cycle_initial / cycle_fn, fallback cycle_result; nested and
    input-conditional cycles) entered at DIFFERENT members by 2-3 handles, several revisions
    (writes between the rounds reshape the cycles), PCT and random schedulers.  Per schedule:
      (a) termination: shuttle's deadlock detection and step bound (a failure = finding);
      (b) every returned value == the single-threaded specification (`kleene` / `spec_fallback`
          of the cycle engine's driver).  First revision (fresh database): any difference is a
          violation.  Later revisions: a difference that the single-threaded run of the SAME
          history on the same crate shows as well (the harness' REF run, or — the known classes
          depend on the entry order — some single-threaded linearisation of the par groups) is
          the cycle engine's known finding (DESIGN 0.3); a difference only a multi-threaded
          schedule shows is a violation;
      (c) the final state after the rounds (hook H1/H7 dump; settled memos read back without
          execution) is evaluated with the extracted decidable certificate (mh_cert_fix /
          mh_cert_fb, mh_below), so that C18_values_certified / C18_fallback_certified_partial
          apply to the multi-threaded final state; the certified fraction is reported;
      (d) the kept H2 protocol traces (claims, transfers, blocks, wake-ups) are replayed through
          the extracted Proto model; transfer steps are counted.
"""
import json
import os
import re
import shutil
import time

from checks import parcheck
from vplib import common
from vplib import parengine as pe

WHAT = ("a cross-thread cycle returned a value different from the single-threaded evaluation, or a schedule "
        "deadlocked / exceeded the step bound / panicked")
CIRCULAR = "transfer_target_search_wakes_wrong_thread"
CIRCULAR_MSG = "Circular reference between blocked edges"
KNOWN_NOTE = ("history-dependent single-threaded deviations of the cycle engine (C12 "
              "cycle_participant_validated_on_incomplete_edges; C13 fallback_participant_reexecuted_after_revision, "
              "fallback_cycle_not_redetected_member_validated, fallback_membership_change_not_propagated) met in a later "
              "revision: the same value is returned by a single-threaded run of the same history (same or another entry "
              "order of the par groups)")


def run(ctx):
    t0 = time.time()
    probs = common.audit()
    if probs:
        raise common.CheckError("audit failed: " + "; ".join(probs[:5]))
    proof_broken = None
    ok, log, _ = common.run_translator()
    if not ok:
        proof_broken = dict(kind="translation", detail=log[-3000:])
    rep = None
    if proof_broken is None:
        rep = common.props_report("C18")
        if not rep["ok"]:
            proof_broken = dict(kind="proof", detail=rep["log"][-3000:], theorems=rep["theorems"],
                                bad_axioms=rep["bad_axioms"])
    okm, logm = common.coq_make(["Proto/Model.vo"])
    if not okm:
        raise common.CheckError("Proto model does not compile:\n" + logm[-2000:])
    cycle_driver = parcheck.build_cycle_driver()
    cert_driver = parcheck.build_cert_driver()
    common.sh([os.path.join(common.ROOT, "ocaml/proto/build.sh")], timeout=900, check=True)
    harness = parcheck.build_cyc_harness()

    quick = ctx.tier == "quick"
    ncases = 30 if quick else 240
    iters = 100 if quick else 300
    scheds = ["pct", "random"]
    size = "quick" if quick else "thorough"
    cases = list(pe.corpus("C18"))
    ncorpus = len(cases)
    cases += pe.generate18(ctx.seed, "fix", ncases, size, prefix="x") + pe.generate18(ctx.seed, "fallback", ncases, size, prefix="b")
    # four handles: the deep_cond shape (conditionally formed nested cycles in which a transferred
    # query is re-claimed and released while another handle is blocked on the re-claimer) and
    # chains of nested heads (a lock is transferred twice, waiters two levels down the transfer
    # tree); besides PCT depth 3 / random these are explored with PCT depth 50 — the defects
    # found there need many priority changes (checks/notes/C19-circular-blocked-edges.txt)
    hard, semantic = pe.generate_hard(ctx.seed, 24 if quick else 60, size, prefix="q")
    cases += hard
    plan = {"pct": cases, "random": cases, "pct50": hard}
    iters_of = {"pct": iters, "random": iters, "pct50": 1500 if quick else 3000}
    scheds = ["pct", "random", "pct50"]
    spec = pe.specification18(cases, cycle_driver)
    # (the value-conditioned deep_cond programs are monotone by construction — then-branch = else-branch plus
    # further terms — but outside the syntactic class mono_table)
    notmono = [cid for cid, s in spec.items() if s["mono"] is False and cid not in semantic]
    if notmono:
        raise common.CheckError(f"generated fixpoint program outside the class mono_table (C12_profile_programs_monotone): {notmono[:3]}")
    out_root = os.path.join(common.BUILD, "par-traces", f"C18-{ctx.seed}-{os.getpid()}")
    shutil.rmtree(out_root, ignore_errors=True)
    os.makedirs(out_root)
    res, tdirs = parcheck.explore18(ctx, plan, harness, scheds, iters_of, out_root, trace_cap=3 if quick else 4)

    # ---- (a) + (b)
    findings, known, lin, circular = [], [], {}, []
    unwound = {}                       # case id -> {panic code: schedules}
    by_id = {c.split()[1]: c for c in cases}
    nlin = 200 if quick else 400

    def lin_known(c, key, got):
        """does some single-threaded linearisation of the par groups return `got` at request `key`?"""
        cid = c.split()[1]
        if cid not in lin:
            lin[cid] = parcheck.linearisation_results(c, harness, ctx.seed, n=nlin)
        return any(r.get(tuple(key)) == got for r in lin[cid])

    for sched, (out, _hung) in res.items():
        for c in plan[sched]:
            cid = c.split()[1]
            if cid not in out and any(o["fails"] for o in out.values()):
                continue            # not run: the harness process of its shard died in an earlier case (reported there)
            fs, kn = pe.check_case18(cid, spec[cid], out, shuttle=True)
            known += [(cid, sched, k) for k in kn]
            for f in fs:
                if f["kind"] == "harness":
                    # no output for this case: either the shard died on an EARLIER case (reported
                    # there as a crash finding) and this one was never run, or the harness is broken
                    if any(ff.get("kind") == "crash" for o2 in out.values() for ff in o2.get("fails", [])):
                        continue
                    raise common.CheckError(f"cyc_par produced no usable output for {cid}: {f}")
                if f["kind"] == "unwound":
                    d = unwound.setdefault(cid, {})
                    d[f["detail"]["code"]] = d.get(f["detail"]["code"], 0) + 1
                    continue
                if f["kind"] == "values" and f["detail"]["revision"] > 0 and lin_known(c, f["detail"]["request"], f["detail"]["got"]):
                    known.append((cid, sched, dict(iter=f["iter"], other_entry_order=True, **f["detail"])))
                    continue
                if (f["kind"] == "failure" and CIRCULAR_MSG in str(f["detail"].get("msg", ""))
                        and any(k["property"] == ctx.prop and k["class"] == CIRCULAR for k in common.known_findings())):
                    # salsa's own debug assertion of update_transferred_edges: the listed known finding of C19/C18
                    # (checks/notes/C19-circular-blocked-edges.txt); recognised by the assertion itself
                    circular.append((cid, sched, f["iter"]))
                    continue
                findings.append((c, sched, f))

    # ---- executions in which something unwound (salsa's debug-build backdate assertion, known
    # finding of C12/C13/C15): shuttle cannot soundly drive them; the cases are re-examined on OS
    # threads (no hang; every request = specification, or the same panic as some single-threaded
    # linearisation, or PropagatedPanic next to a panicking handle)
    os_part = dict(cases=0, repetitions=0, known_outcomes=0, findings=0, hung=False, panic_codes={})
    if unwound:
        std = parcheck.build_cyc_harness(std=True)
        ucases = [by_id[cid] for cid in unwound]
        oiters = 150 if quick else 300
        oout, ohung = pe.run_harness18(ucases, std, oiters, "os", ctx.seed, trace_cap=0)
        os_part.update(cases=len(ucases), hung=bool(ohung))
        for c in ucases:
            cid = c.split()[1]
            for code, n in unwound[cid].items():
                os_part["panic_codes"][f"p{code}"] = os_part["panic_codes"].get(f"p{code}", 0) + n
            fs, nk = pe.check_case18_os(cid, spec[cid], oout, lambda key, g, c=c: lin_known(c, key, g))
            os_part["repetitions"] += len(oout.get(cid, {}).get("iters", []))
            os_part["known_outcomes"] += nk
            for f in fs:
                if f["kind"] == "harness" and ohung:
                    continue
                os_part["findings"] += 1
                findings.append((c, "os", f))
    lin_runs = len(lin)
    # ---- (d)
    rp = parcheck.replay_traces(tdirs)
    # ---- (c)
    cert = dict(rounds=0, certified=0, certified_and_below_and_equal=0, uncertified=0, contradicting=0,
                distinct_states=0, probe_reads_that_executed=0)
    contradicting = []
    for sched, (out, _hung) in res.items():
        reqs, owners = pe.cert_requests(plan[sched], out)
        cr = pe.run_cert_driver(reqs, cert_driver)
        cert["distinct_states"] += len(reqs)
        for rid, r in cr.items():
            n = len(owners[rid])
            cert["rounds"] += n
            cert["probe_reads_that_executed"] += sum(1 for o in owners[rid] if o[3] > 0)
            if r["cert"] and r["below"]:
                cert["certified"] += n
                if r["eq"]:
                    cert["certified_and_below_and_equal"] += n
                else:
                    # the theorem says this cannot happen: a certified state whose returned values
                    # differ from the specification
                    cert["contradicting"] += n
                    contradicting.append((owners[rid][0], sched, [q for q in reqs if q.split()[1] == rid][0]))
            else:
                cert["uncertified"] += n
    cert["certified_fraction"] = round(cert["certified"] / cert["rounds"], 4) if cert["rounds"] else None

    # ---- decision
    seen = set()
    findings.sort(key=lambda x: (0 if x[2]["kind"] == "failure" else 1, x[2]["detail"].get("revision", 0) if isinstance(x[2]["detail"], dict) else 0))
    for c, sched, f in findings:
        cid = c.split()[1]
        if cid in seen or len(seen) >= 3:
            continue
        seen.add(cid)
        sched_file = None
        if f["kind"] == "failure":
            sched_file = parcheck.keep_file(f["detail"].get("sched"), f"C18-schedule-{ctx.seed}-{ctx.replay_n + 1}.txt")
        ctx.violation(dict(kind=WHAT, case=c, scheduler=sched, harness_seed=ctx.seed, iteration=f["iter"],
                           iters_to_run=max(iters_of.get(sched, iters), f["iter"] + 1), finding=f, shuttle_schedule_file=sched_file,
                           engine="par-cycle", os_threads=(sched == "os"),
                           how_to_replay="./vp replay <this file>  (re-runs the same case with the same scheduler and seed up to "
                                         "the failing iteration; a persisted shuttle schedule is replayed too)"))
    for (owner, sched, req) in contradicting[:1]:
        ctx.violation(dict(kind="a multi-threaded final state passes the certificate but a returned value differs from the "
                                "specification (contradicts C18_values_certified: pipeline or model broken)",
                           case=by_id[owner[0]], scheduler=sched, harness_seed=ctx.seed, iteration=owner[1],
                           iters_to_run=max(iters, owner[1] + 1), certificate_request=req, engine="par-cycle"))
    if not ctx.violations and (proof_broken is not None or rp["mismatch"]):
        keep = None
        if rp["mismatch"]:
            m = re.search(r"MISMATCH line \d+ (\S+)", rp["mismatches"][0])
            if m:
                keep = parcheck.keep_file(m.group(1).rstrip(":"), f"C18-trace-{ctx.seed}.txt")
        tot_s = sum(pe.stats18(o)["schedules"] for o, _ in res.values())
        ctx.violation(dict(kind="proof obligation no longer checks" if proof_broken is not None else
                           "correspondence model/implementation no longer holds",
                           broken=proof_broken, theorem_file="coq/Props/C18.v",
                           relation="Proto model vs recorded protocol traces of the cross-thread cycle workload (each logged step "
                                    "enabled, preconditions, outcome incl. the wake-ups of transfer_lock)",
                           first_mismatch=rp["mismatches"][0] if rp["mismatches"] else None, trace_file=keep,
                           search=f"{tot_s} explored schedules: none violates the specification"), no_input=True)
    listed = {kf["class"] for kf in common.known_findings() if kf["property"] == ctx.prop}
    for cls, hit in (("backdate_violation_participant_after_head_backdated", bool(unwound)),
                     ("single_threaded_history_dependent_cycle_results", bool(known))):
        if hit and cls not in listed:
            ctx.violation(dict(kind="deviation class met that is not listed in known-findings.txt", deviation_class=cls,
                               example=(known[0][2] if cls.startswith("single") and known else {k: dict(v) for k, v in list(unwound.items())[:1]})),
                          no_input=True)
    if circular:
        kf = [k for k in common.known_findings() if k["property"] == ctx.prop and k["class"] == CIRCULAR]
        ctx.known_finding(f"class={CIRCULAR} {kf[0]['text'] if kf else ''} (met in {len(circular)} explored schedules: "
                          + ", ".join(f"{c}/{s}#{i}" for c, s, i in circular[:6]) + ")")
    if unwound:
        ctx.known_finding("class=backdate_violation_participant_after_head_backdated (C12/C13/C15, debug builds only) salsa's own "
                          f"backdate assertion fired in {sum(sum(v.values()) for v in unwound.values())} explored schedules of "
                          f"{len(unwound)} cases (later revisions; also in single-threaded linearisations of the same history); "
                          "shuttle cannot soundly drive executions that unwind, so these cases were re-examined on OS threads: "
                          f"{os_part['repetitions']} repetitions, {os_part['findings']} findings, hung={os_part['hung']}")
    if known:
        byrev = {}
        for cid, sched, k in known:
            byrev[k["revision"]] = byrev.get(k["revision"], 0) + 1
        ctx.known_finding(f"class=single_threaded_history_dependent_cycle_results {KNOWN_NOTE} "
                          f"(met in {len(known)} schedule/request pairs of {len(set(k[0] for k in known))} cases, by number of "
                          f"preceding writes {byrev}; {lin_runs} linearisation searches)")

    st = {s: pe.stats18(o) for s, (o, _) in res.items()}
    tot = {k: sum(v[k] for v in st.values()) for k in next(iter(st.values()))}
    sample = None
    for s, (o, _) in res.items():
        for cid, oo in o.items():
            good = [it for it in oo["iters"] if it["xt"] > 0]
            if good:
                sample = dict(case=by_id.get(cid), scheduler=s, reference=oo["ref"], schedule=good[0],
                              probe=oo["gs"].get(good[0]["i"]))
                break
        if sample:
            break
    first_rev = sum(1 for s in spec.values() for k in s["spec"] if s["rev"][k[0]] == 0)
    later_rev = sum(1 for s in spec.values() for k in s["spec"] if s["rev"][k[0]] > 0)
    ctx.coverage.update({
        "obligations": rep["obligations"] if rep else 0,
        "discharged": rep["discharged"] if rep else 0,
        "checker_cmd": "make -C coq Props/C18.vo  (coqc 8.16.1, Print Assumptions captured)",
        "trusted_base": common.TRUSTED_BASE_COMMON + [
            "shuttle 0.9.3 (PCT depth 3 and random schedulers, deadlock detection, step bound 400000) as the schedule controller of salsa's `shuttle` build",
            "hook H2 appends each protocol record while the critical section's locks are held; hook H1/H7 dumps memo headers truthfully",
            "the settled memos are read back through the public API on the main handle after the round; a read counts only if no WillExecute event fired (the value is the memo's)",
            "the composition of the cycle algorithm with the protocol is not modelled: termination and equality with the single-threaded result are established per explored schedule; the certificate theorem applies to each certified final state",
            "critical sections are atomic; atomics are sequentially consistent; condvar semantics outside the model"],
        "theorems": rep["statements"] if rep else [],
        "axioms_reported": rep["axioms"] if rep else [],
        "closed_under_global_context": rep["closed_count"] if rep else 0,
        "theorem_note": open(__file__.replace("C18.py", "notes/C18.txt")).read(),
        "evaluations": tot["schedules"],
        "distinct_nontrivial": tot["distinct_with_cross_thread_cycle_or_transfer"],
        "rule": "one evaluation = one explored schedule (shuttle iteration) of one generated case (2-3 handles entering a cyclic "
                "program at different members, 1-4 rounds with writes in between); distinct_nontrivial = distinct (case, "
                "protocol-trace hash) pairs among the schedules in which try_claim/block answered Cycle to a thread other "
                "than the owner or a lock was transferred to a query owned by another thread",
        "cases": len(cases), "corpus_cases": ncorpus,
        "profiles": {"fix (kleene)": ncases, "fallback (spec_fallback)": ncases,
                     "four handles: deep_cond shape / chains of nested heads (kleene)": len(hard)},
        "four_handle_cases_monotone_by_construction_outside_mono_table": len(semantic),
        "schedulers": scheds, "iterations_per_case_and_scheduler": iters_of,
        "requests_in_first_revision_per_schedule": first_rev, "requests_in_later_revisions_per_schedule": later_rev,
        "totals": tot, "per_scheduler": st,
        "findings": len(findings),
        "differences_in_known_single_threaded_classes": len(known),
        "linearisation_searches": lin_runs,
        "schedules_that_died_with_the_listed_circular_blocked_edges_assertion": len(circular),
        "schedules_in_which_something_unwound_under_shuttle": {cid: v for cid, v in list(unwound.items())[:20]},
        "unwinding_cases_reexamined_on_os_threads": os_part,
        "certificate": cert,
        "proto_traces_replayed": rp["files"], "proto_traces_ok": rp["ok"], "proto_trace_mismatches": rp["mismatch"],
        "proto_steps_replayed": rp["steps"], "proto_step_coverage": rp["cov"],
        "transfer_lock_steps_replayed": sum(int(v) for k, v in rp["cov"].items() if k.startswith("outcome:transfer:")),
        "samples": [sample],
        "wall_s": round(time.time() - t0, 1),
    })
    ctx.assumptions = ["critical sections are atomic", "shuttle explores real interleavings of salsa's shuttle build",
                       "user code is deterministic and monotone over the bit-set lattice (fixpoint profile: the class mono_table, "
                       "proved monotone by C12_profile_programs_monotone)"]
    ctx.write_evidence("proof")
    shutil.rmtree(out_root, ignore_errors=True)


def replay(ctx, rp):
    return parcheck.replay18(ctx, rp, std=bool(rp.get("os_threads")))

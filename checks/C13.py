"""C13 — fallback cycles return the fallback for exactly the cycle participants."""
from checks import cyclecheck


def run(ctx):
    cyclecheck.run_cycle(ctx, ["fallback"], n_quick=500, n_thorough=8000,
                         nontrivial_rule=lambda f: "iterate" in f and "reexec" in f and "finalize" in f,
                         thm_note=open(__file__.replace("C13.py", "notes/C13.txt")).read())


def replay(ctx, rp):
    return cyclecheck.replay(ctx, rp)

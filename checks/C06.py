"""C06 — tracked struct identities survive re-execution; dropped structs are discarded."""
import re
from vplib import structsengine as st


def oracle(case, impl_lines, model_lines):
    """On the implementation's own records (values, events, hook-dumped state):
    (1) ids held by stored memos are pairwise distinct slots, each a live slot, none on the free list;
    (2) every DidDiscard of a struct leaves the slot deleted and on the free list with that generation
        — or reused in the same step with a LARGER generation — and no memo keyed by the old id
        survives (a memo at that slot must have been produced in this very step);
    (3) entries() enumerates exactly the live slots, with the values the hook reports;
    (5) every live slot is listed by some stored memo after every completed step ("any struct the
        function no longer creates is discarded ... no longer enumerated");
    (4) stability: a creator requested again returns, for every canonical name it returned before
        (same creator, identity value, occurrence), the same id — when it was merely validated, or
        re-executed once since, and no two different identity values among ALL the structs it holds
        (returned or not; read from the slots) share an identity hash (the scope of C06_stable)."""
    a = st.split_lines(impl_lines)
    b = st.split_lines(model_lines)
    hist = st.hist_of(case)
    hm = int(re.search(r"\(hashmod (\d+)\)", case).group(1))
    last = {}          # creator key -> (step, {cname: id}, execs since)
    unwound_orphans = set()
    execs = {}
    for i, op in enumerate(hist):
        s_txt = a["S"].get(i)
        if s_txt is None:
            return None
        sv = st.parse_state(s_txt)
        # (1)
        seen = {}
        free_idx = {ix for ix, _ in sv["free"]}
        for k, m in sv["memo"].items():
            for h in m["structs"]:
                ix, g = (int(x) for x in h.split("."))
                if ix in seen:
                    return dict(level="oracle", step=i, why=f"slot {ix} listed by memos {seen[ix]} and {k}")
                seen[ix] = k
                if ix not in sv["slots"] or not sv["slots"][ix]["live"]:
                    return dict(level="oracle", step=i, why=f"memo {k} lists {h} but the slot is not live")
                if ix in free_idx:
                    return dict(level="oracle", step=i, why=f"memo {k} lists {h} but the slot is on the free list")
        # (5) no orphan: every live slot is listed by some stored memo (a struct that no execution
        #     re-created must have been discarded) -- only when the step completed without a panic
        orphans = {ix for ix, sl in sv["slots"].items() if sl["live"] and ix not in seen}
        if a["R"].get(i, "").startswith("panic"):
            # an execution that unwinds drops its id map: the structs it had created stay
            # allocated without an owner (C06 quantifies over completed executions); such slots
            # are exempt for as long as they stay orphaned
            unwound_orphans |= orphans
        else:
            unwound_orphans &= orphans
            for ix in sorted(orphans - unwound_orphans):
                if True:
                    return dict(level="oracle", step=i,
                                why=f"slot {ix} is live (enumerated by entries()) but no stored memo lists it: "
                                    "a struct that its creator no longer creates was not discarded")
        # (2)
        for e in a["E"].get(i, "").split():
            if e.startswith("d:s."):
                ix, g = (int(x) for x in e[4:].split("."))
                sl = sv["slots"].get(ix)
                if sl is None:
                    return dict(level="oracle", step=i, why=f"discarded slot {ix} unknown to the dump")
                if not sl["live"]:
                    if (ix, g) not in sv["free"]:
                        return dict(level="oracle", step=i, why=f"discarded {ix}.{g} not on the free list")
                else:
                    gens = [int(h.split(".")[1]) for m in sv["memo"].values() for h in m["structs"] if int(h.split(".")[0]) == ix]
                    if gens and min(gens) <= g:
                        return dict(level="oracle", step=i, why=f"slot {ix} reused without a larger generation ({gens} after {g})")
                for fam in ("2", "3"):
                    m = sv["memo"].get(f"{fam}.{ix}")
                    if m is not None and m["ver"] != sv["rev"]:
                        return dict(level="oracle", step=i, why=f"memo {fam}.{ix} of a discarded struct survived")
            if e.startswith("x:"):
                k = e[2:]
                execs[k] = execs.get(k, 0) + 1
        # (3)
        if op[0] == "entries":
            want = " ".join(f"{ix}:{sl['idv']}:{sl['f0']}:{sl['f1']}" for ix, sl in sorted(sv["slots"].items()) if sl["live"])
            if a["N"].get(i, "").strip() != want:
                return dict(level="oracle", step=i, why="entries() differs from the live slots of the dump",
                            entries=a["N"].get(i), live=want)
        # (4)
        if op[0] == "get" and a["R"].get(i, "").startswith("ret") and a["R"].get(i) == b["R"].get(i):
            key = f"{op[1]}.{op[2]}.0"
            ids = re.match(r"ret \d+ \[(.*)\]", a["R"][i]).group(1).split(",")
            names = re.match(r"ret \d+ \[(.*)\]", b["C"][i]).group(1).split(",")
            cur = {nm: h for nm, h in zip(names, ids) if nm and nm != "?"}
            own = {nm: h for nm, h in cur.items() if nm.startswith(f"c{op[1]}:i{op[2]}:")}
            # every struct the creator holds (returned or not): identity values from the slots
            cm = sv["memo"].get(f"{op[1]}.{op[2]}")
            idvs = set()
            for h in (cm["structs"] if cm else []):
                sl = sv["slots"].get(int(h.split(".")[0]))
                if sl and sl["live"]:
                    idvs.add(sl["idv"])
            collide = hm != 0 and len({v % hm for v in idvs}) < len(idvs)
            if key in last and not collide:
                pstep, pown, pex, pcollide = last[key]
                if execs.get(key, 0) - pex <= 1 and not pcollide:
                    for nm, h in own.items():
                        if nm in pown and pown[nm] != h:
                            return dict(level="oracle", step=i,
                                        why=f"{nm} had id {pown[nm]} at step {pstep} and {h} now (creator {key})")
            last[key] = (i, own, execs.get(key, 0), collide)
    return None


def run(ctx):
    st.run_structs(ctx, ["structs", "churn", "durstructs"], n_quick=450, n_thorough=6000, oracle=oracle,
                   nontrivial_rule=lambda f: "discard_struct" in f and "validate_keyed_by_struct" in f and "reexec" in f,
                   thm_note=open(__file__.replace("C06.py", "notes/C06.txt")).read())


def replay(ctx, rp):
    return st.replay(ctx, rp)

"""C04 — queries that read untracked state re-execute in every later revision."""
from checks import seqcheck, reuse_oracle


def oracle(case, il, ml):
    o = reuse_oracle.oracle_c04(case, il, ml)
    if o is not None:
        return o
    # second clause (dependents reused when the re-executed query returns an equal value) is
    # the backdating clause of C03: an unjustified execution of a dependent is reported here too
    o3 = reuse_oracle.oracle_c03(case, il, ml)
    if o3 is not None and not reuse_oracle.known_c03(case, o3):
        return o3
    return None


def run(ctx):
    seqcheck.run_seq(ctx, ["untracked", "general"], n_quick=500, n_thorough=6000, oracle=oracle,
                     nontrivial_rule=lambda f: "untracked" in f and "reexec" in f,
                     thm_note=open(__file__.replace("C04.py", "notes/C04.txt")).read())


def replay(ctx, rp):
    return seqcheck.replay(ctx, rp)

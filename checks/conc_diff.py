#!/usr/bin/env python3
"""checks/conc_diff.py — concurrency profiles (C20 writer, C21 token, C24 alloc): run the real
implementation under a controlled schedule, check the harness-level verdicts, and replay every
recorded abstract trace through the extracted Coq machines (coq/Cancel/Model.v, coq/Alloc/Model.v).

    run_conc(profile, seed, tier) -> dict        profile in {"writer", "token", "alloc"}

Pipeline
  1. /verif/harness-conc (two builds, see its README.md): `alloc` under shuttle (pct + random) and,
     as a second opinion, on OS threads under the baton scheduler; `writer` / `token` on OS threads
     under the baton scheduler (pct + random) — shuttle cannot run them (panics, README.md).
  2. every `trace` line is replayed by /verif/.build/ocaml-conc/replay: state-level agreement of
     the token machine, the writer/reader machine, the stamp rule and the allocation machine with
     what the implementation reported through hook H6, event by event.
  3. the harness's own `result` lines (values vs reference, Cancelled payloads, distinct ids,
     read-back) are collected.
Nothing here stands in for a theorem: it validates model-vs-code agreement and looks for a failing
schedule.  The returned dict says which number is which.

Returned dict (all JSON-serialisable):
  ok                 no harness violation, no replay mismatch, no infrastructure error
  error              infrastructure problem (build failed, hook H6 missing, stall), else None
  runs               one entry per (runtime, sched): iters, traces, events, harness_violations,
                     replay ("OK .." / "FAIL .."), mismatches (first few), cmd, trace_file
  traces, events     totals replayed
  distribution       event kinds and the interesting sub-cases, summed over all runs
  stats              the harness's own counters, summed
  first_violation    first harness violation (iter, seed, text) or None
  first_mismatch     first replay mismatch line or None
  replay             how to reproduce the first failure: {"cmd": [...], "trace_file": path, "iter": n}
  observations       things worth a line in evidence (e.g. readers that got PropagatedPanic)

Stand-alone:  python3 checks/conc_diff.py <profile> [--seed N] [--tier quick|thorough] [--build]
Environment:  CONC_SHUTTLE_BIN, CONC_THREADS_BIN, CONC_REPLAY_BIN override the binaries
              (used for testing against a scratch worktree of /repo).
"""
import collections
import json
import os
import subprocess
import sys

ROOT = os.path.dirname(os.path.dirname(os.path.abspath(__file__)))
SHUTTLE_BIN = os.environ.get(
    "CONC_SHUTTLE_BIN", os.path.join(ROOT, ".build/target-shuttle/release/harness-conc"))
THREADS_BIN = os.environ.get(
    "CONC_THREADS_BIN", os.path.join(ROOT, ".build/target-conc-threads/release/harness-conc"))
REPLAY_BIN = os.environ.get("CONC_REPLAY_BIN", os.path.join(ROOT, ".build/ocaml-conc/replay"))
TRACE_DIR = os.path.join(ROOT, ".build/conc-traces", str(os.getpid()))

# iterations per (runtime, sched) run
TIERS = {
    "quick": {"alloc": {"shuttle": 150, "threads": 40}, "writer": {"threads": 80},
              "token": {"threads": 80}},
    "thorough": {"alloc": {"shuttle": 3000, "threads": 400}, "writer": {"threads": 1200},
                 "token": {"threads": 1200}},
}


def build(jobs=6):
    """Build both harness variants (cfg hook on) and the OCaml replayer."""
    env = dict(os.environ)
    env.update({"CARGO_NET_OFFLINE": "true", "RUSTFLAGS": "--cfg salsa_rs_salsa_verif"})
    from vplib import common as _c
    hdir = _c.crate_dir("harness-conc")
    global SHUTTLE_BIN, THREADS_BIN
    if _c.REPO != "/repo":
        SHUTTLE_BIN = os.path.join(_c.target_dir("shuttle"), "release", "harness-conc")
        THREADS_BIN = os.path.join(_c.target_dir("conc-threads"), "release", "harness-conc")
    for target, extra in ((_c.target_dir("shuttle"), []),
                          (_c.target_dir("conc-threads"), ["--no-default-features"])):
        env["CARGO_TARGET_DIR"] = target
        p = subprocess.run(["cargo", "build", "--offline", "--release", f"-j{jobs}"] + extra,
                           cwd=hdir, env=env, timeout=1800, stdout=subprocess.PIPE,
                           stderr=subprocess.STDOUT, text=True)
        if p.returncode != 0:
            hint = ""
            if "verif_conc" in p.stdout:
                hint = " (hook H6 — /verif/hooks/H6-cancel-alloc.patch — is not applied to /repo)"
            raise RuntimeError(f"cargo build failed for {target}{hint}\n{p.stdout[-3000:]}")
    subprocess.run([os.path.join(ROOT, "ocaml/conc/build.sh"), ROOT], check=True, timeout=900,
                   stdout=subprocess.PIPE, stderr=subprocess.STDOUT)


def _distribution(ev, dist):
    k = ev["e"]
    dist[k] += 1
    if k == "Check":
        dist["Check/" + ("continue", "local", "pending_write")[ev["outcome"]]] += 1
    elif k == "Take":
        dist["Take/" + ("none" if ev["page"] is None else "recycled_page")] += 1
    elif k == "Bump" and ev["overflow"]:
        dist["Bump/overflow"] += 1
    elif k == "PrevIterOut":
        dist["PrevIterOut/" + ("discard" if not ev["kept"] else
                               "seed_reuse" if ev["reuse"] else "kept")] += 1
    elif k == "CountGate":
        dist["CountGate/" + ("pass" if ev["pass"] else "reject")] += 1
    elif k == "TokSetDisabled":
        if ev["disabled"] and ev["prev"] & 2:
            dist["TokSetDisabled/nested_or_restore_true"] += 1
        if ev["prev"] & 1:
            dist["TokSetDisabled/while_cancel_pending"] += 1
    elif k == "Load" and ev["full"]:
        dist["Load/page_full"] += 1
    elif k == "Reuse":
        dist["Reuse/" + ("leaked" if ev["new_generation"] is None else "generation_bump")] += 1
    elif k == "Caught":
        dist["Caught/" + {1: "local", 2: "pending_write", 3: "propagated_panic"}.get(ev["why"], "other")] += 1
    elif k == "Mutated":
        dist["Mutated/" + ev["what"].replace(" ", "_")] += 1


def _one_run(binary, runtime, profile, sched, iters, seed, dist, stats):
    os.makedirs(TRACE_DIR, exist_ok=True)
    trace_file = os.path.join(TRACE_DIR, f"{profile}-{runtime}-{sched}-{seed}.jsonl")
    cmd = [binary, profile, "--iters", str(iters), "--seed", str(seed), "--sched", sched]
    run = {"runtime": runtime, "sched": sched, "iters": iters, "cmd": cmd,
           "trace_file": trace_file, "traces": 0, "events": 0, "harness_violations": 0,
           "violations": [], "replay": None, "mismatches": [], "error": None}
    if not os.path.exists(binary):
        run["error"] = f"missing binary {binary} (run build())"
        return run
    with open(trace_file, "w") as out:
        p = subprocess.run(cmd, stdout=out, stderr=subprocess.PIPE, text=True,
                           timeout=60 + iters * 3)
    run["exit"] = p.returncode
    crashed = None
    if p.returncode == 101 and ("panicked" in p.stderr or "shuttle::replay" in p.stderr):
        # the process died with a Rust panic that the harness did not expect: an assertion of salsa
        # itself, a specification assertion of the harness, or shuttle reporting a failed
        # execution (deadlock / panic in a task).  On a schedule-controlled run that IS a concrete
        # failing input (the command line reproduces it); it is reported as a violation, not as a
        # broken check.
        msg = [l for l in p.stderr.splitlines() if "panicked at" in l or "assertion" in l or "deadlock" in l.lower()]
        crashed = {"iter": None, "seed": seed,
                   "text": ["the harness process died with a panic (exit 101): " + " | ".join(msg[:4])[:600],
                            p.stderr[-1200:]]}
    elif p.returncode not in (0, 1):
        run["error"] = f"harness exit {p.returncode}: {p.stderr[-600:]}"
    with open(trace_file) as f:
        for line in f:
            if not line.startswith("{"):
                continue
            j = json.loads(line)
            kind = j.get("kind")
            if kind == "trace":
                run["traces"] += 1
                run["events"] += len(j["events"])
                for ev in j["events"]:
                    _distribution(ev, dist)
            elif kind == "result":
                for k, v in j["stats"].items():
                    stats[k] += v
                if not j["ok"]:
                    run["harness_violations"] += len(j["violations"])
                    if len(run["violations"]) < 5:
                        run["violations"].append(
                            {"iter": j["iter"], "seed": j["seed"], "text": j["violations"][:3]})
            elif kind == "summary":
                run["baton_steals"] = j.get("baton_steals", 0)
            elif kind in ("stall", "error"):
                run["error"] = j.get("error")
    if crashed is not None:
        run["harness_violations"] += 1
        run["violations"].append(crashed)
    if not os.path.exists(REPLAY_BIN):
        run["error"] = run["error"] or f"missing replayer {REPLAY_BIN} (run build())"
        return run
    r = subprocess.run([REPLAY_BIN, trace_file], stdout=subprocess.PIPE, stderr=subprocess.STDOUT,
                       text=True, timeout=60 + iters * 3)
    lines = r.stdout.strip().splitlines()
    run["replay"] = lines[-1] if lines else "no output"
    run["mismatches"] = [l for l in lines if l.startswith("MISMATCH")][:5]
    if r.returncode not in (0, 1):
        run["error"] = run["error"] or f"replayer exit {r.returncode}"
    return run


def run_conc(profile, seed, tier="quick"):
    if profile not in ("writer", "token", "alloc"):
        raise ValueError(profile)
    plan = TIERS[tier][profile]
    dist = collections.Counter()
    stats = collections.Counter()
    runs = []
    for runtime, iters in plan.items():
        binary = SHUTTLE_BIN if runtime == "shuttle" else THREADS_BIN
        for sched in ("pct", "random"):
            runs.append(_one_run(binary, runtime, profile, sched, iters, seed, dist, stats))
    first_violation = next((dict(v, runtime=r["runtime"], sched=r["sched"])
                            for r in runs for v in r["violations"]), None)
    first_mismatch = next((m for r in runs for m in r["mismatches"]), None)
    error = next((r["error"] for r in runs if r["error"]), None)
    bad_run = next((r for r in runs if r["violations"] or r["mismatches"]), None)
    replay = None
    if bad_run:
        it = None
        if bad_run["mismatches"]:
            for w in bad_run["mismatches"][0].split():
                if w.startswith("iter="):
                    it = int(w[5:])
        elif bad_run["violations"]:
            it = bad_run["violations"][0]["iter"]
        replay = {"cmd": bad_run["cmd"], "trace_file": bad_run["trace_file"], "iter": it,
                  "replayer": [REPLAY_BIN, bad_run["trace_file"]]}
    observations = []
    if stats.get("reader_propagated_panic"):
        observations.append(
            f"{stats['reader_propagated_panic']} reader computation(s) ended with "
            "Cancelled::PropagatedPanic instead of PendingWrite: they were blocked on a query of "
            "another reader that was cancelled by the pending write (runtime.rs block_on); the "
            "handle is still dropped, the writer still proceeds")
    if stats.get("pending_request_hit_next_computation"):
        observations.append(
            f"{stats['pending_request_hit_next_computation']} cancel() request(s) arrived after the "
            "handle's last call and unwound its next computation, as C21 states")
    ok = (error is None and first_violation is None and first_mismatch is None
          and all(r["replay"] and r["replay"].startswith("OK") for r in runs))
    return {
        "profile": profile, "seed": seed, "tier": tier, "ok": ok, "error": error,
        "runs": runs,
        "traces": sum(r["traces"] for r in runs), "events": sum(r["events"] for r in runs),
        "distribution": dict(sorted(dist.items())), "stats": dict(stats),
        "first_violation": first_violation, "first_mismatch": first_mismatch,
        "replay": replay, "observations": observations,
        "what_is_what": "traces/events = schedules explored and model steps replayed (agreement "
                        "validation only, not a proof); the theorems are Props/C20.v, C21.v, C24.v",
    }


def main(argv):
    if len(argv) < 2 or argv[1] not in ("writer", "token", "alloc"):
        print(__doc__)
        return 2
    seed = int(os.environ.get("VERIF_SEED", "1"))
    tier = "quick"
    do_build = False
    i = 2
    while i < len(argv):
        if argv[i] == "--seed":
            seed = int(argv[i + 1]); i += 2
        elif argv[i] == "--tier":
            tier = argv[i + 1]; i += 2
        elif argv[i] == "--build":
            do_build = True; i += 1
        else:
            print(__doc__); return 2
    if do_build:
        build()
    res = run_conc(argv[1], seed, tier)
    slim = dict(res)
    slim["runs"] = [{k: v for k, v in r.items() if k not in ("cmd",)} for r in res["runs"]]
    print(json.dumps(slim, indent=1))
    return 0 if res["ok"] else 1


if __name__ == "__main__":
    sys.exit(main(sys.argv))

"""C12 — fixpoint cycles converge to the least fixpoint regardless of entry order."""
from checks import cyclecheck


def run(ctx):
    cyclecheck.run_cycle(ctx, ["cycles"], n_quick=500, n_thorough=8000,
                         nontrivial_rule=lambda f: "iterate" in f and "reexec" in f and "finalize" in f,
                         thm_note=open(__file__.replace("C12.py", "notes/C12.txt")).read())


def replay(ctx, rp):
    return cyclecheck.replay(ctx, rp)

"""Shared check logic for C08 / C09 (interned ingredient): proofs + model/implementation
correspondence by linearisation replay + specification oracles on the implementation."""
import os
import random
import time

from vplib import common
from checks import intern_diff as idf


def build(ctx):
    probs = common.audit()
    if probs:
        raise common.CheckError("audit failed: " + "; ".join(probs[:5]))
    proof_broken = None
    ok, log, digest = common.run_translator()
    if not ok:
        proof_broken = dict(kind="translation", detail=log[-3000:])
    rep = None
    if proof_broken is None:
        rep = common.props_report(ctx.prop)
        if not rep["ok"]:
            proof_broken = dict(kind="proof", detail=rep["log"][-3000:], theorems=rep["theorems"],
                                bad_axioms=rep["bad_axioms"])
    rel = common.cargo_build("harness-intern", "default")
    idf.HARNESS_BIN = os.path.join(rel, "intern_harness")
    common.sh([os.path.join(common.ROOT, "ocaml/intern/build.sh"), common.ROOT], timeout=900, check=True)
    return proof_broken, rep


def spec_oracle(pops, prop):
    """Specification-level checks on the implementation's own records (hook linearisation
    records + API results).  Returns (problem|None, known_finding_class|None)."""
    by_rev = {}          # (ing, rev) -> {val: (idx, gen)} and inverse
    inv = {}
    active = {}          # ing -> sorted list of active revisions
    hist = {}            # (ing, val) -> list of (rev, idx, gen)
    revisions = {}
    for oi, op in enumerate(pops):
        for rec in op["recs"]:
            ing = rec.get("ing")
            rev = int(rec.get("rev", "0"))
            if rec.get("op") in ("intern", "mca", "commit", "touch", "abort", "insert-unwound"):
                # every call of intern_id / maybe_changed_after records the revision as active,
                # also one that unwinds (hook H5b records)
                active.setdefault(ing, set()).add(rev)
            if rec.get("op") != "intern":
                continue
            revisions[ing] = rec.get("revisions")
            val = rec.get("hash")
            h = (rec["idx"], rec["gen"])
            m = by_rev.setdefault((ing, rev), {})
            i = inv.setdefault((ing, rev), {})
            if prop in ("C08", "C07"):
                if val in m and m[val] != h:
                    return "op %d: value %s interned twice in revision %d with handles %s and %s" % (oi, val, rev, m[val], h), None
                if h in i and i[h] != val:
                    return "op %d: handle %s stands for values %s and %s in revision %d" % (oi, h, i[h], val, rev), None
            m[val] = h
            i[h] = val
            hist.setdefault((ing, val), []).append((rev, h))
            if prop in ("C09", "C07") and rec.get("path") == "reuse":
                q = [int(x) for x in idf._lst(rec.get("queue", "[]"))]
                if rec.get("dur_before") != "0":
                    return "op %d: reused a slot of durability %s" % (oi, rec.get("dur_before")), None
                if rec.get("revisions") == "max":
                    return "op %d: reuse in a type that disables collection" % oi, None
                if not q or min(q) <= 1:
                    return "op %d: reuse before the revision queue was primed (queue %s)" % (oi, q), None
                if not int(rec.get("lia_before", "0")) < min(q):
                    return "op %d: reused a slot last interned at %s, not older than the oldest of the last active revisions %s" % (oi, rec.get("lia_before"), q), None
        if prop in ("C08", "C07"):
            for r in op["rets"]:
                # RET idx gen read  (for `intern T V`: read-back of the field)
                words = op["text"].split()
                if words[0] == "intern" and len(r) >= 3 and r[2] != words[2]:
                    return "op %d: field read back %s for interned value %s" % (oi, r[2], words[2]), None
    if prop == "C08":
        # kept: a value interned in every revision in which its type is used keeps its handle
        for (ing, val), hs in hist.items():
            revs = sorted(set(r for r, _ in hs))
            act = sorted(a for a in active.get(ing, ()) if revs[0] <= a <= revs[-1])
            if act == revs:
                handles = set(h for _, h in hs)
                if len(handles) > 1:
                    if revisions.get(ing) == "1":
                        return None, "kept-revisions-1"
                    return "value %s of ingredient %s was interned in every active revision %s but changed handle: %s" % (val, ing, revs, sorted(handles)), None
    return None, None


def run(ctx, prop_note):
    t0 = time.time()
    proof_broken, rep = build(ctx)
    res = idf.run_intern_diff(ctx.seed, ctx.tier)
    # specification oracles over the same generated cases (re-run: cheap)
    n_cases = {"quick": 90, "thorough": 900}.get(ctx.tier, 90)
    rng = random.Random("intern_diff-%s" % ctx.seed)
    nshards, smap, hashval = idf.shard_map(True)
    oracle_bad = []
    known = 0
    samples = []
    for ci in range(n_cases):
        profile = ("retention", "churn", "conc")[ci % 3]
        sub = rng.getrandbits(32)
        if profile == "conc":
            ops, pinned = idf.gen_conc_case(random.Random(sub)), False
        else:
            ops, pinned = idf.gen_case(random.Random(sub), profile, smap, nshards), True
        if ci < 2:
            samples.append(ops)
        rc, out, err = idf.run_harness(ops, pinned)
        if rc != 0:
            # a panic raised inside salsa itself on a history the proved model accepts is a
            # concrete failing input (reads of current handles must return their fields)
            lines = [l for l in err.splitlines() if "panicked at" in l or "interned" in l]
            if any("/src/" in l and "harness" not in l for l in lines):
                oracle_bad.append((ops, "salsa panicked: " + " / ".join(lines[:3])))
            continue
        prob, kf = spec_oracle(idf.parse_harness(out), ctx.prop)
        if kf:
            known += 1
        if prob:
            oracle_bad.append((ops, prob))
    # thorough: the same correspondence under panics in user code (C22 profile; needs hook H5b)
    panic_res = None
    if ctx.tier == "thorough" and idf.h5b_present():
        panic_res = idf.run_intern_panic(ctx.seed, ctx.tier, n_cases=240)
        for vf in panic_res["value_failures"][:2]:
            oracle_bad.append((vf["case"], "panic profile: " + "; ".join(vf["problems"][:3])))
        if panic_res["model_mismatches"] and res["ok"]:
            mm = panic_res["model_mismatches"][0]
            res["ok"] = False
            res["mismatching_cases"] += len(panic_res["model_mismatches"])
            res["first_mismatch"] = {"case_seed": mm["case_seed"], "profile": "panic",
                                     "problems": mm["problems"], "shrunk_case": mm["case"],
                                     "shrunk_problems": mm["problems"]}
    reported = 0
    for ops, prob in oracle_bad[:2]:
        ctx.violation(dict(kind="specification oracle violated on the implementation",
                           case=ops, problem=prob, how_to_replay="./vp replay <this file>"))
        reported += 1
    if known:
        for kf in common.known_findings():
            if kf["property"] == ctx.prop:
                ctx.known_finding(f"class={kf['class']} {kf['text']} (met in {known} generated cases)")
    if reported == 0 and (proof_broken is not None or not res["ok"]):
        if proof_broken is not None:
            ctx.violation(dict(kind="proof obligation no longer checks", broken=proof_broken,
                               theorem_file=f"coq/Props/{ctx.prop}.v",
                               search="specification oracles over %d generated histories found no failing input" % n_cases),
                          no_input=True)
        else:
            ctx.violation(dict(kind="correspondence model/implementation no longer holds",
                               relation="Intern model vs implementation (linearisation replay: path, id, generation, slot stamps, revision queue, LRU order, events)",
                               case=res["first_mismatch"]["shrunk_case"], first_difference=res["first_mismatch"],
                               n_cases_differing=res["mismatching_cases"],
                               search="specification oracles over %d generated histories found no failing input" % n_cases),
                          no_input=True)
    ctx.coverage.update({
        "obligations": rep["obligations"] if rep else 0,
        "discharged": rep["discharged"] if rep else 0,
        "checker_cmd": f"make -C coq Props/{ctx.prop}.vo  (coqc 8.16.1, Print Assumptions captured)",
        "trusted_base": common.TRUSTED_BASE_COMMON + [
            "hook H5 (linearisation records taken under the shard lock) reports the truth",
            "every interned operation is atomic under its shard lock (the model's step granularity)",
            "Intern/RetK.v hand-mirrors is_stale/is_primed/is_reusable (kernel swap to translated k_rq_* pending)"],
        "theorems": rep["statements"] if rep else [],
        "axioms_reported": rep["axioms"] if rep else [],
        "closed_under_global_context": rep["closed_count"] if rep else 0,
        "theorem_note": prop_note,
        "evaluations": res["cases"],
        "records_replayed": res["records"],
        "distinct_nontrivial": res["distribution"]["with_reuse"],
        "rule": "generated histories (profiles retention, churn, conc; values drawn through the hook's shard map so they collide); non-trivial = at least one slot reuse fired in the case",
        "traces_validated_against_impl": res["cases"] - res["mismatching_cases"],
        "implementation_vs_model_disagreements": res["mismatching_cases"],
        "oracle_disagreements": len(oracle_bad),
        "known_finding_cases": known,
        "distribution": res["distribution"],
        "totals": res["totals"],
        "samples": samples,
        "panic_profile": None if panic_res is None else {
            k: panic_res[k] for k in ("cases", "requests", "records", "panics_by_fault", "unwound_calls",
                                      "requests_checked_after_a_panic", "known_finding_cases")},
        "wall_s": round(time.time() - t0, 1),
    })
    ctx.assumptions = ["the shard lock makes each interned operation atomic",
                       "the lock-free RevisionQueue::record fast path behaves atomically"]
    ctx.write_evidence("proof")


def replay(ctx, rp):
    build(ctx)
    if "case" not in rp:
        print("no concrete input recorded:", rp.get("broken", rp.get("relation")))
        return 1
    ops = rp["case"]
    pinned = not any(o.startswith("par ") for o in ops)
    _, _, hashval = idf.shard_map(True)
    ok, problems, stats = idf.check_case(ops, pinned, hashval)
    rc, out, err = idf.run_harness(ops, pinned)
    prob, kf = spec_oracle(idf.parse_harness(out), ctx.prop)
    print("model vs implementation:", "agree" if ok else problems[:5])
    print("specification oracle:", prob or "ok", kf or "")
    return 1 if (prob or not ok) else 0

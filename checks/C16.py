"""C16 — concurrent readers observe sequential results without deadlock.
Proofs over the CFetch model (Props/C16.v) + exploration of the real crate's shuttle build:
generated acyclic programs, 2-4 handles with overlapping request sets, several revisions,
PCT and random schedulers; every result is compared with the single-threaded specification
(Core model's from-scratch column on the flattened case), shuttle's deadlock detection and step
bound witness termination, the recorded H2 protocol traces are replayed through Proto."""
from checks import parcheck

OWN = ("values", "reference", "failure")


def run(ctx):
    parcheck.run_readers(
        ctx, OWN,
        what="a concurrent read returned a value different from the single-threaded evaluation, or a schedule "
             "deadlocked / exceeded the step bound / panicked",
        note=open(__file__.replace("C16.py", "notes/C16.txt")).read(),
        nontrivial_desc="number of distinct (case, protocol-trace hash) pairs among the schedules in which at least one "
                        "handle really waited for another (WillBlockOn >= 1)")


def replay(ctx, rp):
    return parcheck.replay_generic(ctx, rp)

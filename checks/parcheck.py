"""Shared machinery of the parallel-read checks (C16, C17, C14 cross-thread): audit, translator,
proofs, builds, specification column, exploration, H2 trace replay, decision, evidence.
Same structure as checks/seqcheck.py / checks/C19.py."""
import json
import os
import re
import shutil
import time

from vplib import common
from vplib import parengine as pe

HARNESS_CRATE = "harness-par"
BIN = "par_harness"
TARGET_SHUTTLE = "agentH"
TARGET_STD = "agentH-std"


def build_common(ctx, prop_file=None):
    """audit, translator, Props report, Core driver, Proto replayer. -> (proof_broken, rep, driver)"""
    probs = common.audit()
    if probs:
        raise common.CheckError("audit failed: " + "; ".join(probs[:5]))
    proof_broken = None
    ok, log, _ = common.run_translator()
    if not ok:
        proof_broken = dict(kind="translation", detail=log[-3000:])
    rep = None
    if proof_broken is None:
        rep = common.props_report(prop_file or ctx.prop)
        if not rep["ok"]:
            proof_broken = dict(kind="proof", detail=rep["log"][-3000:], theorems=rep["theorems"],
                                bad_axioms=rep["bad_axioms"])
    # the model files contain no proofs: they still build when a proof is broken
    okm, logm = common.coq_make(["Core/Model.vo", "Core/Spec.vo", "Core/Dsl.vo", "Proto/Model.vo", "CFetch/Model.vo"])
    if not okm:
        raise common.CheckError("model files do not compile:\n" + logm[-2000:])
    driver = common.build_ocaml_core()
    common.sh([os.path.join(common.ROOT, "ocaml/proto/build.sh")], timeout=900, check=True)
    return proof_broken, rep, driver


def has_h10():
    """hook H10 (memo-table records + verif_note in the protocol log) present in the salsa tree?"""
    p = os.path.join(common.REPO, "src", "verif_proto.rs")
    return os.path.exists(p) and "verif_fetch_trace" in open(p).read()


def build_harness(std=False):
    if not std:
        # with H10 in the tree the harness is built with its markers (off unless --fetch-trace)
        rel = common.cargo_build(HARNESS_CRATE, TARGET_SHUTTLE, features=["fetchtrace"] if has_h10() else None)
        return os.path.join(rel, BIN)
    cdir = common.crate_dir(HARNESS_CRATE)
    for f in ("Cargo.lock", "rust-toolchain.toml"):
        if not os.path.exists(os.path.join(cdir, f)) and os.path.exists(os.path.join(common.REPO, f)):
            shutil.copy(os.path.join(common.REPO, f), os.path.join(cdir, f))
    tdir = common.target_dir(TARGET_STD)
    rc, lg = common.sh(["cargo", "build", "--offline", "--release", "--no-default-features"] +
                       (["--features", "fetchtrace"] if has_h10() else []), cwd=cdir,
                       timeout=2400, env={"CARGO_TARGET_DIR": tdir, "RUSTFLAGS": f"--cfg {common.GUARD}"})
    if rc != 0:
        raise common.CheckError("cargo build harness-par (OS threads) failed:\n" + lg[-3000:])
    return os.path.join(tdir, "release", BIN)


def replay_traces(trace_dirs):
    """Replay the kept H2 traces through the extracted Proto model."""
    dirs = [d for d in trace_dirs if os.path.isdir(d) and any(f.endswith(".trace") for f in os.listdir(d))]
    if not dirs:
        return dict(files=0, ok=0, mismatch=0, steps=0, cov={}, mismatches=[])
    rc, lg = common.sh([os.path.join(common.BUILD, "ocaml-proto", "replay")] + dirs, timeout=3000)
    m = re.search(r"TOTAL files=(\d+) ok=(\d+) mismatch=(\d+) steps=(\d+)", lg)
    if not m:
        raise common.CheckError("replay produced no TOTAL line:\n" + lg[-2000:])
    files, okn, mism, steps = map(int, m.groups())
    cov = dict(re.findall(r"COVERAGE (\S.*?) (\d+)$", lg, re.M))
    return dict(files=files, ok=okn, mismatch=mism, steps=steps, cov=cov,
                mismatches=[l for l in lg.split("\n") if l.startswith("MISMATCH")])


def has_cfetchd():
    """the extended model (dynamic call lists, durabilities) is in the Coq tree"""
    return os.path.exists(os.path.join(common.COQ, "CFetchD", "Extract.v"))


def build_replay2():
    """the trace replayer (ocaml/cfetch): extraction of coq/CFetchD + replay3.ml (dynamic call
    lists, durability short-cut); before CFetchD existed: coq/CFetch2 + replay2.ml"""
    model, name = ("CFetchD", "replay3") if has_cfetchd() else ("CFetch2", "replay2")
    exe = os.path.join(common.BUILD, "ocaml-cfetch", name)
    deps = [os.path.join(common.COQ, model, "Model.vo"), os.path.join(common.COQ, model, "Extract.v"),
            os.path.join(common.ROOT, "ocaml", "cfetch", name + ".ml"),
            os.path.join(common.ROOT, "ocaml", "cfetch", "build.sh")]
    if os.path.exists(exe) and all(os.path.exists(d) and os.path.getmtime(d) <= os.path.getmtime(exe) for d in deps):
        return exe
    common.sh([os.path.join(common.ROOT, "ocaml", "cfetch", "build.sh")], timeout=900, check=True,
              env={"COQROOT": common.COQ})
    return exe


def fetch_stage(ctx, harness, driver, out_root, own_kinds):
    """CFetch-level trace replay (hook H10).  Programs of the fragment CFetch2 models exactly
    (profile static-low) are explored with the memo-table records switched on; EVERY explored
    schedule's trace (H2 protocol records + H10 memo-table records + harness notes, one totally
    ordered log) is replayed through the extracted CFetch2 model: each recorded step must be an
    enabled step of the named handle with the recorded outcome, the model's memo must carry the
    recorded stamps and value digest after each publish / mark, returned values are the model's.
    -> (coverage dict, findings of the value/exec checks on these cases, mismatch lines, cases, spec)"""
    if not has_h10():
        return dict(fetch_replay="hook H10 is not in the salsa tree: stage skipped"), [], [], [], {}
    general = has_cfetchd()
    model = "CFetchD" if general else "CFetch2"
    okm, logm = common.coq_make([model + "/Model.vo"])
    if not okm:
        raise common.CheckError(model + "/Model.v does not compile:\n" + logm[-2000:])
    exe = build_replay2()
    quick = ctx.tier == "quick"
    ncases = 20 if quick else 60
    iters = 150 if quick else 300
    size = "quick" if quick else "thorough"
    cases = list(pe.corpus("C16-static")) + pe.generate(ctx.seed, "static-low", ncases, size, prefix="f")
    if general:
        # the general reader programs: computed keys, `if`, repeated callees, bodies that read
        # nothing, input durabilities and synthetic writes above LOW
        cases += list(pe.corpus("C16-dynamic")) + pe.generate(ctx.seed, "acyclic", 2 * ncases, size, prefix="g")
    spec = pe.specification(cases, driver)
    res, tdirs = {}, []
    for sched in ("pct", "random"):
        td = os.path.join(out_root, "ft-" + sched)
        os.makedirs(td, exist_ok=True)
        out, hung = pe.run_harness(cases, harness, iters, sched, ctx.seed, trace_dir=td, trace_cap=10 ** 9,
                                   fetch_trace=True)
        res[sched] = (out, hung)
        tdirs.append(td)
    if not quick:
        # the same programs on OS threads (no shuttle): the process-wide order mutex of H10 makes
        # operation + record atomic, the interleavings are the machine's
        td = os.path.join(out_root, "ft-os")
        os.makedirs(td, exist_ok=True)
        res["os"] = pe.run_harness(cases, build_harness(std=True), iters, "os", ctx.seed, trace_dir=td,
                                   trace_cap=10 ** 9, fetch_trace=True)
        tdirs.append(td)
    fnd = findings_for(cases, spec, res, "readers", ("values", "reference", "failure", "exec", "harness"))
    herr = [x for x in fnd if x[2]["kind"] == "harness"]
    if herr:
        raise common.CheckError(f"par_harness (--fetch-trace) produced no usable output: {herr[0][2]}")
    casefile = os.path.join(out_root, "fetch-cases.txt")
    with open(casefile, "w") as f:
        f.write("\n".join(cases) + "\n")
    rc, lg = common.sh([exe, casefile] + tdirs, timeout=3000)
    m = re.search(r"TOTAL[23] files=(\d+) ok=(\d+) mismatch=(\d+) skipped=(\d+) steps=(\d+)"
                  r"(?: ok_without_shortcut=(\d+) ok_with_shortcut=(\d+))?", lg)
    if not m:
        raise common.CheckError("the trace replayer produced no TOTAL line:\n" + lg[-2000:])
    files, okn, mism, skipped, steps = map(int, m.groups()[:5])
    inside, outside = (int(m.group(6)), int(m.group(7))) if m.group(6) else (okn, 0)
    if skipped:
        raise common.CheckError("replay2 skipped traces (program outside the fragment?):\n" +
                                "\n".join(l for l in lg.split("\n") if l.startswith("SKIPPED"))[:1500])
    st = {s: pe.stats(o) for s, (o, _) in res.items()}
    cov = {
        "fetch_replay": ("every explored schedule of the static-low AND the general reader programs (dynamic call lists, bodies without "
                         "inputs, durabilities) replayed step by step through the extracted CFetchD model" if general else
                         "every explored schedule of the static-low programs replayed step by step through the extracted CFetch2 model"),
        "fetch_model": model,
        "fetch_traces_ok_in_the_proved_class": inside,
        "fetch_traces_ok_outside_the_proved_class": outside,
        "fetch_proved_class": "runs in which the durability short-cut never fires (runs of the model with sc = false)",
        "fetch_cases": len(cases), "fetch_iterations_per_case_and_scheduler": iters,
        "fetch_schedulers": list(res),
        "fetch_traces_replayed": files, "fetch_traces_ok": okn, "fetch_trace_mismatches": mism,
        "fetch_model_steps_replayed": steps,
        "fetch_schedules_with_a_real_wait": sum(v["with_wait"] for v in st.values()),
        "fetch_step_coverage": dict(re.findall(r"COVERAGE (\S.*?) (\d+)$", lg, re.M)),
    }
    return cov, fnd, [l for l in lg.split("\n") if l.startswith("MISMATCH")], cases, spec


def keep_trace_group(mismatch_line, name):
    """copy all segments of the mismatching iteration next to the replays"""
    m = re.match(r"MISMATCH (\S+) ", mismatch_line)
    if not m:
        return None
    base = m.group(1)
    d = os.path.join(common.ROOT, "replays", name)
    os.makedirs(d, exist_ok=True)
    kept = []
    for f in sorted(os.listdir(os.path.dirname(base))):
        if f.startswith(os.path.basename(base) + "-") and f.endswith(".trace"):
            shutil.copy(os.path.join(os.path.dirname(base), f), os.path.join(d, f))
            kept.append(os.path.join(d, f))
    return kept


def keep_file(src, name):
    if not src or src == "-":
        return None
    src = sorted(src.split(","))[0]
    if not os.path.exists(src):
        return None
    d = os.path.join(common.ROOT, "replays")
    os.makedirs(d, exist_ok=True)
    dst = os.path.join(d, name)
    shutil.copy(src, dst)
    return dst


def explore(ctx, cases, harness, scheds, iters, out_root, trace_cap, std=False):
    """-> {sched: (parsed output, hung)}, trace dirs"""
    res, tdirs = {}, []
    for sched in scheds:
        td = os.path.join(out_root, "tr-" + sched)
        os.makedirs(td, exist_ok=True)
        out, hung = pe.run_harness(cases, harness, iters, sched, ctx.seed, trace_dir=td, trace_cap=trace_cap)
        res[sched] = (out, hung)
        tdirs.append(td)
    return res, tdirs


def findings_for(cases, spec, res, mode, kinds):
    """-> list of (case text, sched, finding) restricted to `kinds`"""
    out = []
    for sched, (o, _hung) in res.items():
        for c in cases:
            cid = c.split()[1]
            for f in pe.check_case(cid, spec, o, mode):
                if f["kind"] in kinds:
                    out.append((c, sched, f))
    return out


def same_finding(f, g):
    """g is a finding of the same sort as f (same kind; for shuttle failures the same failure)"""
    if g["kind"] != f["kind"]:
        return False
    if f["kind"] == "failure":
        return g["detail"].get("kind") == f["detail"].get("kind")
    return True


def reproduce(case_text, harness, driver, sched, seed, iters, mode, like):
    """Does a (possibly shrunk) case still show a finding of the same sort as `like`?"""
    cid = case_text.split()[1]
    try:
        spec = pe.specification([case_text], driver)
    except common.CheckError:
        return None
    out, _ = pe.run_harness([case_text], harness, iters, sched, seed, shards=1, trace_cap=0)
    for f in pe.check_case(cid, spec, out, mode):
        if same_finding(like, f):
            return f
    return None


def report(ctx, case, sched, f, harness, driver, iters, mode, kinds, what):
    """shrink-lite, then write the replay: names case + scheduler + seed + iteration (+ the
    encoded shuttle schedule if shuttle reported one)."""
    shrunk = case
    try:
        shrunk = pe.shrink(case, lambda t: reproduce(t, harness, driver, sched, ctx.seed, iters, mode, f) is not None,
                           budget=25)
    except Exception:
        shrunk = case
    f2 = reproduce(shrunk, harness, driver, sched, ctx.seed, iters, mode, f) if shrunk != case else None
    sched_file = None
    if f["kind"] == "failure":
        sched_file = keep_file(f["detail"].get("sched"), f"{ctx.prop}-schedule-{ctx.seed}-{ctx.replay_n + 1}.txt")
    ctx.violation(dict(kind=what, case=case, scheduler=sched, harness_seed=ctx.seed, iteration=f["iter"],
                       iters_to_run=max(iters, f["iter"] + 1), finding=f,
                       shrunk_case=shrunk if f2 is not None else None, shrunk_finding=f2,
                       shuttle_schedule_file=sched_file, mode=mode,
                       how_to_replay="./vp replay <this file>  (re-runs the same case with the same scheduler and seed up to "
                                     "the failing iteration; with a persisted shuttle schedule that schedule is replayed too)"))


def replay_generic(ctx, rp, std=False):
    harness = build_harness(std=std)
    okm, _ = common.coq_make(["Core/Model.vo", "Core/Spec.vo", "Core/Dsl.vo"])
    driver = common.build_ocaml_core()
    case = rp.get("case")
    if not case and rp.get("trace_files") and rp.get("trace_case"):
        # a recorded trace (H2 + H10) the CFetch2 model cannot follow: replay the kept segments again
        common.coq_make([("CFetchD" if has_cfetchd() else "CFetch2") + "/Model.vo"])
        exe = build_replay2()
        cf = os.path.join(common.BUILD, "cases", f"replay-fetch-{ctx.prop}.txt")
        os.makedirs(os.path.dirname(cf), exist_ok=True)
        open(cf, "w").write(rp["trace_case"] + "\n")
        rc, lg = common.sh([exe, cf, os.path.dirname(rp["trace_files"][0])])
        print("\n".join(l for l in lg.split("\n") if l.startswith(("MISMATCH", "OK", "TOTAL2", "SKIPPED")))[:3000])
        return 1 if rc != 0 else 0
    if not case:
        print("no failing schedule was recorded:", json.dumps(rp.get("broken") or rp.get("first_mismatch"))[:2000])
        return 1
    kinds = ("values", "reference", "failure", "exec", "harness")
    spec = pe.specification([case], driver)
    out, hung = pe.run_harness([case], harness, rp.get("iters_to_run", 100), rp.get("scheduler", "pct"),
                               rp.get("harness_seed", rp.get("seed", 1)), shards=1, trace_cap=0)
    cid = case.split()[1]
    fs = [f for f in pe.check_case(cid, spec, out, rp.get("mode", "readers")) if f["kind"] in kinds]
    print(f"case {cid}: {len(out.get(cid, {}).get('iters', []))} schedules re-run, findings: {len(fs)}")
    for f in fs[:5]:
        print("  ", json.dumps(f)[:600])
    sf = rp.get("shuttle_schedule_file")
    if sf and os.path.exists(sf) and not std:
        p = os.path.join(common.BUILD, "cases", f"replay-{cid}.txt")
        os.makedirs(os.path.dirname(p), exist_ok=True)
        open(p, "w").write(case + "\n")
        rc, lg = common.sh([harness, p, "--replay-schedule", sf])
        print(lg[-1500:])
    return 1 if fs else 0


# ------------------------------------------------------------------ C16 / C17

def run_readers(ctx, own_kinds, what, note, nontrivial_desc):
    """own_kinds: the finding kinds that violate THIS property."""
    t0 = time.time()
    proof_broken, rep, driver = build_common(ctx)
    harness = build_harness()
    quick = ctx.tier == "quick"
    ncases = 40 if quick else 300
    iters = 150 if quick else 800
    scheds = ["pct", "random"]
    size = "quick" if quick else "thorough"
    cases = list(pe.corpus(ctx.prop)) + pe.generate(ctx.seed, "acyclic", ncases, size, prefix="r")
    spec = pe.specification(cases, driver)
    out_root = os.path.join(common.BUILD, "par-traces", f"{ctx.prop}-{ctx.seed}-{os.getpid()}")
    shutil.rmtree(out_root, ignore_errors=True)
    os.makedirs(out_root)
    res, tdirs = explore(ctx, cases, harness, scheds, iters, out_root, trace_cap=4 if quick else 6)
    allkinds = ("values", "reference", "failure", "exec", "harness")
    fnd = findings_for(cases, spec, res, "readers", allkinds)
    harness_err = [x for x in fnd if x[2]["kind"] == "harness"]
    if harness_err:
        raise common.CheckError(f"par_harness produced no usable output: {harness_err[0][2]}")
    # CFetch-level trace replay (hook H10) on the programs of the fragment CFetch2 models exactly
    fcov, ffnd, fmis, fcases, fspec = fetch_stage(ctx, harness, driver, out_root, own_kinds)
    fnd = fnd + ffnd
    own = [x for x in fnd if x[2]["kind"] in own_kinds]
    other = [x for x in fnd if x[2]["kind"] not in own_kinds]
    rp = replay_traces(tdirs)
    # (a) the specification is violated on some explored schedule: a concrete failing input
    seen = set()
    for c, sched, f in own:
        cid = c.split()[1]
        if cid in seen or len(seen) >= 3:
            continue
        seen.add(cid)
        report(ctx, c, sched, f, harness, driver, iters, "readers", own_kinds, what)
    # (b) no failing schedule, but the property is no longer shown: proof broken, or the recorded
    #     protocol steps are no longer the model's
    if not own and (proof_broken is not None or rp["mismatch"] or fmis):
        extra = None
        if quick:
            # failing-input search with the thorough budget
            cases2 = pe.generate(ctx.seed + 7919, "acyclic", 200, "thorough", prefix="s")
            spec2 = pe.specification(cases2, driver)
            res2, _ = explore(ctx, cases2, harness, scheds, 400, os.path.join(out_root, "search"), trace_cap=0)
            own2 = [x for x in findings_for(cases2, spec2, res2, "readers", allkinds) if x[2]["kind"] in own_kinds]
            if own2:
                c, sched, f = own2[0]
                report(ctx, c, sched, f, harness, driver, 400, "readers", own_kinds, what)
                extra = "found by the failing-input search"
            else:
                extra = sum(pe.stats(o)["schedules"] for o, _ in res2.values())
        if not ctx.violations and fmis and proof_broken is None and not rp["mismatch"]:
            case_id = os.path.basename(fmis[0].split()[1]).rsplit("-", 2)[0]
            ctx.violation(dict(kind="correspondence model/implementation no longer holds",
                               relation="CFetch2 model vs recorded memo-table + protocol steps (hooks H10 + H2): every recorded "
                                        "step must be an enabled step of the named handle with the recorded outcome",
                               first_mismatch=fmis[0][:600], mismatching_traces=len(fmis),
                               trace_files=keep_trace_group(fmis[0], f"{ctx.prop}-fetchtrace-{ctx.seed}"),
                               trace_case=next((c for c in fcases if c.split()[1] == case_id), None),
                               how_to_replay=".build/ocaml-cfetch/replay3 (replay2 before CFetchD) --verbose <file with trace_case> <directory of trace_files>",
                               search=f"no explored schedule violates the specification ({extra} more schedules searched)"),
                          no_input=True)
        if not ctx.violations:
            keep = None
            if rp["mismatch"]:
                m = re.search(r"MISMATCH line \d+ (\S+)", rp["mismatches"][0])
                if m:
                    keep = keep_file(m.group(1).rstrip(":"), f"{ctx.prop}-trace-{ctx.seed}.txt")
            ctx.violation(dict(kind="proof obligation no longer checks" if proof_broken is not None else
                               "correspondence model/implementation no longer holds",
                               broken=proof_broken, theorem_file=f"coq/Props/{ctx.prop}.v",
                               relation="CFetch/Proto model vs recorded protocol traces (each logged step enabled, preconditions, outcome)",
                               first_mismatch=rp["mismatches"][0] if rp["mismatches"] else None, trace_file=keep,
                               search=f"no explored schedule violates the specification ({extra} more schedules searched)"),
                          no_input=True)
    st = {s: pe.stats(o) for s, (o, _) in res.items()}
    tot = {k: sum(v[k] for v in st.values()) for k in next(iter(st.values()))}
    sample = None
    for s, (o, _) in res.items():
        for cid, oo in o.items():
            if oo["iters"]:
                sample = dict(case=cid, scheduler=s, reference=oo["ref"], schedule=oo["iters"][0])
                break
        if sample:
            break
    ctx.coverage.update({
        "obligations": rep["obligations"] if rep else 0,
        "discharged": rep["discharged"] if rep else 0,
        "checker_cmd": f"make -C coq Props/{ctx.prop}.vo  (coqc 8.16.1, Print Assumptions captured)",
        "trusted_base": common.TRUSTED_BASE_COMMON + [
            "shuttle 0.9.3 (PCT depth 3 and random schedulers, deadlock detection, step bound 200000) as the schedule controller of salsa's `shuttle` build",
            "hook H2 appends each protocol record while the critical section's locks are held; the harness' event callback counts WillExecute/WillBlockOn truthfully",
            "the CFetch guards (publish/mark_verified store the from-scratch value, verified at the current revision): discharged over CFetch2 for static call lists and LOW durabilities (C16_memo_writes_sound) and over CFetchD for dynamic call lists without the durability short-cut (C16_values_computed_dyn); with the short-cut proved for one thread only (C01)",
            "hook H10 (when present): each memo-table record is appended immediately after ONE atomic operation (memo pointer load, verified_at load, verified_at store, memo swap); under shuttle no scheduling point lies between the operation and the append (shuttle switches before an atomic access, the log's own mutex is a std mutex), with OS threads a process-wide std mutex is held across operation + append while the records are switched on; the value digest is FNV-1a over the value's bytes",
            "each shared access of fetch_cold / maybe_changed_after_cold is one atomic step; atomics are sequentially consistent; condvar semantics outside the model"],
        "theorems": rep["statements"] if rep else [],
        "axioms_reported": rep["axioms"] if rep else [],
        "closed_under_global_context": rep["closed_count"] if rep else 0,
        "theorem_note": note,
        "evaluations": tot["schedules"],
        "distinct_nontrivial": tot["distinct_with_wait"],
        "rule": "one evaluation = one explored schedule (shuttle iteration) of one generated case; distinct_nontrivial = " + nontrivial_desc,
        "cases": len(cases),
        "schedulers": scheds,
        "iterations_per_case_and_scheduler": iters,
        "schedules_with_a_real_wait": tot["with_wait"],
        "schedules_with_a_key_claimed_by_two_threads": tot["with_contended_key"],
        "distinct_protocol_traces": tot["distinct_protocol_traces"],
        "per_scheduler": st,
        "own_findings": len(own),
        "findings_of_the_sibling_property": len(other),
        "proto_traces_replayed": rp["files"], "proto_traces_ok": rp["ok"], "proto_trace_mismatches": rp["mismatch"],
        "proto_steps_replayed": rp["steps"], "proto_step_coverage": rp["cov"],
        "samples": [sample],
        "wall_s": round(time.time() - t0, 1),
    })
    ctx.coverage.update(fcov)
    ctx.assumptions = ["critical sections are atomic",
                       "the memo writes are sound under interference also when the durability short-cut fires (proved without it: CFetch2 static, CFetchD dynamic call lists)",
                       "shuttle explores real interleavings of salsa's shuttle build"]
    ctx.write_evidence("proof")
    shutil.rmtree(out_root, ignore_errors=True)


# ====================================================================== cyclic programs (C18, C20 stage 2)
CYC_BIN = "cyc_par"


def build_cyc_harness(std=False):
    """the cyc_par bin of harness-par: shuttle build (C18) or OS threads (C20 stage 2); build
    paths go through common.crate_dir / common.target_dir (VERIF_REPO runs use a private copy)"""
    if not std:
        rel = common.cargo_build(HARNESS_CRATE, TARGET_SHUTTLE, bins=[CYC_BIN])
        return os.path.join(rel, CYC_BIN)
    cdir = common.crate_dir(HARNESS_CRATE)
    for f in ("Cargo.lock", "rust-toolchain.toml"):
        if not os.path.exists(os.path.join(cdir, f)) and os.path.exists(os.path.join(common.REPO, f)):
            shutil.copy(os.path.join(common.REPO, f), os.path.join(cdir, f))
    tdir = common.target_dir(TARGET_STD)
    rc, lg = common.sh(["cargo", "build", "--offline", "--release", "--no-default-features", "--bin", CYC_BIN], cwd=cdir,
                       timeout=2400, env={"CARGO_TARGET_DIR": tdir, "RUSTFLAGS": f"--cfg {common.GUARD}"})
    if rc != 0:
        raise common.CheckError("cargo build harness-par/cyc_par (OS threads) failed:\n" + lg[-3000:])
    return os.path.join(tdir, "release", CYC_BIN)


def build_cycle_driver():
    """ocaml/cycle_driver.ml (specification columns kleene / spec_fallback of the cycle engine)"""
    from checks import cyclecheck
    okm, logm = common.coq_make(cyclecheck.COQ_TARGETS + ["Core/Spec.vo", "Core/Dsl.vo"])
    if not okm:
        raise common.CheckError("Cycle model files do not compile:\n" + logm[-2000:])
    return cyclecheck.build_ocaml_cycle()


def build_cert_driver():
    """ocaml/ccycle_driver.ml (extracted mh_cert_fix / mh_cert_fb / mh_below of coq/CCycle/Model.v)"""
    okm, logm = common.coq_make(["CCycle/Model.vo", "Cycle/DslSpec.vo", "Core/Dsl.vo"])
    if not okm:
        raise common.CheckError("CCycle model does not compile:\n" + logm[-2000:])
    out = os.path.join(common.BUILD, "ocaml-ccycle")
    drv = os.path.join(out, "ccycle_driver")
    deps = [os.path.join(common.COQ, p) for p in ("CCycle/Model.vo", "CCycle/Extract.v", "Cycle/Spec.vo", "Cycle/DslSpec.vo", "Core/Dsl.vo")]
    deps.append(os.path.join(common.ROOT, "ocaml", "ccycle_driver.ml"))
    if os.path.exists(drv) and all(os.path.exists(d) and os.path.getmtime(d) <= os.path.getmtime(drv) for d in deps):
        return drv
    common.sh([os.path.join(common.ROOT, "ocaml", "build_ccycle.sh")], timeout=900, check=True,
              env={"COQROOT": common.COQ, "OUT": out})
    return drv


def explore18(ctx, cases, harness, scheds, iters, out_root, trace_cap, **kw):
    """scheds: scheduler names ("pct" = PCT depth 3, "pctN" = PCT depth N, "random"); `cases` and
    `iters` may be dicts keyed by scheduler name"""
    res, tdirs = {}, []
    for sched in scheds:
        td = os.path.join(out_root, "tr-" + sched)
        os.makedirs(td, exist_ok=True)
        cs = cases[sched] if isinstance(cases, dict) else cases
        it = iters[sched] if isinstance(iters, dict) else iters
        out, hung = pe.run_harness18(cs, harness, it, sched, ctx.seed, trace_dir=td, trace_cap=trace_cap, **kw)
        res[sched] = (out, hung)
        tdirs.append(td)
    return res, tdirs


def linearisation_results(case, harness, seed, n=200):
    """the results of n single-threaded runs of the case, each with the requests of every par
    group in another pseudo-random order (each handle's own order kept)"""
    cid = case.split()[1]
    out, _ = pe.run_harness18([case], harness, 0, "pct", seed, shards=1, trace_cap=0, ref_orders=n)
    return [pe.parse_results(r) for r in out.get(cid, {}).get("refo", [])]


def linearisation_known(case, harness, finding, seed, n=200):
    """Is the differing value of `finding` (a later-revision request) also returned by a
    SINGLE-THREADED run of the same history in which the requests of the par groups are made in
    another order?  (The cycle engine's known findings depend on the entry order.)"""
    cid = case.split()[1]
    out, _ = pe.run_harness18([case], harness, 0, "pct", seed, shards=1, trace_cap=0, ref_orders=n)
    key = tuple(finding["detail"]["request"])
    for r in out.get(cid, {}).get("refo", []):
        if pe.parse_results(r).get(key) == finding["detail"]["got"]:
            return True
    return False


def replay18(ctx, rp, std=False):
    """Re-run exactly the recorded case with the recorded scheduler and seed."""
    harness = build_cyc_harness(std=std)
    driver = build_cycle_driver()
    case = rp.get("case")
    if not case:
        print("no failing schedule was recorded:", json.dumps(rp.get("broken") or rp.get("first_mismatch"))[:2000])
        return 1
    spec = pe.specification18([case], driver)
    cid = case.split()[1]
    out, hung = pe.run_harness18([case], harness, rp.get("iters_to_run", 100), rp.get("scheduler", "pct"),
                                 rp.get("harness_seed", rp.get("seed", 1)), shards=1, trace_cap=0)
    if std and not rp.get("accept"):
        # C18: a case in which something unwound under shuttle, re-examined on OS threads
        lin = linearisation_results(case, harness, rp.get("harness_seed", 1), n=300)
        fs, nk = pe.check_case18_os(cid, spec[cid], out, lambda key, g: any(r.get(tuple(key)) == g for r in lin))
        known = [None] * nk
    else:
        fs, known = pe.check_case18(cid, spec[cid], out, accept=tuple(rp.get("accept", ("p8",))), shuttle=not std)
        fs = [f for f in fs if f["kind"] != "unwound"]
        fs = [f for f in fs if f["kind"] != "values" or f["detail"]["revision"] == 0
              or not linearisation_known(case, harness, f, rp.get("harness_seed", 1))]
    print(f"case {cid}: {len(out.get(cid, {}).get('iters', []))} schedules re-run, findings: {len(fs)}, "
          f"differences of the known single-threaded classes: {len(known)}")
    for f in fs[:5]:
        print("  ", json.dumps(f)[:700])
    sf = rp.get("shuttle_schedule_file")
    if sf and os.path.exists(sf) and not std:
        p = os.path.join(common.BUILD, "cases", f"replay-{cid}.txt")
        os.makedirs(os.path.dirname(p), exist_ok=True)
        open(p, "w").write(case + "\n")
        rc, lg = common.sh([harness, p, "--replay-schedule", sf])
        print(lg[-1500:])
    return 1 if fs else 0

"""C05 — LRU eviction is transparent and bounded."""
import re
from checks import seqcheck
from vplib import seqengine as se


def parse_state(st):
    memo = {}
    m = re.search(r"memo=(\S*)", st)
    if m:
        for ent in m.group(1).split(";"):
            if ent:
                k, hv, ver, ch, du, un, edges = ent.split(":", 6)
                memo[k] = dict(hv=hv, ver=int(ver), ch=int(ch), dur=int(du), untr=un, edges=edges)
    lru = {}
    m = re.search(r"lru=(\S*)", st)
    if m:
        for ent in m.group(1).split(";"):
            if ent:
                fam, cap, order = ent.split(":", 2)
                lru[fam] = (int(cap), [x for x in order.strip("[]").split(",") if x])
    return memo, lru


def oracle(case, impl_lines, model_lines):
    """On the implementation's own hook-reported state: after every operation that starts a
    revision or triggers eviction, the recency list is a suffix of the previous one, holds at
    most `capacity` keys, every key dropped from it has lost its value iff its memo is fully
    tracked, every kept key keeps its value; with capacity 0 nothing is recorded or evicted."""
    a = se.split_lines(impl_lines)
    ops = se.parse_sx(case)
    hist = next(x for x in ops[2:] if isinstance(x, list) and x and x[0] == "hist")[1:]
    prev = None
    for i, op in enumerate(hist):
        st = a["S"].get(i)
        if st is None:
            return None
        memo, lru = parse_state(st)
        if prev is not None and op[0] in ("set", "synth", "evict"):
            pm, pl = prev
            for fam, (cap, order) in lru.items():
                pcap, porder = pl.get(fam, (0, []))
                if cap != pcap:
                    return dict(level="oracle", step=i, why="capacity changed by a non-capacity op")
                if cap == 0:
                    if order:
                        return dict(level="oracle", step=i, why="keys recorded while capacity is 0")
                    continue
                if len(order) > cap:
                    return dict(level="oracle", step=i, why=f"{len(order)} keys kept > capacity {cap}")
                if order != porder[len(porder) - len(order):]:
                    return dict(level="oracle", step=i, why="kept keys are not the most recently used suffix",
                                before=porder, after=order)
                for k in porder[:len(porder) - len(order)]:
                    key = f"{fam}.{k}"
                    if key in pm and key in memo:
                        if pm[key]["untr"] == "0" and memo[key]["hv"] != "0":
                            return dict(level="oracle", step=i, why=f"evicted key {key} still holds a value")
                        if pm[key]["untr"] == "1" and memo[key]["hv"] != pm[key]["hv"]:
                            return dict(level="oracle", step=i, why=f"untracked memo {key} lost its value")
                        if memo[key]["edges"] != pm[key]["edges"] or memo[key]["ver"] != pm[key]["ver"]:
                            return dict(level="oracle", step=i, why=f"eviction changed dependency info of {key}")
                for k in order:
                    key = f"{fam}.{k}"
                    if key in pm and key in memo and pm[key]["hv"] == "1" and memo[key]["hv"] != "1":
                        return dict(level="oracle", step=i, why=f"kept key {key} lost its value")
        prev = (memo, lru)
    return None


def lru_aspect(diff):
    """The recency order, the capacity and which memos hold a value are specified by the
    proved LRU model (C05_recency, C05_bound, C05_evicts_exactly): a state difference there
    is a violation of C05 with the case as failing input."""
    if diff.get("level") != "state" or not diff.get("impl") or not diff.get("model"):
        return False
    mi, li = parse_state(diff["impl"])
    mm, lm = parse_state(diff["model"])
    if li != lm:
        return True
    keys = set(mi) | set(mm)
    return any(mi.get(k, {}).get("hv") != mm.get(k, {}).get("hv") for k in keys)


def run(ctx):
    seqcheck.run_seq(ctx, ["lru", "general"], n_quick=400, n_thorough=6000, oracle=oracle,
                     corr_is_violation=lru_aspect,
                     nontrivial_rule=lambda f: "evicted" in f and "exec_after_evict" in f,
                     thm_note=open(__file__.replace("C05.py", "notes/C05.txt")).read())


def replay(ctx, rp):
    return seqcheck.replay(ctx, rp)

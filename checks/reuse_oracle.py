"""Implementation-side oracles for C03 (re-execution must be justified) and C04 (untracked
queries re-execute in every later revision).  They look only at the IMPLEMENTATION's own
records (events, hook-dumped memo edges/stamps) plus the from-scratch values of every node
at every step (the `W` lines, computed by the extracted specification `evalo`)."""
import re

from vplib import seqengine as se


def parse_state(st):
    memo, ins, cur = {}, {}, None
    m = re.search(r"revs=(\d+),", st)
    if m:
        cur = int(m.group(1))
    m = re.search(r"in=(\S*)", st)
    if m:
        for ent in m.group(1).split(";"):
            if ent:
                k, v, ch, du = ent.split(":")
                ins[k] = dict(val=int(v), ch=int(ch), dur=int(du))
    m = re.search(r"memo=(\S*)", st)
    if m:
        for ent in m.group(1).split(";"):
            if ent:
                k, hv, ver, ch, du, un, edges = ent.split(":", 6)
                es = [e for e in edges.strip("[]").split(",") if e]
                memo[k] = dict(hv=hv, ver=int(ver), ch=int(ch), dur=int(du), untr=un, edges=es)
    return cur, ins, memo


def parse_w(w):
    return dict(ent.split("=") for ent in w.split(";") if ent) if w else {}


def steps(case, impl_lines, model_lines):
    a = se.split_lines(impl_lines)
    b = se.split_lines(model_lines)
    tree = se.parse_sx(case)
    hist = next(x for x in tree[2:] if isinstance(x, list) and x and x[0] == "hist")[1:]
    out = []
    for i, op in enumerate(hist):
        if i not in a["S"] or i not in b["W"]:
            break
        cur, ins, memo = parse_state(a["S"][i])
        out.append(dict(op=op, ev=a["E"].get(i, "").split(), R=a["R"].get(i), cur=cur, ins=ins, memo=memo,
                        W=parse_w(b["W"][i])))
    return out


def oracle_c03(case, impl_lines, model_lines):
    """Every WillExecute must be justified by: no memo / no value / previous run untracked /
    a recorded input edge written since the memo was verified / a recorded callee whose
    from-scratch value differs from the one at that time, or that is no_eq, or less durable."""
    st = steps(case, impl_lines, model_lines)
    w_at_rev = {}
    exec_revs = {}                                 # query -> revisions in which it executed
    exec_hist = {}                                 # query -> [(revision, from-scratch value then)]
    evicted_at = {}                                # query -> revisions at which it was seen without a value
    dur_at_rev = {}                                # revision -> {query: memo durability at the end of that revision}
    dur_hist = {}                                  # query -> [(revision, memo durability)] after every step
    for i, s in enumerate(st):
        w_at_rev.setdefault(s["cur"], s["W"])     # first snapshot seen in that revision
        for e in s["ev"]:
            if e.startswith("x:"):
                exec_revs.setdefault(e[2:], set()).add(s["cur"])
                exec_hist.setdefault(e[2:], []).append((s["cur"], s["W"].get(e[2:])))
        if i == 0:
            prev_memo = {}
        else:
            prev_memo = st[i - 1]["memo"]
            for k, mm in prev_memo.items():
                if mm["hv"] == "0":
                    evicted_at.setdefault(k, set()).add(st[i - 1]["cur"])
                dur_at_rev.setdefault(st[i - 1]["cur"], {})[k] = mm["dur"]
                dur_hist.setdefault(k, []).append((st[i - 1]["cur"], mm["dur"]))
        if s["R"] is not None and s["R"].startswith("panic"):
            continue                                 # C03 quantifies over histories without panics
        for e in s["ev"]:
            t, q = e.split(":")
            if t != "x":
                continue
            pm = prev_memo.get(q)
            if pm is None or pm["hv"] == "0" or pm["untr"] == "1":
                continue
            r = pm["ver"]
            w_then = w_at_rev.get(r)
            why = None
            evicted_callee = False
            for ed in pm["edges"]:
                kind, a1, a2 = ed.split(".")
                if kind == "i":
                    if s["ins"].get(f"{a1}.{a2}", {}).get("ch", 0) > r:
                        why = "input written"
                        break
                else:
                    d = f"{a1}.{a2}"
                    if a1 == "2":
                        # a no_eq callee justifies if it re-executed in a revision after q's validation
                        if any(rv > r for rv in exec_revs.get(d, ())):
                            why = "no_eq callee re-executed"
                            break
                    if w_then is not None and w_then.get(d) != s["W"].get(d):
                        why = "callee value differs"
                        break
                    eh = exec_hist.get(d, [])
                    if any(eh[j][0] > r and eh[j][1] != eh[j - 1][1] for j in range(1, len(eh))):
                        why = "callee produced a value differing from its previous one since then"
                        break
                    md, pmd = s["memo"].get(d), prev_memo.get(d)
                    d_then = dur_at_rev.get(r, {}).get(d)
                    if md and ((pmd and md["dur"] < pmd["dur"]) or (d_then is not None and md["dur"] < d_then)):
                        why = "callee less durable"
                        break
                    # "became less durable" at ANY time since the validation (a durability drop blocks
                    # backdating, so the callee's changed_at moved although its value is equal; the
                    # durability may have risen again since)
                    dh = [x for x in dur_hist.get(d, []) if x[0] >= r]
                    if any(dh[j][1] < dh[j - 1][1] for j in range(1, len(dh))) or \
                            (d_then is not None and any(x[1] < d_then for x in dh)):
                        why = "callee became less durable at some point since the validation"
                        break
                    if (pmd and pmd["hv"] == "0") or any(rv >= r for rv in evicted_at.get(d, ())):
                        evicted_callee = True
            if why is None:
                if w_then is None:
                    continue        # the revision of the last validation was not observed
                return dict(level="oracle", step=i, query=q,
                            why="re-executed although nothing it read changed since revision %d" % r,
                            edges=pm["edges"], known_class="evicted-callee" if evicted_callee else None)
    return None


def known_c03(case, o):
    return o.get("known_class") == "evicted-callee"


def oracle_c04(case, impl_lines, model_lines):
    """A Get of a query whose memo is DerivedUntracked, in a later revision than its
    verified_at, must re-execute it (WillExecute) — directly, and through a dependent all of
    whose earlier recorded edges are unchanged."""
    st = steps(case, impl_lines, model_lines)
    w_at_rev = {}
    for i, s in enumerate(st):
        w_at_rev.setdefault(s["cur"], s["W"])
        if i == 0 or s["op"][0] != "get":
            continue
        if s["R"] is not None and s["R"].startswith("panic"):
            continue
        prev = st[i - 1]["memo"]
        cur = s["cur"]
        target = f"{s['op'][1]}.{s['op'][2]}"
        execs = set(e.split(":")[1] for e in s["ev"] if e.startswith("x:"))

        def must_exec(q, fuel=12):
            """queries that must execute when q is requested now (semantic walk of the old edges)"""
            pm = prev.get(q)
            if pm is None or fuel == 0:
                return set(), True       # unknown: executes (first time), stop reasoning
            if pm["ver"] == cur and pm["hv"] == "1":
                return set(), False
            if pm["untr"] == "1":
                return {q}, True
            if pm["hv"] == "0":
                return set(), True
            need = set()
            w_then = w_at_rev.get(pm["ver"])
            if pm["dur"] >= 1:
                return set(), None        # durability short-cut may validate it without a walk
            for ed in pm["edges"]:
                kind, a1, a2 = ed.split(".")
                if kind == "i":
                    if s["ins"].get(f"{a1}.{a2}", {}).get("ch", 0) > pm["ver"]:
                        return need, True
                else:
                    d = f"{a1}.{a2}"
                    n2, changed = must_exec(d, fuel - 1)
                    need |= n2
                    if changed is None:
                        return need, None
                    if a1 == "2" and d in execs:
                        return need, True
                    if w_then is None or w_then.get(d) != s["W"].get(d):
                        return need, True if w_then is not None else None
            return need, False

        need, _ = must_exec(target)
        missing = [q for q in need if q not in execs]
        if missing:
            return dict(level="oracle", step=i, why="untracked query %s was not re-executed in revision %d although it (or a dependent reaching it) was requested" % (missing, cur),
                        events=s["ev"])
    return None

"""Generic cycle check (DESIGN §6) for C12–C15: audit, translator, proofs, builds, correspondence
implementation / Cycle model / specification, decision, evidence.  Property modules call
run_cycle with their profiles, oracle and notes.  Same structure as checks/seqcheck.py."""
import os
import time

from vplib import common
from vplib import cycleengine as ce

HARNESS_BIN = "cycle_harness"
COQ_TARGETS = ["Cycle/StampK.vo", "Cycle/Model.vo", "Cycle/Spec.vo", "Cycle/Cert.vo", "Cycle/DslSpec.vo"]

# what the known classes are (the authoritative list is /verif/known-findings.txt)
KNOWN_TEXT = {
    "forced_cycle_value_change_not_propagated":
        "non-monotone bodies only: the final value of a fixpoint member was forced by the joining cycle_fn (it is not "
        "what its body returns for its dependencies' final values); when a write removes the cycle the member "
        "re-executes with a different value but its changed_at (maximum over its unchanged dependencies) does not "
        "advance, so dependents are validated with the stale value",
    "fallback_participant_reexecuted_after_revision":
        "a cycle_result participant whose memo stayed provisional (never read again before the next revision or "
        "cancellation epoch) is re-executed while the former head validates, sees no cycle and stores its body's "
        "value instead of the fallback",
    "fallback_cycle_not_redetected_member_validated":
        "a cycle_result node on a cycle of the current call graph is re-executed and completes without cycle heads "
        "because another member's memo was validated instead of re-executed; it stores its body's value",
    "fallback_membership_change_not_propagated":
        "a cycle_result node that leaves its cycle gets a different value (body instead of fallback) but its "
        "changed_at does not advance (its dependencies' stamps are unchanged), so dependents are validated with "
        "stale values",
    "cycle_participant_validated_on_incomplete_edges":
        "a cycle participant's flattened dependency list misses inputs that its head only reached later in the "
        "last iteration; after such an input changes, a direct read validates the participant's memo and returns a "
        "stale value (fixpoint and fallback cycles)",
    "backdate_violation_participant_after_head_backdated":
        "debug builds: salsa's own backdate-violation panic without untracked reads: participants keep the "
        "changed_at of the head's provisional memo, the head's final memo is backdated, a later re-execution of "
        "the participant computes an older changed_at with an equal value",
}


def cargo_target():
    return os.environ.get("VERIF_CARGO_TARGET", "default")


def build_ocaml_cycle():
    drv = os.path.join(common.BUILD, "ocaml-cycle", "cycle_driver")
    deps = [os.path.join(common.COQ, p) for p in COQ_TARGETS + ["Core/Spec.vo", "Core/Dsl.vo"]]
    deps += [os.path.join(common.ROOT, "ocaml", "cycle_driver.ml"), os.path.join(common.COQ, "ExtractCycle.v")]
    if os.path.exists(drv) and all(os.path.exists(d) and os.path.getmtime(d) <= os.path.getmtime(drv) for d in deps):
        return drv
    common.sh([os.path.join(common.ROOT, "ocaml", "build_cycle.sh")], timeout=900, check=True,
              env={"COQROOT": common.COQ})
    return drv


def build_all(ctx):
    probs = common.audit()
    if probs:
        raise common.CheckError("audit failed: " + "; ".join(probs[:5]))
    proof_broken = None
    digest = {}
    if os.path.exists(os.path.join(common.ROOT, "translator", "rust2gallina.py")):
        ok, log, digest = common.run_translator()
        if not ok:
            proof_broken = dict(kind="translation", detail=log[-3000:])
    rep = None
    if proof_broken is None:
        rep = common.props_report(ctx.prop)
        if not rep["ok"]:
            proof_broken = dict(kind="proof", detail=rep["log"][-3000:], theorems=rep["theorems"],
                                bad_axioms=rep["bad_axioms"])
    driver = None
    try:
        ok, log = common.coq_make(COQ_TARGETS + ["Core/Spec.vo", "Core/Dsl.vo"])
        if ok:
            driver = build_ocaml_cycle()
        elif proof_broken is None:
            raise common.CheckError("Cycle model does not compile:\n" + log[-3000:])
    except common.CheckError:
        if proof_broken is None:
            raise
        driver = None
    rel = common.cargo_build("harness", cargo_target(), bins=[HARNESS_BIN])
    return proof_broken, rep, digest, driver, os.path.join(rel, HARNESS_BIN)


def run_cycle(ctx, profiles, n_quick, n_thorough, oracle=None, nontrivial_rule=None,
              extra_assumptions=None, thm_note="", stress_share=0.25):
    """profiles: the property's own profiles (with a specification column); a share of `stress`
    cases (no specification: implementation vs model only) is always added."""
    t0 = time.time()
    proof_broken, rep, digest, driver, harness = build_all(ctx)
    if driver is None:
        raise common.CheckError("model driver could not be built")
    n = n_quick if ctx.tier == "quick" else n_thorough
    size = "quick" if ctx.tier == "quick" else "thorough"
    cases = list(ce.corpus(ctx.prop))
    ncorpus = len(cases)
    per = max(1, int(n * (1 - stress_share)) // len(profiles))
    for p in profiles:
        cases += ce.generate(ctx.seed, p, per, size, prefix=f"{p}-")
    cases += ce.generate(ctx.seed, "stress", max(1, int(n * stress_share)), size, prefix="stress-")
    impl, model = ce.run_both(cases, harness, driver, shards=6)

    feats_count, distinct = {}, set()
    nontrivial = 0
    corr_diffs, spec_diffs, oracle_diffs, known = [], [], [], {}
    cert = dict(true=0, false=0)
    hclass = {"in": 0, "out": 0}
    spec_compared = 0
    opcount = {}
    for c in cases:
        cid = c.split()[1]
        il, ml = impl.get(cid, ["ERROR missing"]), model.get(cid, ["ERROR missing"])
        r = ce.compare_case(il, ml)
        if r["level"] == "error":
            raise common.CheckError(f"driver error on case {cid}: {r}")
        if r["level"] == "spec":
            k = ce.known_class(c, il, ml, r)
            if k is not None:
                known.setdefault(k, []).append((c, r))
            else:
                spec_diffs.append((c, r))
        elif r["level"] is not None:
            corr_diffs.append((c, r))
        for l in ml:
            if l.startswith("H "):
                hclass["in" if l.strip() == "H 1" else "out"] += 1
                if l.strip() != "H 1":
                    raise common.CheckError(f"case {cid}: generated program is outside the class mono_table for "
                                            "which C12_profile_programs_monotone proves the theorems' hypotheses")
        d = ce.split_lines(ml)
        spec_compared += len(d["V"])
        for v in d["C"].values():
            cert["true" if v == 1 else "false"] += 1
        if oracle is not None:
            o = oracle(c, il, ml)
            if o is not None:
                oracle_diffs.append((c, o))
        f = ce.classify(ml)
        nt = nontrivial_rule(f) if nontrivial_rule is not None else ("iterate" in f and "reexec" in f)
        for x in f:
            feats_count[x] = feats_count.get(x, 0) + 1
        h = common.case_hash(c.split(" ", 2)[2])
        if nt and h not in distinct:
            distinct.add(h)
            nontrivial += 1
        for opk in ("(set ", "(get ", "(synth ", "(setcell ", "(evict)"):
            opcount[opk.strip("( )")] = opcount.get(opk.strip("( )"), 0) + c.count(opk)

    def fails_spec(text):
        i2, m2 = ce.run_both([text], harness, driver, shards=1)
        cid = text.split()[1]
        if cid not in i2 or cid not in m2:
            return False
        r2 = ce.compare_case(i2[cid], m2[cid])
        if r2["level"] == "spec" and cid.startswith(("mixed-panic", "s-mixed-panic")):
            # the evalo column is only meaningful for this directed family while every cycle goes
            # through a function without recovery: a shrunk candidate that merely turned the
            # program into a recovering cycle (too-many-iterations vs "cycle") is not a witness
            if not (str(r2.get("impl", "")).startswith("ret") and str(r2.get("model", "")).startswith("ret")):
                return False
        return r2["level"] == "spec" and ce.known_class(text, i2[cid], m2[cid], r2) is None

    def report_case(c, r, kind, no_input=False):
        ctx.violation(dict(kind=kind, case=c, first_difference=r, engine="cycle",
                           how_to_replay="./vp replay <this file>"), no_input=no_input)

    # known deviation classes of the unchanged crate
    kfs = {kf["class"]: kf["text"] for kf in common.known_findings() if kf["property"] == ctx.prop}
    for k, lst in known.items():
        ctx.known_finding(f"class={k} {kfs.get(k, KNOWN_TEXT.get(k, ''))} (met in {len(lst)} generated cases; "
                          f"implementation == model there, both differ from the specification)")

    # (a) implementation differs from the specification outside the known classes: a failing input
    reported = 0
    for c, r in spec_diffs[:3]:
        small = ce.shrink(c, fails_spec, budget=150)
        i2, m2 = ce.run_both([small], harness, driver, shards=1)
        cid = small.split()[1]
        r2 = ce.compare_case(i2[cid], m2[cid])
        report_case(small, r2 if r2["level"] else r, "implementation differs from the specification")
        reported += 1
    for c, o in oracle_diffs:
        if reported < 3:
            report_case(c, o, "property oracle violated on the implementation")
            reported += 1

    # (b) the property is no longer shown: proof broken or correspondence broken
    searched = 0
    if reported == 0 and (proof_broken is not None or corr_diffs):
        extra = []
        for p in profiles:
            extra += ce.generate(ctx.seed + 7919, p, max(300, n_thorough // len(profiles)), "thorough", prefix=f"s-{p}-")
        i3, m3 = ce.run_both(extra, harness, driver, shards=6)
        searched = len(extra)
        found = None
        for c in extra:
            cid = c.split()[1]
            il3, ml3 = i3.get(cid, []), m3.get(cid, [])
            r3 = ce.spec_only_compare(il3, ml3)
            if r3["level"] == "spec":
                # deviations of the known classes (identified by their mechanism on the implementation's
                # own events/state) are not new failing inputs
                if ce.known_class(c, il3, ml3, r3) is None:
                    found = (c, r3)
                    break
            if oracle is not None:
                o3 = oracle(c, il3, ml3)
                if o3 is not None:
                    found = (c, o3)
                    break
        if found:
            report_case(found[0], found[1], "failing input found after proof/correspondence broke")
        else:
            if proof_broken is not None:
                ctx.violation(dict(kind="proof obligation no longer checks", broken=proof_broken,
                                   theorem_file=f"coq/Props/{ctx.prop}.v",
                                   search=f"{searched} extra cases compared with the specification, none fails"),
                              no_input=True)
            else:
                c, r = corr_diffs[0]

                def fails_corr(text):
                    i2, m2 = ce.run_both([text], harness, driver, shards=1)
                    cid = text.split()[1]
                    return cid in i2 and cid in m2 and ce.compare_case(i2[cid], m2[cid])["level"] not in (None, "error", "spec")
                small = ce.shrink(c, fails_corr, budget=120)
                i2, m2 = ce.run_both([small], harness, driver, shards=1)
                r2 = ce.compare_case(i2[small.split()[1]], m2[small.split()[1]])
                ctx.violation(dict(kind="correspondence model/implementation no longer holds",
                                   relation=f"Cycle model vs implementation at level {r['level']}", engine="cycle",
                                   case=small, first_difference=r2 if r2["level"] else r,
                                   n_cases_differing=len(corr_diffs),
                                   search=f"{searched} extra cases compared with the specification, none fails"),
                              no_input=True)

    sample = cases[ncorpus] if len(cases) > ncorpus else cases[0]
    ctx.coverage.update({
        "obligations": rep["obligations"] if rep else 0,
        "discharged": rep["discharged"] if rep else 0,
        "checker_cmd": f"make -C coq Props/{ctx.prop}.vo  (coqc 8.16.1, Print Assumptions captured and compared with coq/ASSUMPTIONS.allow)",
        "trusted_base": common.TRUSTED_BASE_COMMON + (extra_assumptions or []),
        "theorems": rep["statements"] if rep else [],
        "axioms_reported": rep["axioms"] if rep else [],
        "closed_under_global_context": rep["closed_count"] if rep else 0,
        "theorem_note": thm_note,
        "kernels_translated": [k.get("gallina_name") for k in digest.get("kernels", [])] if isinstance(digest, dict) and isinstance(digest.get("kernels"), list) else [],
        "evaluations": len(cases),
        "corpus_cases": ncorpus,
        "distinct_nontrivial": nontrivial,
        "rule": "seeded generation (profiles %s + stress); a case counts as non-trivial when %s; distinct = different "
                "program+history text" % (",".join(profiles),
                                          "the property-specific rule holds on the model's own records" if nontrivial_rule
                                          else "a cycle iterated (WillIterateCycle) and some node was re-executed after its first execution"),
        "traces_validated_against_impl": len(cases) - len(corr_diffs),
        "correspondence_levels": ["values", "events (WillExecute, DidValidateMemoizedValue, WillIterateCycle{iteration}, DidFinalizeCycle{iteration})",
                                  "state: " + ce.STATE_FIELDS],
        "state_fields_not_compared": ce.STATE_EXCLUDED,
        "specification_values_compared": spec_compared,
        "implementation_vs_spec_disagreements_outside_known_classes": len(spec_diffs),
        "implementation_vs_spec_disagreements_in_known_classes": {k: len(v) for k, v in known.items()},
        "implementation_vs_model_disagreements": len(corr_diffs),
        "oracle_disagreements": len(oracle_diffs),
        "certificate_per_get": cert,
        "programs_in_proved_hypothesis_class": hclass,
        "failing_input_search_cases": searched,
        "feature_histogram": feats_count,
        "operation_histogram": opcount,
        "samples": [sample] + [v[0][0] for v in list(known.values())[:2]],
        "wall_s": round(time.time() - t0, 1),
    })
    ctx.assumptions = [
        "user code is deterministic in what it reads (salsa's contract)",
        "the hook dump reports internal state truthfully",
        "single handle, single thread (the cross-thread parts of C14 are served by the Proto engine)",
    ] + (extra_assumptions or [])
    ctx.write_evidence("proof")


def replay(ctx, rp):
    """Re-run exactly the recorded case against the current /repo."""
    proof_broken, rep, digest, driver, harness = build_all(ctx)
    if "case" not in rp:
        print("replay: no concrete input recorded; broken obligation:", rp.get("broken", rp.get("relation")))
        print("proof status now:", "broken" if proof_broken else "ok")
        return 1 if proof_broken else 0
    c = rp["case"]
    impl, model = ce.run_both([c], harness, driver, shards=1)
    cid = c.split()[1]
    r = ce.compare_case(impl[cid], model[cid])
    print("implementation:")
    print("\n".join(impl[cid]))
    print("model + specification:")
    print("\n".join(model[cid]))
    print("first difference:", r)
    if r["level"] == "spec":
        print("known class:", ce.known_class(c, impl[cid], model[cid], r))
    return 1 if r["level"] else 0

"""C03 — memoized results are reused unless something they read has changed."""
from checks import seqcheck, reuse_oracle


def run(ctx):
    seqcheck.run_seq(ctx, ["reuse", "general", "lru", "durability"], n_quick=600, n_thorough=8000,
                     oracle=reuse_oracle.oracle_c03, known_class=reuse_oracle.known_c03,
                     nontrivial_rule=lambda f: "backdate" in f and "validate" in f,
                     thm_note=open(__file__.replace("C03.py", "notes/C03.txt")).read())


def replay(ctx, rp):
    return seqcheck.replay(ctx, rp)

"""C14 — cycles through a function without recovery panic instead of hanging (single thread)."""
from checks import cyclecheck
from vplib import cycleengine as ce


def oracle(case, impl_lines, model_lines):
    """Implementation only.  In the panic-cycles profile every function lacks recovery, so the only
    outcomes of a read are a value or the cycle error (never too-many, never a propagated panic,
    never an unclassified panic); a read never leaves a provisional or poisoned memo behind."""
    if "(spec evalo)" not in case:
        return None
    a = ce.split_lines(impl_lines)
    for i in sorted(a["R"]):
        r = a["R"][i]
        if r.startswith("panic") and r not in ("panic 2", "panic 1", "panic 3"):
            return dict(level="oracle", step=i, why=f"unexpected outcome {r} in a program without cycle recovery")
        for k, m in ce.parse_memos(a["S"].get(i, "")).items():
            if m["hv"] != "1" or m["heads"] or not m["final"]:
                return dict(level="oracle", step=i, why=f"memo {k} left provisional/poisoned: {m}")
    return None


def run(ctx):
    cyclecheck.run_cycle(ctx, ["panic-cycles"], n_quick=500, n_thorough=8000, oracle=oracle,
                         nontrivial_rule=lambda f: "cycle_panic" in f and "reexec" in f and "validate" in f,
                         thm_note=open(__file__.replace("C14.py", "notes/C14.txt")).read())


def replay(ctx, rp):
    return cyclecheck.replay(ctx, rp)

"""C14 — cycles through a function without recovery panic instead of hanging (single thread)."""
from checks import cyclecheck
from vplib import cycleengine as ce


def oracle(case, impl_lines, model_lines):
    """Implementation only.  In the panic-cycles profile every function lacks recovery, so the only
    outcomes of a read are a value or the cycle error (never too-many, never a propagated panic,
    never an unclassified panic); a read never leaves a provisional or poisoned memo behind."""
    if "(spec evalo)" not in case or case.split()[1].startswith(("mixed-panic", "s-mixed-panic")):
        return None        # mixed-panic has recovering heads: poisoned/provisional memos are legitimate there
    a = ce.split_lines(impl_lines)
    for i in sorted(a["R"]):
        r = a["R"][i]
        if r.startswith("panic") and r not in ("panic 2", "panic 1", "panic 3"):
            return dict(level="oracle", step=i, why=f"unexpected outcome {r} in a program without cycle recovery")
        for k, m in ce.parse_memos(a["S"].get(i, "")).items():
            if m["hv"] != "1" or m["heads"] or not m["final"]:
                return dict(level="oracle", step=i, why=f"memo {k} left provisional/poisoned: {m}")
    return None


def run(ctx):
    # stage 1: single thread (Cycle layer)
    cyclecheck.run_cycle(ctx, ["panic-cycles", "mixed-panic"], n_quick=500, n_thorough=8000, oracle=oracle,
                         nontrivial_rule=lambda f: "cycle_panic" in f and "reexec" in f and "validate" in f,
                         thm_note=open(__file__.replace("C14.py", "notes/C14.txt")).read())
    # stage 2: cross-thread (CFetch/Proto layer, Props/C14x.v; OS-thread workload + H2 trace replay)
    from checks import C14x, parcheck
    from vplib import common
    proof_broken, rep, driver = parcheck.build_common(ctx, prop_file="C14x")
    cov = C14x.cross_part(ctx, proof_broken, driver)
    if proof_broken is not None and not ctx.violations:
        ctx.violation(dict(kind="proof obligation no longer checks", broken=proof_broken, theorem_file="coq/Props/C14x.v",
                           search=f"{cov['cross_schedules']} repetitions of the cross-thread workload, none fails"), no_input=True)
    c = ctx.coverage
    if rep:
        c["obligations"] = c.get("obligations", 0) + rep["obligations"]
        c["discharged"] = c.get("discharged", 0) + rep["discharged"]
        c["theorems"] = list(c.get("theorems", [])) + rep["statements"]
        c["axioms_reported"] = list(c.get("axioms_reported", [])) + rep["axioms"]
        c["closed_under_global_context"] = c.get("closed_under_global_context", 0) + rep["closed_count"]
    c["checker_cmd"] = "make -C coq Props/C14.vo Props/C14x.vo  (coqc 8.16.1, Print Assumptions captured and compared with coq/ASSUMPTIONS.allow)"
    c["theorem_note"] = c.get("theorem_note", "") + "\n\nCROSS-THREAD PART: " + open(__file__.replace("C14.py", "notes/C14x.txt")).read()
    c["trusted_base"] = list(c.get("trusted_base", [])) + [
        "cross-thread stage: the OS scheduler plus the harness' randomised rendezvous produce the explored interleavings (shuttle cannot drive unwinding workloads)",
        "hook H2 appends each protocol record while the critical section's locks are held",
        "panic payloads are classified by message text (cycle error) / type (salsa::Cancelled)"]
    c["evaluations"] = c.get("evaluations", 0) + cov["cross_schedules"]
    c.update(cov)
    ctx.assumptions = [a for a in ctx.assumptions if "cross-thread parts of C14" not in a] + [
        "critical sections are atomic",
        "the evaluator performs exactly the protocol steps of Props/C14x.v when it unwinds (checked by trace replay)"]
    ctx.write_evidence("proof")


def replay(ctx, rp):
    if rp.get("os_threads") or rp.get("mode") == "cycles":
        from checks import parcheck
        return parcheck.replay_generic(ctx, rp, std=True)
    return cyclecheck.replay(ctx, rp)

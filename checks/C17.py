"""C17 — a function executes at most once per key per revision across all handles.
Proofs over the CFetch model (Props/C17.v) + exploration of the real crate's shuttle build
(same workload as C16): the WillExecute multiset per (key, revision), collected from the event
callback over all handles, must never contain a pair twice."""
from checks import parcheck

OWN = ("exec",)


def run(ctx):
    parcheck.run_readers(
        ctx, OWN,
        what="a tracked function body was executed twice for one key in one revision (no cycle, panic, cancellation or eviction involved)",
        note=open(__file__.replace("C17.py", "notes/C17.txt")).read(),
        nontrivial_desc="number of distinct (case, protocol-trace hash) pairs among the schedules in which at least one "
                        "handle waited for a key another handle was executing (WillBlockOn >= 1) — the situations in which a "
                        "second execution could happen")


def replay(ctx, rp):
    return parcheck.replay_generic(ctx, rp)

#!/usr/bin/env python3
"""checks/intern_diff.py — differential check of the real interned ingredient against the
extracted Coq model (coq/Intern/Model.v), for C08/C09.

    run_intern_diff(seed, tier) -> dict

Pipeline per case (a history of operations, DESIGN §5.5 profiles *retention* and *churn*):
  1. the case is fed to harness-intern (`intern_harness`, pinned to one CPU with
     `taskset -c 0` so that salsa creates 4 interned shards instead of 4 x ncpu);
  2. its output (API results, salsa events, H5 linearisation records) is turned into a
     replay script: one line per `intern_id` / `maybe_changed_after` record, carrying the
     real shard index (the `shard_of` oracle), the real slot index returned by the page
     allocator (the `fresh` oracle), the active-query stamp, and the expected outcome;
  3. the script is run through /verif/.build/ocaml-intern/replay (extracted model), which
     compares path, id, generation, slot stamps, revision queue and per-shard LRU order
     after every record;
  4. events (DidIntern/DidReuse/DidValidateInternedValue) and handle/field read-backs are
     compared here.
The generator draws values through the hook's shard map so that values collide in one
shard; it reports its own distribution.  A mismatching case is shrunk (drop operations
while the mismatch persists).

Profile *panic* (C22, and C08/C09 thorough): the event callback / the user `Hash` and
`PartialEq` of the interned field are armed to panic while slots are recycled; every
`get`/`intern` runs under catch_unwind.  Hook H5b (`op=commit|touch|abort` records) lets the
replay follow a call that unwound: the model step (Model.intern_cut) is applied at the
commit record, the final record of a completed call is a confirmation.  `value_oracle`
checks the implementation alone (no model, no hook): every completed request returns the
from-scratch value, handles read back their value, no two values share a handle within a
revision, no panic but the injected ones.

Nothing here stands in for a theorem: this validates model-vs-code agreement only.

Stand-alone:  python3 checks/intern_diff.py [--seed N] [--tier quick|thorough] [--build]
Environment:  INTERN_HARNESS_BIN, INTERN_REPLAY_BIN override the binaries.
"""
import json
import os
import random
import subprocess
import sys

ROOT = os.path.dirname(os.path.dirname(os.path.abspath(__file__)))
HARNESS_BIN = os.environ.get(
    "INTERN_HARNESS_BIN", os.path.join(ROOT, ".build/target-default/release/intern_harness"))
REPLAY_BIN = os.environ.get(
    "INTERN_REPLAY_BIN", os.path.join(ROOT, ".build/ocaml-intern/replay"))
REV_MAX = "18446744073709551615"
NAME_TO_TY = {"I1": "1", "I2": "2", "I3": "3", "IM": "M", "ID": "D"}
TY_REVISIONS = {"1": 1, "2": 2, "3": 3, "M": None, "D": 3}
VALUE_POOL = 64


def build():
    """Build the harness (cfg hook on) and the OCaml replay driver."""
    from vplib import common as _c
    global HARNESS_BIN
    if _c.REPO != "/repo":
        HARNESS_BIN = os.path.join(_c.target_dir("default"), "release", "intern_harness")
    env = dict(os.environ)
    env.update({"CARGO_NET_OFFLINE": "true",
                "CARGO_TARGET_DIR": _c.target_dir("default"),
                "RUSTFLAGS": "--cfg salsa_rs_salsa_verif"})
    subprocess.run(["cargo", "build", "--offline", "--release", "-j6"],
                   cwd=_c.crate_dir("harness-intern"), env=env, check=True,
                   timeout=1800)
    subprocess.run([os.path.join(ROOT, "ocaml/intern/build.sh"), ROOT], check=True,
                   timeout=900)


def _taskset(pinned=True):
    return ["taskset", "-c", "0"] if pinned else []


def shard_map(pinned=True):
    """({ty: {value: shard}}, shard count, {(ty, hash): value}) from the hook."""
    out = subprocess.run(_taskset(pinned) + [HARNESS_BIN, "--shardmap", str(VALUE_POOL)],
                         capture_output=True, text=True, timeout=120, check=True).stdout
    nshards, m, hv = None, {}, {}
    for line in out.splitlines():
        w = line.split()
        if w[0] == "NSHARDS":
            nshards = int(w[1])
        elif w[0] == "SHARD":
            m.setdefault(w[1], {})[int(w[2])] = int(w[3])
            hv[(w[1], w[4])] = w[2]
    return nshards, m, hv


# --------------------------------------------------------------------------- generator

def gen_case(rng, profile, smap, nshards):
    """A case is a list of operation lines."""
    main_ty = rng.choices(["1", "2", "3", "M", "D"], weights=[30, 30, 20, 10, 10])[0]
    other_ty = rng.choice(["1", "2", "3", "M"])
    hot = rng.randrange(nshards)
    by_shard = [v for v in range(VALUE_POOL) if smap[main_ty][v] == hot]
    hot_vals = by_shard[: rng.randint(3, 8)]
    cold_vals = [v for v in range(VALUE_POOL) if smap[main_ty][v] != hot][:8]
    n_inputs = 4
    ops = ["inputs %d" % n_inputs]
    durs = ["L", rng.choice("LM"), rng.choice("LMH"), "H"]
    for i in range(n_inputs):
        ops.append("set %d %d %s" % (i, rng.choice(hot_vals), durs[i]))

    def val():
        return rng.choice(hot_vals) if rng.random() < 0.85 else rng.choice(cold_vals)

    def ty():
        return main_ty if rng.random() < 0.85 else other_ty

    def low_input():
        return rng.choice([i for i in range(n_inputs) if durs[i] == "L"])

    length = rng.randint(25, 60) if profile == "retention" else rng.randint(40, 90)
    nxt = 0
    while len(ops) < length:
        r = rng.random()
        if profile == "retention":
            if r < 0.28:
                i = rng.randrange(n_inputs) if rng.random() < 0.35 else low_input()
                ops.append("get after %s %d %d" % (ty(), i, val()))
            elif r < 0.40:
                ops.append("get use %s %d %d" % (ty(), low_input(), val()))
            elif r < 0.45:
                ops.append("get before %s %d %d" % (ty(), rng.randrange(n_inputs), val()))
            elif r < 0.55:
                ops.append("get dyn %s %d" % (ty(), rng.randrange(n_inputs)))
            elif r < 0.65:
                ops.append("intern %s %d" % (ty(), val()))
            elif r < 0.82:
                i = rng.randrange(n_inputs)
                ops.append("set %d %d %s" % (i, val(), durs[i]))
            elif r < 0.94:
                for _ in range(rng.randint(1, 5)):      # burst of empty revisions
                    ops.append("newrev")
            else:
                ops.append("synth %s" % rng.choice("LMH"))
        else:  # churn: a new colliding value in (almost) every revision
            if r < 0.40:
                nxt += 1
                ops.append("set 0 %d L" % hot_vals[nxt % len(hot_vals)])
                ops.append("get dyn %s 0" % main_ty)
            elif r < 0.65:
                nxt += 1
                ops.append("newrev")
                ops.append("get use %s %d %d" % (main_ty, low_input(),
                                                  hot_vals[nxt % len(hot_vals)]))
            elif r < 0.75:
                ops.append("get after %s %d %d" % (ty(), low_input(), val()))
            elif r < 0.82:
                ops.append("intern %s %d" % (ty(), val()))
            elif r < 0.90:
                for _ in range(rng.randint(2, 4)):
                    ops.append("newrev")
            elif r < 0.95:
                i = rng.randrange(1, n_inputs)
                ops.append("set %d %d %s" % (i, val(), durs[i]))
            else:
                ops.append("get use %s 3 %d" % (main_ty, val()))     # HIGH-durability reader
    return ops


def gen_conc_case(rng):
    """C08 concurrent profile: 2-4 threads interning multisets from {0..3}, directly and
    inside a query, over several revisions."""
    ty = rng.choice(["1", "2", "3", "M"])
    ops = ["inputs 2", "set 0 0 L"]
    for _ in range(rng.randint(6, 14)):
        r = rng.random()
        if r < 0.55:
            lists = []
            for _t in range(rng.randint(2, 4)):
                items = []
                for _i in range(rng.randint(2, 6)):
                    v = rng.randrange(4)
                    items.append(("a%d" % v) if rng.random() < 0.6 else str(v))
                lists.append(",".join(items))
            ops.append("par %s %s" % (ty, ";".join(lists)))
        elif r < 0.75:
            for _ in range(rng.randint(1, 3)):
                ops.append("newrev")
        elif r < 0.85:
            ops.append("set 0 %d L" % rng.randrange(4))
        elif r < 0.93:
            ops.append("get after %s 0 %d" % (ty, rng.randrange(4)))
        else:
            ops.append("intern %s %d" % (ty, rng.randrange(4)))
    return ops


def gen_panic_case(rng, smap, nshards, user_faults=True):
    """C22 profile: churn over collectable types (a new colliding value in almost every
    revision, memos attached to the interned values through the keyed function so that
    recycling a slot discards something), with the event callback -- and, more rarely, the
    user `Hash`/`PartialEq` of the field -- armed to panic.  After an armed request the same
    request is repeated in the same revision and in later ones."""
    main_ty = rng.choices(["1", "2", "3", "D"], weights=[45, 30, 15, 10])[0]
    other_ty = rng.choice(["1", "2", "M"])
    hot = rng.randrange(nshards)
    by_shard = [v for v in range(VALUE_POOL) if smap[main_ty][v] == hot]
    hot_vals = by_shard[: rng.randint(4, 10)]
    cold_vals = [v for v in range(VALUE_POOL) if smap[main_ty][v] != hot][:8]
    n_inputs = 4
    durs = ["L", "L", rng.choice("LM"), "H"]
    ops = ["inputs %d" % n_inputs]
    for i in range(n_inputs):
        ops.append("set %d %d %s" % (i, rng.choice(hot_vals), durs[i]))
    nxt = rng.randrange(len(hot_vals))

    def val():
        return rng.choice(hot_vals) if rng.random() < 0.85 else rng.choice(cold_vals)

    def ty():
        return main_ty if rng.random() < 0.9 else other_ty

    def fault():
        r = rng.random()
        if user_faults and r < 0.10:
            return "userfault %s %d" % (rng.choice(["hash", "hash", "eq"]), rng.randint(1, 4))
        kind = rng.choices(["discard", "reuse", "intern", "validate", "exec", "valid", "any"],
                           weights=[34, 16, 10, 12, 8, 5, 15])[0]
        return "evfault %s %d" % (kind, rng.choices([1, 2, 3, 5], weights=[60, 20, 12, 8])[0])

    def request():
        r = rng.random()
        shape = rng.choices(["dynuse", "dynread", "dyn"], weights=[50, 35, 15])[0]
        if r < 0.55:
            return "get %s %s %d" % (shape, main_ty, rng.choice([0, 0, 1]))
        if r < 0.80:
            return "get use %s %d %d" % (ty(), rng.choice([0, 1]), hot_vals[nxt % len(hot_vals)])
        if r < 0.92:
            return "get after %s %d %d" % (ty(), rng.randrange(n_inputs), val())
        return "intern %s %d" % (ty(), val())

    length = rng.randint(45, 100)
    while len(ops) < length:
        r = rng.random()
        if r < 0.50:
            nxt += 1
            i = rng.choice([0, 0, 0, 1])
            ops.append("set %d %d L" % (i, hot_vals[nxt % len(hot_vals)]))
            req = "get %s %s %d" % (rng.choices(["dynuse", "dynread", "dyn"], weights=[55, 35, 10])[0],
                                    main_ty, i)
        elif r < 0.72:
            nxt += 1
            ops.append("newrev")
            req = request()
        elif r < 0.80:
            for _ in range(rng.randint(1, 3)):
                ops.append("newrev")
            req = request()
        elif r < 0.88:
            i = rng.randrange(1, n_inputs)
            ops.append("set %d %d %s" % (i, val(), durs[i]))
            req = "get dynuse %s %d" % (ty(), i)
        else:
            req = request()
        armed = rng.random() < 0.40
        if armed:
            ops.append(fault())
        ops.append(req)
        if armed:
            ops.append(req)                      # same revision, the fault is spent (or not)
            if rng.random() < 0.5:
                ops.append("get dynuse %s %d" % (main_ty, rng.choice([0, 1])))
            if rng.random() < 0.3:
                ops += ["evfault off", "userfault off"]
    ops += ["evfault off", "userfault off", "newrev"]
    for i in (0, 1):
        ops.append("get dynuse %s %d" % (main_ty, i))
        ops.append("get dynread %s %d" % (main_ty, i))
    return ops


# --------------------------------------------------------------------------- one case

def run_harness(ops, pinned=True):
    p = subprocess.run(_taskset(pinned) + [HARNESS_BIN], input="\n".join(ops) + "\n",
                       capture_output=True, text=True, timeout=120)
    return p.returncode, p.stdout, p.stderr


def parse_harness(out):
    """-> list of ops: dict(text, evs, recs, rets, rev)."""
    res, cur = [], None
    for line in out.splitlines():
        w = line.split(" ", 1)
        tag = w[0]
        if tag == "OP":
            cur = {"text": w[1].split(" ", 1)[1], "evs": [], "recs": [], "rets": [],
                   "prets": [], "rev": None, "panics": [], "faults": []}
            res.append(cur)
        elif cur is None:
            continue
        elif tag == "EV":
            cur["evs"].append(w[1].split())
        elif tag == "REC":
            cur["recs"].append(dict(kv.split("=", 1) for kv in w[1].split() if "=" in kv))
        elif tag == "RET":
            f = w[1].split()
            if f[0] == "panic":
                cur["panics"].append((f[1], " ".join(f[2:])))
            else:
                cur["rets"].append(f)
        elif tag == "FAULT":
            cur["faults"].append(w[1])
        elif tag == "PRET":
            cur["prets"].append(w[1].split())
        elif tag == "REV":
            cur["rev"] = w[1]
    return res


def _lst(s):
    s = s.strip("[]")
    return s.split(",") if s else []


CONFIRM_FIELDS = ("path", "shard", "hash", "idx", "gen", "stamp", "lia_after", "dur_after",
                  "queue", "lru", "rev")


def classify_records(recs):
    """Hook H5b pairing inside one harness operation -> list of (kind, record, other) in trace
    order:
      I  a completed intern_id, replayed at this position (the commit record when there is one,
         `other` = its later final record; else the final record itself, `other` = None)
      C  the final record of a call already replayed at its commit record (`other` = that one)
      U  a call that unwound after its commit (cold, reuse) or touch (fast) record
      A  a call that unwound before any write but revision_queue.record (abort record)
      M  maybe_changed_after
    A `touch` record followed by the final record of the same call is dropped (the final
    fast-path record describes the whole call)."""
    out, confirm = [], {}
    for i, r in enumerate(recs):
        op = r.get("op")
        if i in confirm:
            out.append(("C", r, confirm[i]))
        elif op == "mca":
            out.append(("M", r, None))
        elif op == "abort":
            out.append(("A", r, None))
        elif op == "insert-unwound":
            # user Hash unwound inside insert_value (cold path): after the key-map insertion
            # (debug assertion) the slot is completely published -> a cut after the commit
            # point; before it, nothing but the LRU link was written
            if r.get("inserted") == "1":
                r = dict(r, stamp="out" if r["lia_after"] == REV_MAX else "q" + r["dur_after"])
                out.append(("U", r, None))
            else:
                out.append(("A", r, None))
        elif op == "intern":
            out.append(("I", r, None))
        elif op in ("commit", "touch"):
            j = next((j for j in range(i + 1, len(recs)) if recs[j].get("t") == r.get("t")), None)
            f = recs[j] if j is not None else None
            paired = (f is not None and f.get("op") == "intern" and f.get("ing") == r.get("ing")
                      and f.get("idx") == r.get("idx") and f.get("path") == r.get("path"))
            if paired and op == "touch":
                continue
            if paired:
                confirm[j] = r
                out.append(("I", r, f))
            else:
                out.append(("U", r, None))
    return out


def to_replay(pops, hashval=None):
    """Replay script + bookkeeping: for each emitted line, (op index, record kind, ing, rec)."""
    lines, meta = [], []
    seen_ing, valid, handle_val, ty_ing = {}, {}, {}, {}
    stats = {"reuse": 0, "fast": 0, "cold": 0, "mca_unchanged": 0, "mca_changed": 0,
             "mca_refresh": 0, "pinned_slot": 0, "outside_stamp": 0, "never_stamp": 0,
             "immortal_records": 0, "reads": 0, "par_ops": 0, "par_races": 0,
             "commit_records": 0, "unwound_reuse": 0, "unwound_cold": 0, "unwound_fast": 0,
             "aborted": 0, "orphan_in_lru": 0}
    api_errors = []
    for oi, op in enumerate(pops):
        for kind, r, other in classify_records(op["recs"]):
            k = int(r["ing"])
            if k not in seen_ing:
                seen_ing[k] = r["revisions"]
                lines.append("G %d %s" % (k, "0" if r["revisions"] == "max" else r["revisions"]))
                meta.append(None)
            if r["name"] in NAME_TO_TY:
                ty_ing[NAME_TO_TY[r["name"]]] = k
            q = " ".join(_lst(r["queue"]))
            if kind == "A":
                lines.append("A %d %s Q %s E" % (k, r["rev"], q))
                meta.append((oi, "A", k, r))
                stats["aborted"] += 1
                if r.get("op") == "insert-unwound" and r.get("linked") == "1":
                    stats["orphan_in_lru"] += 1
                    api_errors.append(
                        "op %d: the cold path unwound (user Hash during the key-map growth) after "
                        "linking slot %s into the LRU and before inserting it into the key map: "
                        "the slot is reachable for reuse but has no key-map entry" % (oi, r["idx"]))
                continue
            lru = " ".join(_lst(r["lru"]))
            lia = None
            if "lia_after" in r:
                lia = "-1" if r["lia_after"] == REV_MAX else r["lia_after"]
            if kind == "C":
                diff = [f for f in CONFIRM_FIELDS if r.get(f) != other.get(f)]
                if diff:
                    api_errors.append(
                        "op %d: the slot at the commit point of intern_id is not the slot the call "
                        "reports at its end: %s" % (oi, ", ".join(
                            "%s %s -> %s" % (f, other.get(f), r.get(f)) for f in diff)))
                lines.append("C %d %s %s %s %s %s Q %s L %s %s E" % (
                    k, r["rev"], r["idx"], r["gen"], lia, r["dur_after"], q, r["shard"], lru))
                meta.append((oi, "C", k, r))
                if (k, r["hash"]) in valid:          # the id the call returned
                    handle_val.setdefault((k, r["idx"], r["gen"]),
                                          (valid[(k, r["hash"])], r.get("val")))
            elif kind in ("I", "U"):
                key = (k, r["hash"])
                if key not in valid:
                    valid[key] = len(valid) + 1
                vid = valid[key]
                stamp = "-1" if r["stamp"] == "out" else r["stamp"][1:]
                path = {"fast": "0", "cold": "1", "reuse": "2"}[r["path"]]
                lines.append("%s %d %s %d %s %s %s %s %s %s %s %s Q %s L %s E" % (
                    kind, k, r["rev"], vid, r["shard"], stamp, r["idx"], path, r["idx"], r["gen"],
                    lia, r["dur_after"], q, lru))
                meta.append((oi, kind, k, r))
                val = r.get("val") or (other or {}).get("val")
                if val is None and hashval and r["name"] in NAME_TO_TY:
                    val = hashval.get((NAME_TO_TY[r["name"]], r["hash"]))
                handle_val[(k, r["idx"], r["gen"])] = (vid, val)
                if kind == "U":
                    stats["unwound_" + r["path"]] += 1
                    continue
                if r["op"] == "commit":
                    stats["commit_records"] += 1
                stats[r["path"]] += 1
                if r["stamp"] == "out":
                    stats["outside_stamp"] += 1
                if r["stamp"] == "q3":
                    stats["never_stamp"] += 1
                if r["name"] in NAME_TO_TY:          # the five interned structs only
                    if r["revisions"] == "max":
                        stats["immortal_records"] += 1
                    elif r["dur_after"] != "0":
                        stats["pinned_slot"] += 1
                # the value just interned reads back
                lines.append("R %d %s %s %d" % (k, r["rev"], r["idx"], vid))
                meta.append((oi, "R", k, r))
            else:
                lines.append("M %d %s %s %s %s %s %s %s Q %s L %s %s E" % (
                    k, r["rev"], r["idx"], r["gen_in"],
                    "1" if r["result"] == "changed" else "0", r["gen"], lia, r["dur"], q,
                    r["shard"], lru))
                meta.append((oi, "M", k, r))
                stats["mca_" + r["result"]] += 1
                if r["result"] == "unchanged" and r["lia_before"] != r["lia_after"]:
                    stats["mca_refresh"] += 1
        # API-level observations: the returned handle and its field
        words = op["text"].split()
        if words[0] == "par":
            stats["par_ops"] += 1
            by_hash = {}
            for r in op["recs"]:
                if r["op"] == "intern" and r["name"] in NAME_TO_TY:
                    by_hash.setdefault(r["hash"], set()).add(r["t"])
            stats["par_races"] += sum(1 for ts in by_hash.values() if len(ts) > 1)
            k = ty_ing.get(words[1])
            seen = {}
            for th, v, idx, gen, read in op["prets"]:
                if read != v:
                    api_errors.append("op %d: thread %s interned %s, read back %s"
                                      % (oi, th, v, read))
                hv = handle_val.get((k, idx, gen))
                if hv is None or hv[1] != v:
                    api_errors.append("op %d: thread %s got handle %s:%s for %s, which the "
                                      "linearisation gives to %s" % (oi, th, idx, gen, v, hv))
                    continue
                if seen.setdefault(v, (idx, gen)) != (idx, gen):
                    api_errors.append("op %d: value %s has two handles in one revision"
                                      % (oi, v))
                lines.append("R %d %s %s %d" % (k, op["rev"], idx, hv[0]))
                meta.append((oi, "R", k, None))
                stats["reads"] += 1
            if len(set(seen.values())) != len(seen):
                api_errors.append("op %d: two values share a handle" % oi)
        for ret in op["rets"]:
            idx, gen, read = ret[:3]
            ty = words[1] if words[0] == "intern" else words[2]
            want = words[2] if words[0] == "intern" else (words[4] if len(words) > 4 else None)
            k = ty_ing.get(ty)
            hv = handle_val.get((k, idx, gen))
            if hv is None:
                api_errors.append("op %d: returned handle %s:%s was never produced by an "
                                  "interning" % (oi, idx, gen))
                continue
            vid, val = hv
            if val is not None and val != read:
                api_errors.append("op %d: field read %s through %s:%s, interned %s"
                                  % (oi, read, idx, gen, val))
            if want is not None and want != read:
                api_errors.append("op %d: asked for %s, read back %s" % (oi, want, read))
            lines.append("R %d %s %s %d" % (k, op["rev"], idx, vid))
            meta.append((oi, "R", k, None))
            stats["reads"] += 1
    return lines, meta, stats, api_errors


KNOWN_ORPHAN = "intern-cold-rehash-orphan"
ORPHAN_PANIC = "interned value in LRU so must be in key_map"
FAULT_KINDS = ("ev intern", "ev reuse", "ev validate", "ev discard", "ev exec", "ev valid",
               "hash", "eq")


def value_oracle(pops):
    """Implementation-side oracles (no model, no hook records) -> (problems, panic counts).
    Every completed `get`/`intern` returns what a fresh database returns for the current
    inputs (the interned value itself, read through the handle at top level, inside the
    query body, and through a second tracked function keyed by the handle); a value has one
    handle and a handle one value within a revision; the only panics are the injected ones,
    and only when a fault fired in that operation."""
    problems = []
    inputs = {}
    by_handle, by_value = {}, {}
    panics = {k: 0 for k in FAULT_KINDS}
    panics["after_any_panic_requests"] = 0
    panics["known:" + KNOWN_ORPHAN] = 0
    seen_panic = False
    hash_fault_seen = False
    for oi, op in enumerate(pops):
        w = op["text"].split()
        if w[0] == "set":
            inputs[w[1]] = w[2]
        if w[0] not in ("get", "intern"):
            continue
        for f in op["faults"]:
            panics[f] = panics.get(f, 0) + 1
        hash_fault_seen = hash_fault_seen or "hash" in op["faults"]
        for cls, msg in op["panics"]:
            # (the former known class intern-cold-rehash-orphan -- salsa's own "interned value in LRU
            # so must be in key_map" after a user Hash panic during key-map growth -- was repaired
            # by /repo commit 3d96502; a recurrence is an ordinary violation reported below)
            if cls != "injected":
                problems.append("op %d (%s): unwound with a panic that was not injected: %s"
                                % (oi, op["text"], msg))
            elif not op["faults"]:
                problems.append("op %d (%s): injected panic although no fault fired" % (oi, op["text"]))
        if op["faults"] and not op["panics"]:
            problems.append("op %d (%s): the fault fired but the panic did not reach the caller"
                            % (oi, op["text"]))
        if not op["panics"] and not op["rets"]:
            problems.append("op %d (%s): no result" % (oi, op["text"]))
        if w[0] == "intern":
            ty, want = w[1], w[2]
        elif w[1] in ("dyn", "dynuse", "dynread"):
            ty, want = w[2], inputs.get(w[3], "0")
        else:
            ty, want = w[2], w[4]
        for ret in op["rets"]:
            if seen_panic:
                panics["after_any_panic_requests"] += 1
            idx, gen, read = ret[:3]
            names = ("field read through the returned handle", "value of the tracked function "
                     "keyed by the handle", "field read inside the query")
            for name, got in zip(names, [read] + ret[3:5]):
                if got != want:
                    problems.append("op %d (%s): %s is %s, a fresh database gives %s%s"
                                    % (oi, op["text"], name, got, want,
                                       " (after an injected panic)" if seen_panic else ""))
            h = by_handle.setdefault((ty, op["rev"]), {})
            v = by_value.setdefault((ty, op["rev"]), {})
            if h.setdefault((idx, gen), want) != want:
                problems.append("op %d (%s): handle %s:%s stands for %s and for %s in revision %s"
                                % (oi, op["text"], idx, gen, h[(idx, gen)], want, op["rev"]))
            if v.setdefault(want, (idx, gen)) != (idx, gen):
                problems.append("op %d (%s): value %s has handles %s and %s:%s in revision %s"
                                % (oi, op["text"], want, "%s:%s" % v[want], idx, gen, op["rev"]))
        if op["panics"]:
            seen_panic = True
    return problems, panics


def run_replay(lines):
    import time
    for attempt in range(5):
        try:
            p = subprocess.run([REPLAY_BIN], input="\n".join(lines) + "\n", capture_output=True,
                               text=True, timeout=120)
            break
        except (PermissionError, OSError):        # binary being replaced by a concurrent build
            if attempt == 4:
                raise
            time.sleep(1.0)
    return p.returncode, p.stdout.splitlines(), p.stderr


def check_case_full(ops, pinned=True, hashval=None, replay=True):
    """-> dict(value_problems, model_problems, stats, panics).  `value_problems` come from the
    implementation alone (value_oracle + API read-backs), `model_problems` from the replay of
    the hook records through the extracted model."""
    res = {"value_problems": [], "model_problems": [], "stats": {}, "panics": {}, "known": []}
    try:
        rc, out, err = run_harness(ops, pinned)
    except subprocess.TimeoutExpired:
        res["value_problems"].append("the harness did not finish within 120 s (blocked)")
        return res
    if rc != 0:
        el = err.strip().splitlines()
        msg = [l for i, l in enumerate(el) if "panicked at" in l or (i and "panicked at" in el[i - 1])]
        res["value_problems"].append("harness exit %d: %s" % (rc, " / ".join(msg) or el[-1:]))
        return res
    pops = parse_harness(out)
    vprob, panics = value_oracle(pops)
    res["value_problems"] += vprob
    res["panics"] = panics
    lines, meta, stats, api = to_replay(pops, hashval)
    res["stats"] = stats
    problems = res["model_problems"]
    # read-backs that contradict the linearisation are value-level facts as well, except the
    # bookkeeping ones that need the hook records
    for a in api:
        pure = ("asked for" in a or "read back" in a or "two handles" in a or "share a handle" in a)
        (res["value_problems"] if pure and "linearisation" not in a else problems).append(a)
    if panics.get("known:" + KNOWN_ORPHAN):
        res["known"].append(KNOWN_ORPHAN + ": a later interning panicked once with salsa's own `%s`"
                            % ORPHAN_PANIC)
    if stats.get("orphan_in_lru"):
        # fixed by /repo commit 3d96502 (key map first, LRU second): seeing it again is a violation
        res["value_problems"].extend(p for p in problems if "cold path unwound" in p)
        return res
    if not replay:
        del problems[:]         # without hook H5b the records of unwound calls are missing
        return res
    rc, rout, rerr = run_replay(lines)
    if rc != 0:
        problems.append("replay exit %d: %s" % (rc, rerr.strip()))
        return res
    rec_meta = [m for m in meta if m is not None]
    model_evs = {}     # (op index, ing) -> [event strings]
    unwound = set()    # (op index, ing) of calls that unwound: events may stop early
    k = 0
    for line in rout:
        w = line.split()
        if w[0] in ("OK", "MISMATCH"):
            if w[0] == "MISMATCH" and w[1] == "0":
                problems.append(line)
                continue
            m = rec_meta[k]
            k += 1
            if w[0] == "MISMATCH":
                problems.append("op %d (%s) [%s record] %s" % (m[0], pops[m[0]]["text"], m[1], line))
                evs = line.split("|", 1)[1].split() if "|" in line else []
            else:
                evs = w[2:]
            if m[1] in ("I", "M", "U"):
                model_evs.setdefault((m[0], m[2]), []).extend(
                    e for e in evs if e.split(":")[0] in ("intern", "reuse", "validate"))
            if m[1] in ("U", "A"):
                unwound.add((m[0], m[2]))
    if k != len(rec_meta):
        problems.append("replay answered %d of %d records" % (k, len(rec_meta)))
    # events
    for oi, op in enumerate(pops):
        real = {}
        for ev in op["evs"]:
            kind, ing, idx, gen, rev = ev
            if kind in ("intern", "reuse", "validate"):
                real.setdefault(int(ing), []).append("%s:%s:%s:%s" % (kind, idx, gen, rev))
        ings = set(real) | {k2 for (o2, k2) in model_evs if o2 == oi}
        for ing in ings:
            a, b = real.get(ing, []), model_evs.get((oi, ing), [])
            if op["text"].startswith("par "):      # events of different shards are unordered
                a, b = sorted(a), sorted(b)
            if (oi, ing) in unwound and a == b[:len(a)]:
                continue                           # the callbacks after the panic never ran
            if a != b:
                problems.append("op %d (%s) ingredient %d events: real %s model %s"
                                % (oi, op["text"], ing, a, b))
    return res


def check_case(ops, pinned=True, hashval=None):
    """-> (ok, problems, stats)."""
    r = check_case_full(ops, pinned, hashval)
    problems = r["value_problems"] + r["model_problems"]
    return not problems, problems, r["stats"]


def shrink(ops, budget=150, pinned=True, hashval=None, fails=None):
    """Drop operations while `fails(case)` (default: any problem) stays true."""
    if fails is None:
        def fails(cand):
            return not check_case(cand, pinned, hashval)[0]
    cur = list(ops)
    changed = True
    while changed and budget > 0:
        changed = False
        i = len(cur) - 1
        while i >= 1 and budget > 0:
            cand = cur[:i] + cur[i + 1:]
            budget -= 1
            if fails(cand):
                cur = cand
                changed = True
            i -= 1
    return cur


# --------------------------------------------------------------------------- driver

def run_intern_diff(seed, tier):
    n_cases = {"quick": 90, "thorough": 900}.get(tier, 90)
    rng = random.Random("intern_diff-%s" % seed)
    nshards, smap, hashval = shard_map(True)
    nshards_free, _, _ = shard_map(False)
    res = {"seed": seed, "tier": tier, "nshards": nshards, "nshards_unpinned": nshards_free,
           "cases": 0, "records": 0, "mismatching_cases": 0, "first_mismatch": None,
           "distribution": {"retention": 0, "churn": 0, "conc": 0, "with_reuse": 0,
                            "with_pin_by_durability": 0, "with_immortal_type": 0,
                            "with_revalidation_refresh": 0, "with_empty_revision_burst": 0,
                            "with_outside_query_interning": 0, "with_changed_answer": 0,
                            "with_cross_thread_same_value": 0},
           "totals": {}}
    for ci in range(n_cases):
        profile = ("retention", "churn", "conc")[ci % 3]
        sub = rng.getrandbits(32)
        if profile == "conc":
            # real OS threads, not pinned (so that they actually run in parallel);
            # schedules are whatever the OS produces, the hook records the one taken
            ops, pinned = gen_conc_case(random.Random(sub)), False
        else:
            ops, pinned = gen_case(random.Random(sub), profile, smap, nshards), True
        ok, problems, stats = check_case(ops, pinned, hashval)
        res["cases"] += 1
        d = res["distribution"]
        d[profile] += 1
        if stats:
            for k, v in stats.items():
                res["totals"][k] = res["totals"].get(k, 0) + v
            res["records"] += (stats["fast"] + stats["cold"] + stats["reuse"]
                               + stats["mca_unchanged"] + stats["mca_changed"])
            d["with_reuse"] += stats["reuse"] > 0
            d["with_pin_by_durability"] += stats["pinned_slot"] > 0
            d["with_immortal_type"] += stats["immortal_records"] > 0
            d["with_revalidation_refresh"] += stats["mca_refresh"] > 0
            d["with_outside_query_interning"] += stats["outside_stamp"] > 0
            d["with_changed_answer"] += stats["mca_changed"] > 0
            d["with_cross_thread_same_value"] += stats["par_races"] > 0
        burst = any(ops[i] == "newrev" and ops[i + 1] == "newrev" for i in range(len(ops) - 1))
        d["with_empty_revision_burst"] += burst
        if not ok:
            res["mismatching_cases"] += 1
            if res["first_mismatch"] is None:
                small = shrink(ops, 150, pinned, hashval)
                _, p2, _ = check_case(small, pinned, hashval)
                res["first_mismatch"] = {"case_seed": sub, "profile": profile,
                                         "problems": problems[:5], "shrunk_case": small,
                                         "shrunk_problems": p2[:5]}
    res["ok"] = res["mismatching_cases"] == 0
    return res


def h5b_present():
    """Does the crate under test carry hook H5b (commit records)?"""
    rc, out, _ = run_harness(["inputs 1", "intern 1 0"], True)
    return rc == 0 and "REC op=commit " in out


def run_intern_panic(seed, tier, n_cases=None, user_faults=True, workers=8):
    """The C22 intern stage: panic profile, value oracles on the implementation, replay of the
    unwound linearisation through the model (when hook H5b is there)."""
    from concurrent.futures import ThreadPoolExecutor
    if n_cases is None:
        n_cases = {"quick": 160, "thorough": 1600}.get(tier, 160)
    rng = random.Random("intern_panic-%s" % seed)
    nshards, smap, hashval = shard_map(True)
    h5b = h5b_present()
    res = {"seed": seed, "tier": tier, "nshards": nshards, "hook_h5b": h5b, "cases": 0,
           "requests": 0, "records": 0, "cases_with_panic": 0, "cases_with_unwound_reuse": 0,
           "panics_by_fault": {}, "unwound_calls": {"reuse_after_commit": 0,
                                                    "cold_after_commit": 0,
                                                    "fast_after_touch": 0,
                                                    "before_any_write": 0,
                                                    "cold_between_lru_and_key_map": 0},
           "requests_checked_after_a_panic": 0, "known_finding_cases": 0, "known": [],
           "value_failures": [], "model_mismatches": [], "samples": []}
    cases = []
    # corpus first: minimal histories of repaired defects (they must pass now)
    cdir = os.path.join(os.path.dirname(os.path.dirname(os.path.abspath(__file__))), "gen", "corpus", "C22")
    if os.path.isdir(cdir):
        for f in sorted(os.listdir(cdir)):
            if f.startswith("intern-") and f.endswith(".case"):
                ops = [l.split("#")[0].strip() for l in open(os.path.join(cdir, f))]
                cases.append((0, [o for o in ops if o]))
    for ci in range(n_cases):
        sub = rng.getrandbits(32)
        cases.append((sub, gen_panic_case(random.Random(sub), smap, nshards, user_faults)))
    with ThreadPoolExecutor(max_workers=workers) as ex:
        results = list(ex.map(lambda c: check_case_full(c[1], True, hashval, replay=h5b), cases))
    for ci, ((sub, ops), r) in enumerate(zip(cases, results)):
        if ci < 2:
            res["samples"].append(ops)
        res["cases"] += 1
        res["requests"] += sum(1 for o in ops if o.startswith(("get ", "intern ")))
        st = r["stats"]
        if st:
            res["records"] += (st["fast"] + st["cold"] + st["reuse"] + st["mca_unchanged"]
                               + st["mca_changed"] + st["unwound_reuse"] + st["unwound_cold"]
                               + st["unwound_fast"] + st["aborted"])
            u = res["unwound_calls"]
            u["reuse_after_commit"] += st["unwound_reuse"]
            u["cold_after_commit"] += st["unwound_cold"]
            u["fast_after_touch"] += st["unwound_fast"]
            u["before_any_write"] += st["aborted"] - st["orphan_in_lru"]
            u["cold_between_lru_and_key_map"] += st["orphan_in_lru"]
            res["cases_with_unwound_reuse"] += st["unwound_reuse"] > 0
        n_p = 0
        for k, v in r["panics"].items():
            if k == "after_any_panic_requests":
                res["requests_checked_after_a_panic"] += v
            elif not k.startswith("known:"):
                res["panics_by_fault"][k] = res["panics_by_fault"].get(k, 0) + v
                n_p += v
        res["cases_with_panic"] += n_p > 0
        if r["known"]:
            res["known_finding_cases"] += 1
            if len(res["known"]) < 3:
                res["known"].append({"case_seed": sub, "notes": r["known"]})
        if r["value_problems"]:
            res["value_failures"].append({"case_seed": sub, "case": ops,
                                          "problems": r["value_problems"][:5]})
        elif r["model_problems"]:
            res["model_mismatches"].append({"case_seed": sub, "case": ops,
                                            "problems": r["model_problems"][:5]})
    res["ok"] = not res["value_failures"] and not res["model_mismatches"]
    return res


def shrink_value_failure(ops, hashval=None, budget=200):
    """Smallest history (by dropping operations) on which the value oracle still fails."""
    def fails(cand):
        return bool(check_case_full(cand, True, hashval, replay=False)["value_problems"])
    small = shrink(ops, budget, True, hashval, fails)
    return small, check_case_full(small, True, hashval, replay=False)["value_problems"]


if __name__ == "__main__":
    import argparse
    ap = argparse.ArgumentParser()
    ap.add_argument("--seed", type=int, default=int(os.environ.get("VERIF_SEED", "1")))
    ap.add_argument("--tier", default="quick")
    ap.add_argument("--build", action="store_true")
    ap.add_argument("--case", help="file with one case; prints the comparison")
    ap.add_argument("--panic", action="store_true", help="run the C22 panic profile")
    a = ap.parse_args()
    if a.build:
        build()
    if a.case:
        ops = [l.strip() for l in open(a.case) if l.strip()]
        _, _, hashval = shard_map(True)
        ok, problems, stats = check_case(ops, not any(o.startswith("par ") for o in ops), hashval)
        print(json.dumps({"ok": ok, "problems": problems, "stats": stats}, indent=1))
        sys.exit(0 if ok else 1)
    r = run_intern_panic(a.seed, a.tier) if a.panic else run_intern_diff(a.seed, a.tier)
    print(json.dumps(r, indent=1))
    sys.exit(0 if r["ok"] else 1)

"""C02 — durabilities never cause stale results; never-change fields stay frozen."""
from checks import seqcheck
from vplib import seqengine as se


def oracle(case, impl_lines, model_lines):
    """Implementation only: once a field is NEVER_CHANGE every write to it (and every
    never-change synthetic write) must panic, and no input value/durability may change."""
    a = se.split_lines(impl_lines)
    tree = se.parse_sx(case)
    hist = next(x for x in tree[2:] if isinstance(x, list) and x and x[0] == "hist")[1:]
    import re
    prev = None
    for i, op in enumerate(hist):
        st = a["S"].get(i)
        if st is None:
            break
        ins = dict()
        m = re.search(r"in=(\S*)", st)
        if m:
            for ent in m.group(1).split(";"):
                if ent:
                    k, v, ch, du = ent.split(":")
                    ins[k] = (v, du)
        if prev is not None:
            if op[0] == "set" and prev.get(f"{op[1]}.{op[2]}", ("", "0"))[1] == "3":
                if a["R"].get(i) != "panic 1":
                    return dict(level="oracle", step=i, why="write to a never-change field did not panic", got=a["R"].get(i))
                if ins != prev:
                    return dict(level="oracle", step=i, why="rejected write changed an input value or durability")
            if op[0] == "synth" and op[1] == "3":
                if a["R"].get(i) != "panic 1":
                    return dict(level="oracle", step=i, why="never-change synthetic write did not panic", got=a["R"].get(i))
                if ins != prev:
                    return dict(level="oracle", step=i, why="rejected synthetic write changed an input")
        prev = ins
    return None


def run(ctx):
    seqcheck.run_seq(ctx, ["durability", "general"], n_quick=500, n_thorough=8000, oracle=oracle,
                     nontrivial_rule=lambda f: "validate_durable" in f and "reexec" in f,
                     thm_note=open(__file__.replace("C02.py", "notes/C02.txt")).read())


def replay(ctx, rp):
    return seqcheck.replay(ctx, rp)

"""C26 — a persisted database restores identical results and valid memos.

Proofs: coq/Props/C26.v (over coq/Persist).  Tie: implementation (harness-persist, salsa with
feature "persistence", serde_json round trip into a FRESH database) vs the extracted Persist model
at values / events / state (incl. the state right after deserialisation: flattened edges,
stamps, revisions), implementation vs the from-scratch specification (column V), and two
implementation-side oracles below (independent reference interpreter; reuse of restored memos).

Finding classes (see checks/notes/C26.txt; they are KNOWN-FINDING lines only while listed for C26
in /verif/known-findings.txt, otherwise VIOLATIONs):
  uninitialised-ingredient-panic     verifying a restored memo whose dependency is a tracked function
                                     that was not yet called in the new database panics
  evicted-dependency-not-serialised  a restored memo with unchanged inputs re-executes because a persisted
                                     dependency was value-less (LRU) at snapshot time and was not serialised
FIXED in /repo e43c20c (no longer a class: a recurrence is a VIOLATION): flattened-untracked-dependency —
a non-persisted dependency with untracked reads was flattened away and the restored memo returned
a stale value.  Its minimal case is gen/corpus/C26/flattened-untracked-dependency.case (runs first)."""
import os

from vplib import diffcheck
from vplib import persistengine as pe
from vplib import seqengine as se
from vplib.refinterp import Ref, case_sections


def _walk(case, impl_lines):
    """Replays the history on the reference side. Yields per step:
    (i, op, got, ref (or None), restored (dict key -> True) or None, restore_step)"""
    a = se.split_lines(impl_lines)
    nk, _ni, inputs, nodes, hist = case_sections(se.parse_sx(case))
    cells = {}
    snap_inputs = None
    restored = None
    restore_step = None
    for i, op in enumerate(hist):
        got = a["R"].get(i)
        if got is None:
            return
        if op[0] == "set" and not got.startswith("panic"):
            inputs[(int(op[1]), int(op[2]))] = int(op[3])
        elif op[0] == "setcell":
            cells[int(op[1])] = int(op[2])
        elif op[0] == "snapshot":
            snap_inputs = dict(inputs)
        elif op[0] == "restore" and snap_inputs is not None:
            inputs.clear()
            inputs.update(snap_inputs)           # the inputs are part of the serialised database
            memos, _ins, _revs = pe.parse_state(a["S"].get(i, ""))
            restored = {k: True for k in memos}
            restore_step = i
        ref = None
        if op[0] == "get":
            ref = Ref(nodes, nk, inputs, cells)
        yield i, op, got, ref, restored, restore_step, a
        if restored is not None:
            for e in a["E"].get(i, "").split():
                t, k = e.split(":")
                if t == "x":
                    restored.pop(k, None)        # re-executed: no longer a restored result


def oracle(case, impl_lines, model_lines):
    """Implementation only.
    (1) every `get` returns the reference interpreter's fresh evaluation at the current inputs
        (the inputs are those of the snapshot after a restore) and external cells;
    (2) a `get` of a restored, not yet re-executed memo of a persisted function whose transitive
        inputs (through every called function, persisted or not) are unchanged since the memo was
        last verified, and which reads no external state, emits no WillExecute for that function."""
    first = None
    for i, op, got, ref, restored, restore_step, a in _walk(case, impl_lines):
        if op[0] != "get" or got.startswith("panic"):
            continue
        fam, key = int(op[1]), int(op[2])
        try:
            want = "ret %d" % ref.node(fam, key).value
        except RecursionError:
            continue
        if got != want:
            return dict(level="oracle", kind="value", step=i, impl=got, reference=want,
                        why="get differs from the reference interpreter's fresh evaluation")
        k = f"{fam}.{key}"
        if restored is None or k not in restored or fam not in pe.PERSISTED or first is not None:
            continue
        closure = ref.closure(fam, key)
        if any(ref.node(*q).untracked for q in closure):
            continue
        memos_before, ins_before, _ = pe.parse_state(a["S"].get(i - 1, ""))
        if k not in memos_before or memos_before[k]["hv"] != "1":
            continue                             # evicted since the restore (C05): has to be recomputed
        v0 = memos_before[k]["ver"]
        reads = [r for q in closure for r in ref.node(*q).reads]
        if all(ins_before[r]["ch"] <= v0 for r in reads if r in ins_before):
            if f"x:{k}" in a["E"].get(i, "").split():
                memos_restored, _, _ = pe.parse_state(a["S"].get(restore_step, ""))
                missing = [f"{q[0]}.{q[1]}" for q in closure
                           if q != (fam, key) and q[0] in pe.PERSISTED and f"{q[0]}.{q[1]}" not in memos_restored]
                first = dict(level="oracle", kind="reuse", step=i, key=k, verified_at=v0,
                             events=a["E"].get(i, ""), restore_step=restore_step,
                             persisted_dependencies_missing_after_restore=missing,
                             why="restored memo with unchanged inputs was re-executed")
    return first


def finding_class(case, diff, impl_lines, model_lines):
    if diff.get("level") == "spec":
        # a case is attributed to the class only if every difference in it is explained by it
        diffs = diff.get("all_spec", [(diff["step"], diff["impl"], diff["model"])])
        if diffs and all(impl == "panic 8" for _step, impl, _want in diffs):
            return "uninitialised-ingredient-panic"
        return None
    if diff.get("level") == "oracle":
        if diff.get("kind") == "reuse" and diff.get("persisted_dependencies_missing_after_restore"):
            return "evicted-dependency-not-serialised"
        if diff.get("kind") == "value":
            # the value oracle repeats the specification column: same class
            a = se.split_lines(impl_lines)
            b = se.split_lines(model_lines)
            i = diff["step"]
            r = dict(level="spec", step=i, impl=a["R"].get(i), model=b["V"].get(i),
                     all_spec=[(i, a["R"].get(i), b["V"].get(i))])
            return finding_class(case, r, impl_lines, model_lines)
    return None


NOTE = open(os.path.join(os.path.dirname(__file__), "notes", "C26.txt")).read() \
    if os.path.exists(os.path.join(os.path.dirname(__file__), "notes", "C26.txt")) else ""


def run(ctx):
    diffcheck.run_diff(
        ctx, pe, ["persist", "persist-lru", "persist-cold", "persist-untracked"],
        n_quick=480, n_thorough=6000, oracle=oracle, finding_class=finding_class,
        rule_text="a case counts as non-trivial when, in the model's own log, after a restore at least one "
                  "restored memo was returned or validated without execution AND at least one restored memo was "
                  "re-executed",
        extra_assumptions=["inputs and the families `plain`, `lru_fn` are persisted, `noeq`, `np` are not; values are u8; "
                           "one snapshot string is kept; a change of external state between a snapshot and the "
                           "restore of it is followed by a synthetic write in the restored database (C01/C04 convention)",
                           "no tracked structs / interned values / accumulators in the persisted programs "
                           "(accumulated values are documented as not serialised: `TODO: Support serializing accumulators`)"],
        thm_note=NOTE)


def replay(ctx, rp):
    return diffcheck.replay(ctx, pe, rp, oracle=oracle)

"""Stage of C22 on the cycle engine: a body of user code PANICS while it is inside a (nested)
fixpoint iteration — single handle, single thread — and the database must be consistent and
usable afterwards.

Cases (vplib.parengine.generate_pn): nested / random cyclic programs of the fixpoint profile, one
member's body carries `| (if COND (panicif 0) 0)`, COND mostly the PROVISIONAL value of another
member (the panic fires in a later iteration, when provisional memos of inner cycle heads exist
and are abandoned by the unwinding); histories switch the fault on, read (under catch_unwind),
switch it off, re-read in the same revision, write (mostly shrinking an input the program reads, so
that an abandoned provisional value would be a non-least fixpoint of the new equations), read all.
Checked per case:
  * implementation == extracted Cycle model (coq/Cycle/Model.v, unchanged: PanicIf / on_panic) on
    values, events and the hook-dumped state after EVERY operation;
  * implementation-side oracle: a read unwinds with the injected panic only while the switch is
    on; every read that returns a value returns `kleene` of the current snapshot (specification
    column of the guard-free twin program).  A wrong value that the SAME program and history
    returns with the fault never switched on is the cycle engine's known finding, as is one whose
    mechanism is recognised on the implementation's records (a final former participant validated
    in the current revision, C12 cycle_participant_validated_on_incomplete_edges) or salsa's own
    debug-build backdate assertion; anything else is a violation with the history as failing input.
"""
import os
import time

from checks import cyclecheck
from checks import parcheck
from vplib import common
from vplib import cycleengine as ce
from vplib import parengine as pe
from vplib import seqengine as se

ENGINE = "cycle-panic"


def _build():
    driver = parcheck.build_cycle_driver()
    rel = common.cargo_build("harness", cyclecheck.cargo_target(), bins=[cyclecheck.HARNESS_BIN])
    return os.path.join(rel, cyclecheck.HARNESS_BIN), driver


def examine(triple, impl, model):
    """-> (correspondence difference | None, oracle findings, known list, counters)"""
    g, b, t = triple
    gid, bid, tid = (x.split()[1] for x in triple)
    il, ml = impl.get(gid, ["ERROR missing"]), model.get(gid, ["ERROR missing"])
    corr = ce.compare_case(il, ml)
    if corr["level"] == "error":
        raise common.CheckError(f"driver error on case {gid}: {corr}")
    tm = model.get(tid, [])
    if not any(l.strip() == "H 1" for l in tm):
        raise common.CheckError(f"twin program of {gid} is outside the class mono_table")
    V = se.split_lines(tm)["V"]
    R = se.split_lines(il)["R"]
    Rb = se.split_lines(impl.get(bid, []))["R"]
    hist = pe.hist_of(se.parse_sx(g))[1:]
    on = False
    findings, known = [], []
    cnt = dict(reads=0, panicked=0, reads_after_a_panic=0, same_revision_rereads_after_a_panic=0)
    panicked_before = panicked_this_rev = False
    for i, op in enumerate(hist):
        if op[0] == "setpanic":
            on = op[2] != "0"
        elif op[0] in ("set", "synth"):
            panicked_this_rev = False
        elif op[0] == "get":
            cnt["reads"] += 1
            r = R.get(i)
            want = V.get(i)
            if panicked_before:
                cnt["reads_after_a_panic"] += 1
            if panicked_this_rev and not on:
                cnt["same_revision_rereads_after_a_panic"] += 1
            if r == "panic 5":
                cnt["panicked"] += 1
                panicked_before = panicked_this_rev = True
                if not on:
                    findings.append(dict(level="oracle", step=i, why="injected panic although the fault switch is off"))
                continue
            if r == want:
                continue
            if r == "panic 7" and panicked_this_rev:
                # a poisoned cycle head of THIS revision: Cancelled::PropagatedPanic until the next revision
                # (fetch_cold_cycle, "Don't replace a poisoned memo from this execution"); C22 demands the
                # fresh-database result of fixpoint functions only "in any later revision"
                cnt["propagated_in_the_revision_of_the_panic"] = cnt.get("propagated_in_the_revision_of_the_panic", 0) + 1
                continue
            d = dict(level="oracle", step=i, impl=r, spec=want, same_history_without_panic=Rb.get(i))
            if r == "panic 3" and "(cell " not in g:
                known.append(("backdate_violation_participant_after_head_backdated", d))
            elif Rb.get(i) == r:
                known.append(("same_history_without_panic", d))
            elif r is not None and r.startswith("ret ") and pe.participant_validated_in_revision(g, il, i):
                known.append(("cycle_participant_validated_on_incomplete_edges", d))
            else:
                findings.append(d)
    return (corr if corr["level"] not in (None, "spec") else None), findings, known, cnt


def stage(ctx):
    t0 = time.time()
    harness, driver = _build()
    quick = ctx.tier == "quick"
    n = 150 if quick else 2500
    triples = pe.generate_pn(ctx.seed, n, "quick" if quick else "thorough")
    texts = [x for tr in triples for x in tr]
    impl, model = ce.run_both(texts, harness, driver, shards=6)
    corr_diffs, findings, known = [], [], {}
    tot = dict(reads=0, panicked=0, reads_after_a_panic=0, same_revision_rereads_after_a_panic=0,
               propagated_in_the_revision_of_the_panic=0)
    feats = {}
    for tr in triples:
        corr, fs, kn, cnt = examine(tr, impl, model)
        for k in tot:
            tot[k] += cnt.get(k, 0)
        if corr is not None:
            corr_diffs.append((tr, corr))
        findings += [(tr, f) for f in fs]
        for cls, d in kn:
            known.setdefault(cls, []).append((tr, d))
        for x in ce.classify(model.get(tr[0].split()[1], [])):
            feats[x] = feats.get(x, 0) + 1
    for tr, f in findings[:3]:
        ctx.violation(dict(kind="after a panic of user code inside a (nested) fixpoint iteration a read differs from the least "
                                "fixpoint of the current snapshot (the same history without the panic does not)"
                                if "impl" in f else "a read unwound with the injected panic although the fault switch was off",
                           engine=ENGINE, case=tr[0], baseline_case=tr[1], twin_case=tr[2], first_difference=f,
                           how_to_replay="./vp replay <this file>"))
    if not findings and corr_diffs:
        tr, corr = corr_diffs[0]
        ctx.violation(dict(kind="correspondence model/implementation no longer holds",
                           relation=f"Cycle model vs implementation at level {corr['level']} on a history with a panic inside a "
                                    "nested fixpoint iteration", engine=ENGINE, case=tr[0], baseline_case=tr[1], twin_case=tr[2],
                           first_difference=corr, n_cases_differing=len(corr_diffs),
                           search=f"{len(triples)} generated histories: every read that returned a value equals the specification "
                                  "or falls into a known class"), no_input=True)
    for cls, lst in known.items():
        if cls == "same_history_without_panic":
            continue
        ctx.known_finding(f"class={cls} (C12) met in the panic-in-nested-fixpoint stage: {len(lst)} reads")
    cov = {
        "cases": len(triples), "reads": tot["reads"], "reads_that_unwound_with_the_injected_panic": tot["panicked"],
        "reads_after_a_panic": tot["reads_after_a_panic"],
        "same_revision_rereads_after_a_panic": tot["same_revision_rereads_after_a_panic"],
        "rereads_answered_PropagatedPanic_in_the_revision_of_the_panic": tot["propagated_in_the_revision_of_the_panic"],
        "oracle_findings": len(findings), "implementation_vs_model_disagreements": len(corr_diffs),
        "known_class_differences": {k: len(v) for k, v in known.items()},
        "feature_histogram": {k: feats[k] for k in sorted(feats) if k in (
            "iterate", "iterate>=2", "nested_heads", "provisional_left", "poisoned", "propagated_panic", "two_heads_iterating_in_one_get",
            "reexec", "validate", "finalize")},
        "rule": "generate_pn: nested/random fixpoint programs, one guarded member, fault on / read / off / re-read / write / read all; "
                "implementation == Cycle model at three levels; values == kleene of the guard-free twin",
        "sample": triples[0][0] if triples else None,
        "wall_s": round(time.time() - t0, 1),
    }
    ctx.coverage["cycle_panic_stage"] = cov
    ctx.coverage["evaluations"] = ctx.coverage.get("evaluations", 0) + len(triples)
    if "wall_s" in ctx.coverage:
        ctx.coverage["wall_s"] = round(ctx.coverage["wall_s"] + cov["wall_s"], 1)
    return cov


def replay(ctx, rp):
    harness, driver = _build()
    tr = (rp["case"], rp["baseline_case"], rp["twin_case"])
    impl, model = ce.run_both(list(tr), harness, driver, shards=1)
    corr, fs, kn, cnt = examine(tr, impl, model)
    gid = tr[0].split()[1]
    print("implementation:")
    print("\n".join(l for l in impl[gid] if l[0] in "RE"))
    print("model vs implementation:", corr or "agree")
    print("oracle findings:", fs or "none", "| known-class differences:", [(c, d["step"]) for c, d in kn])
    return 1 if (fs or corr) else 0

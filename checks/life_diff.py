#!/usr/bin/env python3
"""checks/life_diff.py — C23 lifetime engine: run generated sequential histories on the real
implementation (/verif/harness-life: hook H4 lifetime events, reference revalidation, poisoning /
quarantining / counting allocator) and replay every recorded trace through the machine extracted
from coq/Life/Model.v (/verif/.build/ocaml-life/replay).

    run_life(seed, tier) -> dict

Pipeline
  1. harness-life runs `shards` processes of `cases` generated histories each (at most 6 at a time;
     all but the last pinned to one CPU with taskset so that salsa creates 4 interned shards instead
     of 64 and interned slot reuse is reached often).  Every case: pass 1 recorded + poisoned +
     quarantined with reference revalidation, pass 2 counted (live allocations before the database
     is created = after it is dropped).
  2. every `T` line block is replayed: each real free must be a model free in a state where the
     model has no outstanding reference to the cell, no cell is freed twice, nothing is left at the
     end of drop, every hand-out is accepted by the model (interned contract, locks, bounds).
  3. optional (`miri=True`, thorough tier): a handful of small fixed histories under
     `cargo +nightly miri` with MIRIFLAGS='-Zmiri-disable-isolation -Zmiri-tree-borrows' — supporting
     information only.
Nothing here stands in for a theorem: it validates model-vs-code agreement and hunts for a failing
history.  The returned dict says which number is which.

Stand-alone:  python3 checks/life_diff.py [--seed N] [--tier quick|thorough] [--build] [--miri]
Environment:  LIFE_BIN, LIFE_REPLAY_BIN override the binaries (testing against a scratch worktree
              of /repo); LIFE_MIRI_DIR overrides the crate directory used for the Miri run.
"""
import collections
import concurrent.futures
import os
import re
import subprocess
import sys
import time

ROOT = os.path.dirname(os.path.dirname(os.path.abspath(__file__)))
sys.path.insert(0, ROOT)
from vplib import common as _common  # noqa: E402
LIFE_BIN = os.environ.get("LIFE_BIN", os.path.join(_common.target_dir("life"), "release/harness-life"))
REPLAY_BIN = os.environ.get("LIFE_REPLAY_BIN", os.path.join(ROOT, ".build/ocaml-life/replay"))
TRACE_DIR = os.path.join(ROOT, ".build/life-traces", str(os.getpid()))
MIRI_DIR = os.environ.get("LIFE_MIRI_DIR", os.path.join(ROOT, "harness-life"))

TIERS = {
    "quick": {"shards": 5, "cases": 400, "miri_cases": 0},
    "thorough": {"shards": 6, "cases": 8000, "miri_cases": 8},
}

# replayer messages that describe a memory-safety failure of the implementation (as opposed to a
# step the model merely transcribes differently)
SPEC_LEVEL = re.compile(
    r"premature or double free|a reference to the memo is outstanding|a reference into the slot is outstanding"
    r"|freed \d+ times|not freed at the end of drop|zdrop_end: cells|memory-error flag"
    r"|changed its value|never announced by alloc")


def build(jobs=6):
    """Build harness-life (hook cfg on) and the OCaml replayer."""
    env = dict(os.environ)
    env.update({"CARGO_NET_OFFLINE": "true", "RUSTFLAGS": "--cfg salsa_rs_salsa_verif",
                "CARGO_TARGET_DIR": _common.target_dir("life")})
    hdir = _common.crate_dir("harness-life")
    p = subprocess.run(["cargo", "build", "--offline", "--release", f"-j{jobs}"], cwd=hdir, env=env,
                       timeout=2400, stdout=subprocess.PIPE, stderr=subprocess.STDOUT, text=True)
    if p.returncode != 0:
        hint = ""
        if "verif_life" in p.stdout:
            hint = " (hook H4 — /verif/hooks/H4-lifetime.patch — is not applied to /repo)"
        raise RuntimeError(f"cargo build of harness-life failed{hint}\n{p.stdout[-3000:]}")
    p = subprocess.run([os.path.join(ROOT, "ocaml/life/build.sh"), ROOT], timeout=900,
                       stdout=subprocess.PIPE, stderr=subprocess.STDOUT, text=True)
    if p.returncode != 0:
        raise RuntimeError("building the life replayer failed\n" + p.stdout[-3000:])


def _shard_seed(seed, shard):
    return (seed * 1000003 + shard * 7919 + 17) % (1 << 62)


def _one_shard(seed, shard, cases, pin):
    os.makedirs(TRACE_DIR, exist_ok=True)
    sseed = _shard_seed(seed, shard)
    out_file = os.path.join(TRACE_DIR, f"life-{seed}-{shard}.txt")
    cmd = [LIFE_BIN, "--seed", str(sseed), "--cases", str(cases)]
    full = (["taskset", "-c", str(pin)] if pin is not None else []) + cmd
    run = {"shard": shard, "seed": sseed, "cases": cases, "cmd": cmd, "pinned": pin is not None,
           "trace_file": out_file, "exit": None, "harness_violations": [], "crash": None,
           "replay": None, "mismatches": [], "error": None, "stats": collections.Counter(),
           "coverage": {}, "nontrivial": 0, "cases_run": 0, "events": 0, "sample": None}
    if not os.path.exists(LIFE_BIN):
        run["error"] = f"missing binary {LIFE_BIN} (run build())"
        return run
    with open(out_file, "w") as out:
        p = subprocess.run(full, stdout=out, stderr=subprocess.PIPE, text=True, timeout=300 + cases)
    run["exit"] = p.returncode
    cur_case = None
    flags = set()
    sample = []
    with open(out_file) as f:
        for line in f:
            if line.startswith("T "):
                w = line.split(" ", 3)
                k = w[1].strip()
                if k in ("retire", "sdelete", "ireuse", "evict", "sreuse"):
                    flags.add(k)
                if cur_case is not None and len(sample) < 40 and run["sample"] is None:
                    sample.append(line[2:].rstrip("\n"))
            elif line.startswith("CASE "):
                w = line.split()
                cur_case = (int(w[1]), w[2])
                flags = set()
            elif line.startswith("V "):
                if len(run["harness_violations"]) < 5:
                    run["harness_violations"].append(
                        {"case": cur_case[0] if cur_case else None, "text": line[2:].strip(),
                         "reproduce": cmd[:3] + ["--first", str(cur_case[0] if cur_case else 0), "--cases", "1"]})
            elif line.startswith("S "):
                for kv in line[2:].split():
                    k, v = kv.split("=")
                    run["stats"][k] += int(v)
            elif line.startswith("END"):
                run["cases_run"] += 1
                # non-trivial: a memo was replaced while references may be outstanding AND something
                # was freed or dropped in place outside of drop (struct deletion, interned slot
                # reuse, LRU eviction)
                if "retire" in flags and flags & {"sdelete", "ireuse", "evict"}:
                    run["nontrivial"] += 1
                if run["sample"] is None and sample:
                    run["sample"] = sample
                cur_case = None
    if p.returncode not in (0, 1):
        # the harness died (signal / abort): the case announced last is the failing input
        run["crash"] = {"exit": p.returncode, "case": cur_case[0] if cur_case else None,
                        "stderr": p.stderr[-400:],
                        "reproduce": cmd[:3] + ["--first", str(cur_case[0] if cur_case else 0), "--cases", "1"]}
    if not os.path.exists(REPLAY_BIN):
        run["error"] = f"missing replayer {REPLAY_BIN} (run build())"
        return run
    r = subprocess.run([REPLAY_BIN, out_file], stdout=subprocess.PIPE, stderr=subprocess.STDOUT,
                       text=True, timeout=600 + cases)
    lines = r.stdout.strip().splitlines()
    run["replay"] = lines[-1] if lines else "no output"
    run["mismatches"] = [l for l in lines if l.startswith("MISMATCH")][:5]
    for l in lines:
        if l.startswith("COVERAGE "):
            _, k, v = l.split()
            run["coverage"][k] = int(v)
    m = re.match(r"(OK|FAIL)( \d+)? (\d+) (\d+)$", run["replay"])
    if m:
        run["events"] = int(m.group(4))
    elif r.returncode not in (0, 1):
        run["error"] = f"replayer exit {r.returncode}: {run['replay'][:300]}"
    return run


def run_miri(n_cases, seed):
    """A handful of small histories under Miri.  Supporting information, never the decider."""
    env = dict(os.environ)
    env.update({"CARGO_NET_OFFLINE": "true", "RUSTFLAGS": "--cfg salsa_rs_salsa_verif",
                "MIRIFLAGS": "-Zmiri-disable-isolation -Zmiri-tree-borrows",
                "CARGO_TARGET_DIR": os.path.join(ROOT, ".build/target-life-miri")})
    t0 = time.time()
    res = {"attempted": True, "cases": n_cases, "cmd": "cargo +nightly miri run --offline -- --seed S --cases N --small --no-count",
           "flags": "MIRIFLAGS='-Zmiri-disable-isolation -Zmiri-tree-borrows' (Tree Borrows; the harness's own "
                    "allocator is off under Miri). Stacked Borrows is not used: with hook H5 compiled in, its "
                    "verif_common() reads every LRU entry's metadata through raw pointers while intern_id holds "
                    "`&mut *value.lru.metadata.get()`, so SB flags the next use of that reference (salsa's own "
                    "`return metadata.id` included); with that one hook call removed the same histories pass under SB"}
    try:
        v = subprocess.run(["cargo", "+nightly", "miri", "--version"], stdout=subprocess.PIPE,
                           stderr=subprocess.STDOUT, text=True, timeout=60)
        res["version"] = v.stdout.strip()
        if v.returncode != 0:
            res.update(status="unavailable", detail=v.stdout[-400:])
            return res
        p = subprocess.run(["cargo", "+nightly", "miri", "run", "--offline", "-j6", "--",
                            "--seed", str(seed), "--cases", str(n_cases), "--small", "--no-count"],
                           cwd=MIRI_DIR, env=env, stdout=subprocess.PIPE, stderr=subprocess.PIPE,
                           text=True, timeout=1500)
    except subprocess.TimeoutExpired:
        res.update(status="timeout", wall_s=round(time.time() - t0, 1))
        return res
    except Exception as e:  # noqa: BLE001
        res.update(status="unavailable", detail=str(e)[-400:])
        return res
    res["wall_s"] = round(time.time() - t0, 1)
    ub = "Undefined Behavior" in p.stderr
    summary = [l for l in p.stdout.splitlines() if l.startswith("SUMMARY")]
    if p.returncode == 0 and summary and not ub:
        res.update(status="pass", summary=summary[-1])
    elif ub:
        i = p.stderr.index("Undefined Behavior")
        res.update(status="undefined-behavior-reported", detail=p.stderr[max(0, i - 200):i + 1500])
    else:
        res.update(status="failed-to-run", exit=p.returncode, detail=p.stderr[-800:])
    return res


def run_life(seed, tier="quick", miri=None):
    plan = TIERS[tier]
    shards = plan["shards"]
    jobs = []
    with concurrent.futures.ThreadPoolExecutor(max_workers=6) as ex:
        for s in range(shards):
            pin = None if s == shards - 1 else s % 6
            jobs.append(ex.submit(_one_shard, seed, s, plan["cases"], pin))
        runs = [j.result() for j in jobs]
    stats = collections.Counter()
    coverage = collections.Counter()
    for r in runs:
        stats.update(r["stats"])
        coverage.update(r["coverage"])
        # the trace of a clean shard is not kept (tens of MB each in the thorough tier); it is
        # reproducible from (seed, cases)
        clean = not (r["harness_violations"] or r["crash"] or r["mismatches"] or r["error"])
        if clean and os.path.exists(r["trace_file"]):
            os.remove(r["trace_file"])
    error = next((r["error"] for r in runs if r["error"]), None)
    first_violation = next((dict(v, shard=r["shard"]) for r in runs for v in r["harness_violations"]), None)
    first_crash = next((dict(r["crash"], shard=r["shard"]) for r in runs if r["crash"]), None)
    all_mismatches = [(r, m) for r in runs for m in r["mismatches"]]
    spec_mismatch = next(((r, m) for r, m in all_mismatches if SPEC_LEVEL.search(m)), None)
    first_mismatch = all_mismatches[0] if all_mismatches else None
    miri_res = {"attempted": False}
    want_miri = plan["miri_cases"] > 0 if miri is None else miri
    if want_miri:
        miri_res = run_miri(plan["miri_cases"] or 4, seed)

    def _mm(x):
        if x is None:
            return None
        r, m = x
        c = re.search(r"case=(\d+)", m)
        return {"text": m, "shard": r["shard"], "trace_file": r["trace_file"],
                "case": int(c.group(1)) if c else None,
                "reproduce": r["cmd"][:3] + ["--first", c.group(1) if c else "0", "--cases", "1"],
                "replayer": [REPLAY_BIN, r["trace_file"]]}

    ok = (error is None and first_violation is None and first_crash is None and first_mismatch is None
          and all(r["replay"] and r["replay"].startswith("OK") for r in runs))
    return {
        "seed": seed, "tier": tier, "ok": ok, "error": error,
        "runs": [{k: (dict(v) if isinstance(v, collections.Counter) else v) for k, v in r.items()
                  if k != "sample"} for r in runs],
        "cases": sum(r["cases_run"] for r in runs), "events": sum(r["events"] for r in runs),
        "nontrivial": sum(r["nontrivial"] for r in runs),
        "stats": dict(stats), "coverage": dict(sorted(coverage.items())),
        "first_violation": first_violation, "first_crash": first_crash,
        "spec_mismatch": _mm(spec_mismatch), "first_mismatch": _mm(first_mismatch),
        "sample": next((r["sample"] for r in runs if r["sample"]), None),
        "miri": miri_res,
        "what_is_what": "cases/events = generated histories run on the implementation and hook lines "
                        "replayed through the extracted machine (agreement validation and failing-input "
                        "search, not a proof); stats.reval = references re-read before the next &mut "
                        "operation; the theorems are in coq/Props/C23.v; miri = supporting only",
    }


def main(argv):
    import json
    seed = int(os.environ.get("VERIF_SEED", "1"))
    tier = "quick"
    do_build = False
    miri = None
    i = 1
    while i < len(argv):
        if argv[i] == "--seed":
            seed = int(argv[i + 1]); i += 2
        elif argv[i] == "--tier":
            tier = argv[i + 1]; i += 2
        elif argv[i] == "--build":
            do_build = True; i += 1
        elif argv[i] == "--miri":
            miri = True; i += 1
        else:
            print(__doc__); return 2
    if do_build:
        build()
    res = run_life(seed, tier, miri)
    slim = dict(res)
    slim["runs"] = [{k: v for k, v in r.items() if k not in ("cmd", "coverage")} for r in res["runs"]]
    print(json.dumps(slim, indent=1))
    return 0 if res["ok"] else 1


if __name__ == "__main__":
    sys.exit(main(sys.argv))

"""C21 — local cancellation unwinds only its own handle and leaves results correct."""
from checks import conccheck

NOTE = ("Proved for the token machine (any number of handles/threads, arbitrary nesting of disable guards and attach "
        "scopes): C21_own_only, C21_not_in_fixpoint, C21_reset; kernels k_tok_* translated from the Rust. The waiter "
        "retry after a Cancelled wait result belongs to the Proto layer (C19) and is exercised, not proved, here. "
        "Documented corner outside generated-code discipline: attach_allow_change A->B->A (Example allow_change_corner).")


def run(ctx):
    conccheck.run(ctx, "token", NOTE)


def replay(ctx, rp):
    return conccheck.replay(ctx, rp)

"""C01 — incremental results equal a from-scratch evaluation."""
from checks import seqcheck


def run(ctx):
    seqcheck.run_seq(ctx, ["general", "durability", "untracked", "lru"], n_quick=400, n_thorough=6000,
                     thm_note=open(__file__.replace("C01.py", "notes/C01.txt")).read())


def replay(ctx, rp):
    return seqcheck.replay(ctx, rp)

"""C09 — interned values are reclaimed only when stale and reclaimable."""
from checks import interncheck

NOTE = ("Proved for ALL operation sequences and every shard function: C09_only_if, C09_primed, C09_forever, "
        "C09_retention_rule (declarative rule = queue mechanics), C09_queue_decl, C09_durability_decl. "
        "Reading notes (faithful to the code, see DESIGN §7 C09): durability = the interning query's accumulated "
        "durability at the moment of interning; interning outside a query pins only when it creates the slot "
        "(C09_outside_fast_path_does_not_pin_refuted).")


def run(ctx):
    interncheck.run(ctx, NOTE)


def replay(ctx, rp):
    return interncheck.replay(ctx, rp)

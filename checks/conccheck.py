"""Shared check logic for C20 / C21 / C24: proofs over the Cancel / Alloc machines + replay of
abstract event traces recorded (hook H6) from the real crate under shuttle (alloc) or the
seeded OS-thread baton scheduler (writer, token), + harness-level specification checks."""
import os
import shutil
import time

from vplib import common
from checks import conc_diff


def run(ctx, profile, note, known_obs=None, extra_trusted=None):
    t0 = time.time()
    probs = common.audit()
    if probs:
        raise common.CheckError("audit failed: " + "; ".join(probs[:5]))
    proof_broken = None
    ok, log, _ = common.run_translator()
    if not ok:
        proof_broken = dict(kind="translation", detail=log[-3000:])
    rep = None
    if proof_broken is None:
        rep = common.props_report(ctx.prop)
        if not rep["ok"]:
            proof_broken = dict(kind="proof", detail=rep["log"][-3000:], theorems=rep["theorems"],
                                bad_axioms=rep["bad_axioms"])
    try:
        conc_diff.build(jobs=12)
    except Exception as e:
        raise common.CheckError("building harness-conc / replayer failed: " + str(e)[-3000:])
    fb = os.path.join(common.BUILD, "ocaml-conc", "KERNEL_FALLBACK")
    if os.path.exists(fb) and proof_broken is None:
        proof_broken = dict(kind="proof", detail="interface lemmas over the kernels translated from the current source no "
                            "longer check (replayer built from the hand-written kernels instead):\n" + open(fb).read()[-2500:])
    res = conc_diff.run_conc(profile, ctx.seed, ctx.tier)
    if res["error"]:
        raise common.CheckError("harness-conc %s: %s" % (profile, res["error"]))
    reported = False
    if res["first_violation"] is not None:
        keep = None
        if res["replay"] and res["replay"].get("trace_file") and os.path.exists(res["replay"]["trace_file"]):
            keep = os.path.join(common.ROOT, "replays", f"{ctx.prop}-{profile}-{ctx.seed}.jsonl")
            shutil.copy(res["replay"]["trace_file"], keep)
        ctx.violation(dict(kind="harness-level specification check failed on the implementation",
                           violation=res["first_violation"], reproduce=res["replay"], trace_file=keep))
        reported = True
    elif res["first_mismatch"] is not None:
        keep = None
        if res["replay"] and res["replay"].get("trace_file") and os.path.exists(res["replay"]["trace_file"]):
            keep = os.path.join(common.ROOT, "replays", f"{ctx.prop}-{profile}-{ctx.seed}.jsonl")
            shutil.copy(res["replay"]["trace_file"], keep)
        ctx.violation(dict(kind="correspondence model/implementation no longer holds",
                           relation=f"{profile} machine vs recorded event traces (outcomes and state after every step)",
                           first_mismatch=res["first_mismatch"], reproduce=res["replay"], trace_file=keep,
                           search=f"{res['traces']} schedules: every harness-level specification check passed"),
                      no_input=True)
        reported = True
    if not reported and proof_broken is not None:
        ctx.violation(dict(kind="proof obligation no longer checks", broken=proof_broken,
                           theorem_file=f"coq/Props/{ctx.prop}.v",
                           search=f"{res['traces']} schedules explored, all specification checks and replays pass"),
                      no_input=True)
    if known_obs and res["stats"].get(known_obs):
        for kf in common.known_findings():
            if kf["property"] == ctx.prop:
                ctx.known_finding(f"class={kf['class']} {kf['text']} (met {res['stats'][known_obs]} times in this run)")
    sample = None
    for r in res["runs"]:
        if os.path.exists(r["trace_file"]):
            with open(r["trace_file"]) as f:
                sample = f.readline()[:1500]
            break
    ctx.coverage.update({
        "obligations": rep["obligations"] if rep else 0,
        "discharged": rep["discharged"] if rep else 0,
        "checker_cmd": f"make -C coq Props/{ctx.prop}.vo  (coqc 8.16.1, Print Assumptions captured)",
        "trusted_base": common.TRUSTED_BASE_COMMON + [
            "hook H6 emits each event at the corresponding atomic step and reports truthfully",
            "the baton scheduler / shuttle produce the explored schedules; atomics behave sequentially consistently; critical sections are atomic",
        ] + (extra_trusted or []),
        "theorems": rep["statements"] if rep else [],
        "axioms_reported": rep["axioms"] if rep else [],
        "closed_under_global_context": rep["closed_count"] if rep else 0,
        "theorem_note": note,
        "evaluations": res["traces"],
        "events_replayed": res["events"],
        "distinct_nontrivial": res["traces"],
        "rule": "one evaluation = one explored schedule of the profile (seeded pct and random schedulers; shuttle for alloc, OS-thread baton scheduler for writer/token); every schedule has several threads and is counted non-trivial; distinctness is by (scheduler, seed, iteration) — identical interleavings are not deduplicated, so this is an upper bound",
        "traces_validated_against_impl": res["traces"] if res["first_mismatch"] is None else 0,
        "distribution": res["distribution"],
        "stats": res["stats"],
        "observations": res["observations"],
        "samples": [sample],
        "wall_s": round(time.time() - t0, 1),
    })
    ctx.assumptions = ["critical sections are atomic; atomics are sequentially consistent registers"]
    ctx.write_evidence("proof")
    shutil.rmtree(conc_diff.TRACE_DIR, ignore_errors=True)


def replay(ctx, rp):
    tf = rp.get("trace_file")
    if not tf or not os.path.exists(tf):
        print("no trace recorded:", rp.get("broken", rp.get("reproduce")))
        return 1
    rc, lg = common.sh([conc_diff.REPLAY_BIN, tf])
    print(lg[-3000:])
    return 0 if lg.strip().startswith("OK") else 1

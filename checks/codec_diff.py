# codec_diff.py -- differential test of the translated kernels (coq/gen/Kernels.v) and of
# the C25 codec model (coq/Codec/Model.v) against the compiled Rust through hook H3
# (salsa::verif_codec) and /verif/harness-codec.
#
# This is model validation (it ties the translator and the hand-written control structure of
# Codec/Model.v to the code); it never stands in for a theorem.
#
#   from codec_diff import run_codec_diff
#   result = run_codec_diff("/repo", seed=1, tier="quick")     # or "thorough"
#
# The same vectors are evaluated by the Rust harness (one line per vector on stdin) and by Coq
# (`Eval vm_compute` over coq/Codec/Flat.v, compiled with `coqc -Q <coq root> Salsa`; the .vo
# files of the main build must exist).  If `repo` is not /repo (a scratch checkout with the
# hook applied) a copy of the harness crate pointing at it is built under <build>/alt.
# Environment overrides (for development):
#   VERIF_COQ_ROOT    default /verif/coq
#   VERIF_BUILD_DIR   default /verif/.build
#   VERIF_CODEC_CRATE default /verif/harness-codec

import os
import random
import re
import subprocess
import time

U32 = 0xFFFFFFFF
MAX_INDEX = 0x7FFFFFFF
MAX_U32 = U32 - 0xFF            # Id::MAX_U32; valid indices are < MAX_U32

ING_CLASSES = [0, 1, 0xFFF, 0x1000, MAX_INDEX]
GEN_CLASSES = [0, 0xFFFFF, 0x100000, U32]
IDX_CLASSES = [0, 1, 127, 128, 0xFFFFF, MAX_U32 - 2, MAX_U32 - 1]

KIND_DERIVED = 3
KIND_UNTRACKED = 2


def _env(name, default):
    return os.environ.get(name, default)


# --------------------------------------------------------------------------- vectors
# a vector is (rust_line, coq_term, label)

def extra_term(flags):
    if flags == 0:
        return "(@None N)"
    code = (1280 if flags & 2 else 0) + 65536 * (1 if flags & 4 else 0)
    return "(Some %d)" % code


def deps_term(edges):
    if not edges:
        return "(@nil (bool * k_DatabaseKeyIndex))"
    return "[" + "; ".join("(%s, mk_key %d %d %d)" % ("true" if o else "false", ing, idx, gen)
                           for (o, ing, idx, gen) in edges) + "]"


def origin_vector(cmd, kind, flags, edges):
    line = "%s %d %d %d" % (cmd, kind, flags, len(edges))
    for (o, ing, idx, gen) in edges:
        line += " %d %d %d %d" % (1 if o else 0, ing, idx, gen)
    fn = {"origin": "f_origin", "serde_origin": "f_serde_origin"}[cmd]
    term = "%s %d %s %s" % (fn, kind, deps_term(edges), extra_term(flags))
    return (line, term, cmd)


def edge_alphabet():
    return [(o, ing, gen) for o in (False, True) for ing in ING_CLASSES for gen in GEN_CLASSES]


def origin_vectors(rng, tier, cmd="origin"):
    """exhaustive over the (kind, ingredient, generation) classes for short lists, index
    classes rotating; sampled for longer lists (up to length 40)"""
    alpha = edge_alphabet()
    out = []
    counter = [0]

    def mk(symbols):
        edges = []
        for (o, ing, gen) in symbols:
            idx = IDX_CLASSES[counter[0] % len(IDX_CLASSES)]
            counter[0] += 1
            edges.append((o, ing, idx, gen))
        kind = KIND_DERIVED if counter[0] % 2 == 0 else KIND_UNTRACKED
        flags = (counter[0] // 2) % 8
        return origin_vector(cmd, kind, flags, edges)

    exhaustive_len = 3 if tier == "thorough" else 2
    if cmd != "origin":
        exhaustive_len = 2 if tier == "thorough" else 1
    out.append(mk([]))
    for a in alpha:
        out.append(mk([a]))
    if exhaustive_len >= 2:
        for a in alpha:
            for b in alpha:
                out.append(mk([a, b]))
    if exhaustive_len >= 3:
        for a in alpha:
            for b in alpha:
                for c in alpha:
                    out.append(mk([a, b, c]))
    else:
        for _ in range(1500 if cmd == "origin" else 300):
            out.append(mk([rng.choice(alpha) for _ in range(3)]))
    # every kind x extra-flag combination on a fixed mixed list
    mixed = [(False, 1, 0), (True, 0xFFF, 0xFFFFF), (False, 0x1000, 0)]
    for kind in (KIND_DERIVED, KIND_UNTRACKED):
        for flags in range(8):
            edges = [(o, ing, IDX_CLASSES[i], gen) for i, (o, ing, gen) in enumerate(mixed)]
            out.append(origin_vector(cmd, kind, flags, edges))
            out.append(origin_vector(cmd, kind, flags, []))
    # sampled long lists: mostly packable inputs with the first wide edge at a random place
    n_long = (3000 if tier == "thorough" else 300) if cmd == "origin" else \
        (600 if tier == "thorough" else 100)
    packable = [a for a in alpha if not a[0] and a[1] <= 0xFFF and a[2] <= 0xFFFFF]
    for _ in range(n_long):
        n = rng.randint(4, 40)
        style = rng.random()
        if style < 0.4:
            syms = [rng.choice(packable) for _ in range(n)]
            if rng.random() < 0.7:
                syms[rng.randrange(n)] = rng.choice(alpha)
        else:
            syms = [rng.choice(alpha) for _ in range(n)]
        edges = []
        for (o, ing, gen) in syms:
            if rng.random() < 0.2:
                ing = rng.randint(0, MAX_INDEX)
                gen = rng.randint(0, U32)
            idx = rng.choice(IDX_CLASSES) if rng.random() < 0.7 else rng.randint(0, MAX_U32 - 1)
            edges.append((o, ing, idx, gen))
        out.append(origin_vector(cmd, rng.choice((KIND_DERIVED, KIND_UNTRACKED)),
                                 rng.randrange(8), edges))
    return out


def biased(rng, classes, hi):
    r = rng.random()
    if r < 0.6:
        return rng.choice(classes)
    if r < 0.8:
        v = rng.choice(classes) + rng.choice((-2, -1, 1, 2))
        return min(max(v, 0), hi)
    return rng.randint(0, hi)


def kernel_vectors(rng, tier):
    n = 400 if tier == "thorough" else 80
    out = [("consts", "f_consts", "consts")]
    revs = [1, 2, 3, 5, 1000, 2 ** 32, 2 ** 63, 2 ** 64 - 2, 2 ** 64 - 1]
    for _ in range(n):
        r0, r1, r2 = (rng.choice(revs) for _ in range(3))
        for d in range(4):
            out.append(("lcr %d %d %d %d" % (r0, r1, r2, d), "f_lcr %d %d %d %d" % (r0, r1, r2, d),
                        "lcr"))
            out.append(("rtw %d %d %d %d" % (r0, r1, r2, d), "f_rtw %d %d %d %d" % (r0, r1, r2, d),
                        "rtw"))
    for r in revs:
        out.append(("revnext %d" % r, "f_revnext %d" % r, "revnext"))
    for b in (0, 1):
        out.append(("chif %d" % b, "f_chif %d" % b, "chif"))
    stamps = set([0, 1, 199, 200, 201, 254, 255, 256, 456, 0xFFFF, 0xFF00, 0xFEC8, 0xFEC7,
                  200 + 256 * 7, 255 + 256 * 255])
    for _ in range(n):
        stamps.add(rng.randint(0, 0xFFFF))
    if tier == "thorough":
        stamps.update(range(0, 0x10000, 7))
    for s in sorted(stamps):
        out.append(("stamp %d" % s, "f_stamp %d" % s, "stamp"))
    for i in (0, 1, 199, 200, 201, 255):
        for c in (0, 1, 254, 255):
            out.append(("stampnew %d %d" % (i, c), "f_stampnew %d %d" % (i, c), "stampnew"))
    for c in range(256):
        out.append(("bump %d" % c, "f_bump %d" % c, "bump"))
    for idx in IDX_CLASSES + [MAX_U32, U32 - 1]:
        out.append(("idfi %d" % idx, "f_idfi %d" % idx, "idfi"))
    words = [0, 1, 2, 128, 129, MAX_U32, U32]
    gens = [0, 1, 0xFFFFF, 0x100000, U32 - 1, U32]
    for w in words:
        for g in gens:
            bits = w | (g << 32)
            g2 = rng.choice(gens)
            out.append(("idfb %d %d" % (bits, g2), "f_idfb %d %d" % (bits, g2), "idfb"))
            out.append(("split %d" % bits, "f_split %d" % bits, "split"))
    for _ in range(n):
        bits = rng.randint(0, 2 ** 64 - 1)
        g2 = rng.randint(0, U32)
        out.append(("idfb %d %d" % (bits, g2), "f_idfb %d %d" % (bits, g2), "idfb"))
        # split_id requires a valid Id (index word in 1..=MAX_U32)
        w = rng.randint(1, MAX_U32)
        bits = w | (rng.randint(0, U32) << 32)
        out.append(("split %d" % bits, "f_split %d" % bits, "split"))
    max_pages = MAX_U32 // 128
    for page in (0, 1, 2, 127, 128, max_pages - 2, max_pages - 1):
        for slot in (0, 1, 63, 126, 127):
            out.append(("mkid %d %d" % (page, slot), "f_mkid %d %d" % (page, slot), "mkid"))
    for _ in range(n):
        page, slot = rng.randint(0, max_pages - 1), rng.randint(0, 127)
        out.append(("mkid %d %d" % (page, slot), "f_mkid %d %d" % (page, slot), "mkid"))
    ings = ING_CLASSES + [MAX_INDEX + 1, MAX_INDEX + 2, 0x80000FFF, 0x80001000, U32 - 1, U32]
    for x in ings:
        out.append(("ing %d" % x, "f_ing %d" % x, "ing"))
    for _ in range(n):
        x = rng.randint(0, U32)
        out.append(("ing %d" % x, "f_ing %d" % x, "ing"))
    for ing in ING_CLASSES:
        for idx in IDX_CLASSES:
            for gen in GEN_CLASSES:
                out.append(("qe %d %d %d" % (ing, idx, gen), "f_qe %d %d %d" % (ing, idx, gen), "qe"))
    raw_ings = ings
    for ingraw in raw_ings:
        for gen in GEN_CLASSES + [0xFFFFE, 0x100001]:
            idx = rng.choice(IDX_CLASSES)
            out.append(("penew %d %d %d" % (ingraw, idx, gen),
                        "f_penew %d %d %d" % (ingraw, idx, gen), "penew"))
            out.append(("qeraw %d %d %d" % (idx, gen, ingraw),
                        "f_qeraw %d %d %d" % (idx, gen, ingraw), "qeraw"))
    for _ in range(4 * n):
        ingraw = biased(rng, raw_ings, U32)
        gen = biased(rng, GEN_CLASSES, U32)
        idx = biased(rng, IDX_CLASSES, MAX_U32 - 1)
        out.append(("penew %d %d %d" % (ingraw, idx, gen), "f_penew %d %d %d" % (ingraw, idx, gen),
                    "penew"))
        meta = biased(rng, [0, 0xFFFFF, 0x100000, 0xFFF00000, U32], U32)
        idx2 = rng.randint(0, U32)
        out.append(("peedge %d %d" % (idx2, meta), "f_peedge %d %d" % (idx2, meta), "peedge"))
    for u in (0, 1):
        for wd in (0, 1):
            for x in (0, 1):
                out.append(("tag %d %d %d" % (u, wd, x), "f_tag %d %d %d" % (u, wd, x), "tag"))
    for st in range(256):
        out.append(("tok %d" % st, "f_tok %d" % st, "tok"))
    qrevs = [1, 2, 3, 5, 7, 9, 100]
    for _ in range(n):
        length = rng.randint(1, 5)
        q = sorted((rng.choice(qrevs) for _ in range(length)), reverse=True)
        if rng.random() < 0.3:
            q = [1] * length
        r = rng.choice(qrevs + [q[0], q[0] + 1, q[-1], max(q[-1] - 1, 1)])
        out.append(("rq %d %s" % (r, " ".join(map(str, q))),
                    "f_rq %d [%s]" % (r, "; ".join(map(str, q))), "rq"))
    for ing in ING_CLASSES:
        for flags in (0, 1, 2, 7):
            idx, gen = rng.choice(IDX_CLASSES), rng.choice(GEN_CLASSES)
            out.append(("assigned %d %d %d %d" % (ing, idx, gen, flags),
                        "f_assigned (mk_key %d %d %d) %s" % (ing, idx, gen, extra_term(flags)),
                        "assigned"))
    return out


def serde_vectors(rng, tier):
    out = []
    ings = ING_CLASSES + [MAX_INDEX + 1, 0x80000FFF, U32]
    for ingraw in ings:
        for gen in GEN_CLASSES:
            for idx in IDX_CLASSES:
                out.append(("serde_edge %d %d %d" % (idx, gen, ingraw),
                            "f_serde_edge %d %d %d" % (idx, gen, ingraw), "serde_edge"))
    out += origin_vectors(rng, tier, cmd="serde_origin")
    return out


# --------------------------------------------------------------------------- running

def build_harness(persistence, repo="/repo"):
    crate = _env("VERIF_CODEC_CRATE", "/verif/harness-codec")
    build = _env("VERIF_BUILD_DIR", "/verif/.build")
    if os.path.realpath(repo) != "/repo":
        # a scratch checkout: build a copy of the crate whose path dependency points at it
        import shutil
        alt = os.path.join(build, "harness-codec-alt")
        os.makedirs(os.path.join(alt, "src"), exist_ok=True)
        for name in ("Cargo.lock", "rust-toolchain.toml", "src/main.rs"):
            shutil.copyfile(os.path.join(crate, name), os.path.join(alt, name))
        with open(os.path.join(crate, "Cargo.toml")) as fh:
            toml = fh.read().replace('path = "/repo"', 'path = "%s"' % os.path.realpath(repo))
        with open(os.path.join(alt, "Cargo.toml"), "w") as fh:
            fh.write(toml)
        crate = alt
        build = os.path.join(build, "alt")
    target = os.path.join(build, "target-codec-persist" if persistence else "target-codec")
    env = dict(os.environ)
    env["CARGO_NET_OFFLINE"] = "true"
    env["CARGO_TARGET_DIR"] = target
    env["RUSTFLAGS"] = "--cfg salsa_rs_salsa_verif"
    env.setdefault("CARGO_BUILD_JOBS", "8")
    cmd = ["cargo", "build", "--offline", "--release"]
    if persistence:
        cmd += ["--features", "persistence"]
    p = subprocess.run(cmd, cwd=crate, env=env, stdout=subprocess.PIPE, stderr=subprocess.STDOUT,
                       text=True, timeout=1800)
    if p.returncode != 0:
        raise RuntimeError("harness-codec build failed:\n" + p.stdout[-4000:])
    return os.path.join(target, "release", "verif-harness-codec")


def run_rust(binary, vectors):
    data = "\n".join(v[0] for v in vectors) + "\n"
    p = subprocess.run([binary], input=data, stdout=subprocess.PIPE, stderr=subprocess.PIPE,
                       text=True, timeout=1800)
    if p.returncode != 0:
        raise RuntimeError("harness-codec exited with %d: %s" % (p.returncode, p.stderr[-2000:]))
    lines = p.stdout.split("\n")
    if lines and lines[-1] == "":
        lines.pop()
    if len(lines) != len(vectors):
        raise RuntimeError("harness-codec printed %d lines for %d vectors"
                           % (len(lines), len(vectors)))
    out = []
    for line in lines:
        if line.startswith("ERR"):
            out.append(line)
        else:
            out.append([int(x) for x in line.split()])
    return out


COQ_HEADER = """From Coq Require Import NArith Bool List.
From Salsa.gen Require Import Kernels.
From Salsa.Codec Require Import Model Flat.
Import ListNotations.
Open Scope N_scope.
Set Printing Width 2000000000.
Set Printing Depth 2000000000.
"""

BATCH = 40


def run_coq(vectors, tag):
    root = _env("VERIF_COQ_ROOT", "/verif/coq")
    build = _env("VERIF_BUILD_DIR", "/verif/.build")
    work = os.path.join(build, "codec-diff")
    os.makedirs(work, exist_ok=True)
    for need in ("gen/Kernels.vo", "Codec/Model.vo", "Codec/Flat.vo"):
        if not os.path.exists(os.path.join(root, need)):
            raise RuntimeError("%s is missing under %s: run the main Coq build first" % (need, root))
    path = os.path.join(work, "Cases_%s.v" % tag)
    with open(path, "w") as fh:
        fh.write(COQ_HEADER)
        for i in range(0, len(vectors), BATCH):
            terms = "; ".join("(%s)" % v[1] for v in vectors[i:i + BATCH])
            fh.write("Eval vm_compute in [%s].\n" % terms)
    p = subprocess.run(["coqc", "-Q", root, "Salsa", path], cwd=work, stdout=subprocess.PIPE,
                       stderr=subprocess.PIPE, text=True, timeout=3600)
    if p.returncode != 0:
        raise RuntimeError("coqc failed on %s: %s" % (path, (p.stderr or p.stdout)[-3000:]))
    results = []
    for m in re.finditer(r"=\s*(\[.*?\])\s*:\s*list \(list N\)", p.stdout, re.S):
        body = m.group(1)
        for inner in re.finditer(r"\[([0-9;\s]*)\]", body[1:-1]):
            txt = inner.group(1).strip()
            results.append([int(x) for x in txt.split(";")] if txt else [])
    if len(results) != len(vectors):
        raise RuntimeError("coq printed %d results for %d vectors" % (len(results), len(vectors)))
    for ext in (".vo", ".vok", ".vos", ".glob"):
        try:
            os.remove(path[:-2] + ext)
        except OSError:
            pass
    return results


def compare(vectors, rust, coq, summary):
    for v, r, c in zip(vectors, rust, coq):
        kind = v[2]
        s = summary["by_kind"].setdefault(kind, {"cases": 0, "mismatches": 0})
        s["cases"] += 1
        summary["cases"] += 1
        if r != c:
            s["mismatches"] += 1
            summary["mismatches"] += 1
            if summary["first_mismatch"] is None:
                summary["first_mismatch"] = {"vector": v[0], "coq_term": v[1], "rust": r, "coq": c}


def run_codec_diff(repo, seed, tier):
    """Generate boundary-class vectors, evaluate them in Rust and in Coq, compare.
    Returns {"cases", "mismatches", "first_mismatch", "by_kind", "seed", "tier", ...}."""
    if tier not in ("quick", "thorough"):
        raise ValueError("tier must be quick or thorough")
    if not os.path.exists(os.path.join(repo, "src", "verif_codec.rs")):
        raise RuntimeError("hook H3 (src/verif_codec.rs) is not applied to %s" % repo)
    rng = random.Random(seed)
    summary = {"cases": 0, "mismatches": 0, "first_mismatch": None, "by_kind": {},
               "seed": seed, "tier": tier, "repo": repo, "what": "model validation, not proof"}
    t0 = time.time()
    main_vectors = kernel_vectors(rng, tier) + origin_vectors(rng, tier)
    binary = build_harness(False, repo)
    t1 = time.time()
    rust = run_rust(binary, main_vectors)
    t2 = time.time()
    coq = run_coq(main_vectors, "main_%s" % seed)
    t3 = time.time()
    compare(main_vectors, rust, coq, summary)
    sv = serde_vectors(rng, tier)
    pbinary = build_harness(True, repo)
    t4 = time.time()
    prust = run_rust(pbinary, sv)
    pcoq = run_coq(sv, "serde_%s" % seed)
    t5 = time.time()
    compare(sv, prust, pcoq, summary)
    summary["seconds"] = {"build": round(t1 - t0, 1), "rust": round(t2 - t1, 1),
                          "coq": round(t3 - t2, 1), "serde_build": round(t4 - t3, 1),
                          "serde": round(t5 - t4, 1)}
    summary["ok"] = summary["mismatches"] == 0
    return summary


if __name__ == "__main__":
    import json
    import sys
    tier_ = sys.argv[1] if len(sys.argv) > 1 else "quick"
    seed_ = int(os.environ.get("VERIF_SEED", "1"))
    res = run_codec_diff(sys.argv[2] if len(sys.argv) > 2 else "/repo", seed_, tier_)
    print(json.dumps(res, indent=1))
    sys.exit(0 if res["ok"] else 1)

"""C11 — accumulated values equal those of a from-scratch execution.

Proofs: coq/Props/C11.v (over coq/Acc).  Tie: implementation (harness/src/acc_harness.rs) vs
extracted Acc model at values / events / state, implementation vs the extracted specification
`spec_acc` (column V), and an independent reference interpreter (below) that evaluates the
case text from scratch in Python and performs the depth-first collection itself."""
import os

from vplib import accengine as ae
from vplib import diffcheck
from vplib import seqengine as se


from vplib.refinterp import Ref, case_sections


def oracle(case, impl_lines, model_lines):
    """Implementation only: every `accumulated` returns the reference interpreter's depth-first
    collection of a fresh evaluation at the current inputs, and every `get` its value."""
    a = se.split_lines(impl_lines)
    nk, _ni, inputs, nodes, hist = case_sections(se.parse_sx(case))
    cells = {}
    for i, op in enumerate(hist):
        got = a["R"].get(i)
        if got is None:
            return None
        if op[0] == "set" and not got.startswith("panic"):
            inputs[(int(op[1]), int(op[2]))] = int(op[3])
        elif op[0] == "setcell":
            cells[int(op[1])] = int(op[2])
        elif op[0] in ("get", "accumulated") and not got.startswith("panic"):
            ref = Ref(nodes, nk, inputs, cells)
            try:
                if op[0] == "get":
                    want = "ret %d" % ref.node(int(op[1]), int(op[2])).value
                else:
                    want = "acc [%s]" % ",".join(str(v) for v in ref.accumulated(int(op[1]), int(op[2])))
            except RecursionError:
                continue
            if got != want:
                return dict(level="oracle", step=i, impl=got, reference=want,
                            why="accumulated/get differs from the reference interpreter's fresh evaluation")
    return None


NOTE = open(os.path.join(os.path.dirname(__file__), "notes", "C11.txt")).read() \
    if os.path.exists(os.path.join(os.path.dirname(__file__), "notes", "C11.txt")) else ""


def run(ctx):
    diffcheck.run_diff(
        ctx, ae, ["accumulate", "acc-never", "acc-lru", "acc-flip"], n_quick=450, n_thorough=6000, oracle=oracle,
        rule_text="a case counts as non-trivial when, in the model's own log, some `accumulated` returned a "
                  "non-empty list AND at least one memo was re-executed after its first execution AND at least one "
                  "memo was validated without execution",
        extra_assumptions=["one accumulator type (the AccumulatedMap is a single list); `accumulated` is called "
                           "outside tracked functions (so its report_untracked_read is a no-op)"],
        thm_note=NOTE)


def replay(ctx, rp):
    return diffcheck.replay(ctx, ae, rp, oracle=oracle)

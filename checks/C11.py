"""C11 — accumulated values equal those of a from-scratch execution.

Proofs: coq/Props/C11.v (over coq/Acc).  Tie: implementation (harness/src/acc_harness.rs) vs
extracted Acc model at values / events / state, implementation vs the extracted specification
`spec_acc` (column V), and an independent reference interpreter (below) that evaluates the
case text from scratch in Python and performs the depth-first collection itself."""
import os

from vplib import accengine as ae
from vplib import diffcheck
from vplib import seqengine as se


# ------------------------------------------------------------------ reference interpreter
def _binop(o, a, b):
    if o == "add":
        return (a + b) % 256
    if o == "sub":
        return (a - b) % 256
    if o == "min":
        return min(a, b)
    if o == "max":
        return max(a, b)
    if o == "and":
        return a & b
    if o == "or":
        return a | b
    if o == "eq":
        return int(a == b)
    if o == "lt":
        return int(a < b)
    if o == "shr":
        return a >> (b % 8)
    raise ValueError(o)


class Ref:
    """From-scratch evaluation of a program at the current inputs/cells: per node its value,
    the values it pushes (push order) and the functions it calls (call order)."""

    def __init__(self, nodes, nk, inputs, cells):
        self.nodes, self.nk, self.inputs, self.cells = nodes, nk, inputs, cells
        self.memo = {}

    def node(self, fam, key):
        if (fam, key) in self.memo:
            return self.memo[(fam, key)]
        pushes, callees = [], []
        e = self.nodes.get((fam, key))
        v = self.ev(e, pushes, callees) if e is not None else 0
        self.memo[(fam, key)] = (v, pushes, callees)
        return self.memo[(fam, key)]

    def ev(self, e, pushes, callees):
        t = e[0]
        if t == "lit":
            return int(e[1])
        if t == "in":
            return self.inputs[(int(e[1]), int(e[2]))]
        if t == "call":
            k = self.ev(e[2], pushes, callees) % self.nk
            callees.append((int(e[1]), k))
            return self.node(int(e[1]), k)[0]
        if t == "cell":
            return self.cells.get(int(e[1]), 0)
        if t in ("touch", "panicif"):
            return 0
        if t == "op":
            a = self.ev(e[2], pushes, callees)
            b = self.ev(e[3], pushes, callees)
            return _binop(e[1], a, b)
        if t == "if":
            return self.ev(e[2], pushes, callees) if self.ev(e[1], pushes, callees) != 0 else self.ev(e[3], pushes, callees)
        if t == "acc":
            v = self.ev(e[1], pushes, callees)
            pushes.append(v)
            return v
        raise ValueError(t)

    def accumulated(self, fam, key):
        out, seen = [], set()

        def visit(q):
            if q in seen:
                return
            seen.add(q)
            _, pushes, callees = self.node(*q)
            out.extend(pushes)
            for c in callees:
                visit(c)
        visit((fam, key))
        return out


def oracle(case, impl_lines, model_lines):
    """Implementation only: every `accumulated` returns the reference interpreter's depth-first
    collection of a fresh evaluation at the current inputs, and every `get` its value."""
    a = se.split_lines(impl_lines)
    tree = se.parse_sx(case)

    def sec(name):
        return next((x for x in tree[2:] if isinstance(x, list) and x and x[0] == name), [name])[1:]
    cfg = {x[0]: x[1:] for x in sec("cfg") if isinstance(x, list)}
    nk = int(cfg["nk"][0])
    inputs = {}
    for i in range(max(int(cfg["ni"][0]), nk)):
        for f in range(3):
            inputs[(i, f)] = 0
    for i, f, v in sec("ival"):
        inputs[(int(i), int(f))] = int(v)
    nodes = {(int(n[1]), int(n[2])): n[3] for n in sec("prog")}
    cells = {}
    for i, op in enumerate(sec("hist")):
        got = a["R"].get(i)
        if got is None:
            return None
        if op[0] == "set" and not got.startswith("panic"):
            inputs[(int(op[1]), int(op[2]))] = int(op[3])
        elif op[0] == "setcell":
            cells[int(op[1])] = int(op[2])
        elif op[0] in ("get", "accumulated") and not got.startswith("panic"):
            ref = Ref(nodes, nk, inputs, cells)
            try:
                if op[0] == "get":
                    want = "ret %d" % ref.node(int(op[1]), int(op[2]))[0]
                else:
                    want = "acc [%s]" % ",".join(str(v) for v in ref.accumulated(int(op[1]), int(op[2])))
            except RecursionError:
                continue
            if got != want:
                return dict(level="oracle", step=i, impl=got, reference=want,
                            why="accumulated/get differs from the reference interpreter's fresh evaluation")
    return None


NOTE = open(os.path.join(os.path.dirname(__file__), "notes", "C11.txt")).read() \
    if os.path.exists(os.path.join(os.path.dirname(__file__), "notes", "C11.txt")) else ""


def run(ctx):
    diffcheck.run_diff(
        ctx, ae, ["accumulate", "acc-never", "acc-lru"], n_quick=450, n_thorough=6000, oracle=oracle,
        rule_text="a case counts as non-trivial when, in the model's own log, some `accumulated` returned a "
                  "non-empty list AND at least one memo was re-executed after its first execution AND at least one "
                  "memo was validated without execution",
        extra_assumptions=["one accumulator type (the AccumulatedMap is a single list); `accumulated` is called "
                           "outside tracked functions (so its report_untracked_read is a no-op)"],
        thm_note=NOTE)


def replay(ctx, rp):
    return diffcheck.replay(ctx, ae, rp)

"""C10 — specified results are returned for their key and are path-independent."""
from vplib import structsengine as st


def oracle(case, impl_lines, model_lines):
    """On the implementation's own records:
    (1) the body of a specifiable function never runs (no WillExecute) in a step for a key whose
        memo, before the step, was Assigned and already verified in the current revision;
    (2) an Assigned memo always names an assigner that lists the key among its output edges,
        as long as the assigner's memo is from the same revision;
    (3) a specify-misuse panic (foreign struct / twice) never stores or alters a memo of the key's
        family in that step beyond what the model says (checked by the state-level comparison)."""
    a = st.split_lines(impl_lines)
    prev = None
    for i in sorted(a["R"]):
        s_txt = a["S"].get(i)
        if s_txt is None:
            return None
        sv = st.parse_state(s_txt)
        if prev is not None:
            for e in a["E"].get(i, "").split():
                if e.startswith("x:3."):
                    loc = ".".join(e[2:].split(".")[:2])
                    old = prev["memo"].get(loc)
                    if old and old["origin"].startswith("a") and old["ver"] == sv["rev"] and prev["rev"] == sv["rev"] \
                            and prev["slots"].get(int(loc.split(".")[1]), {}).get("live"):
                        return dict(level="oracle", step=i, why=f"body of {e[2:]} ran although the key was specified and verified in this revision")
        for k, m in sv["memo"].items():
            if m["origin"].startswith("a"):
                by = m["origin"][1:]
                bloc = ".".join(by.split(".")[:2])
                bm = sv["memo"].get(bloc)
                if bm is not None and bm["ver"] == m["ver"] and bm["origin"] in ("d", "u") and bm["dur"] != 3:
                    fam, ix = k.split(".")
                    if not any(ed.startswith(f"o.{fam}.{ix}.") for ed in bm["edges"]):
                        return dict(level="oracle", step=i, why=f"{k} is assigned by {by}, whose memo (same revision) has no output edge to it")
        prev = sv
    return None


def run(ctx):
    st.run_structs(ctx, ["specify", "misuse", "structs"], n_quick=450, n_thorough=6000, oracle=oracle,
                   owns_spec_diffs=True,
                   nontrivial_rule=lambda f: "assigned_memo" in f and "validate_specified" in f and "reexec" in f,
                   thm_note=open(__file__.replace("C10.py", "notes/C10.txt")).read())


def replay(ctx, rp):
    return st.replay(ctx, rp)

"""C19 — waiting threads are always woken and waits never form a cycle.
Proofs over the Proto model + state-level correspondence by replaying every protocol
trace recorded from the real implementation (hook H2) through the extracted model."""
import os
import re
import shutil
import time

from vplib import common

NOTE = ("Proved for every trace of the step alphabet (any number of threads and keys) that satisfies the client "
        "preconditions: C19_protocol (I1 grounded/acyclic edges, I2 dependents bijection, I3 transferred forest through "
        "every branch of transfer_lock incl. re-rooting), C19_step_preserves_Inv, C19_no_wait_cycle (I1+I6), "
        "C19_cycle_reported, C19_woken_exactly_once (I4), C19_release_wakes_all / C19_release_target_wakes_all (I5). "
        "Conditional on two client hypotheses that are NOT documented Rust preconditions and are only checked on every "
        "replayed trace (never violated): (a) the Vacant-branch condition of transfer_lock (~reaches new_owner query); "
        "(b) the debug_assert of update_transferred_edges does not fire. Fuel exhaustion / expect()/unwrap() errors are "
        "excluded by hypothesis. See C19_vacant_branch_needs_transfer_pre, C19_edge_assert_is_an_obligation.")


SHUTTLE_WORKLOADS = ["acyclic", "cycle_ab", "cycle_ab_fb", "nested3", "deep", "deep_cond", "deep_cond_changed", "random_graph"]
CIRCULAR = "transfer_target_search_wakes_wrong_thread"


def listed(prop, cls):
    return any(k["property"] == prop and k["class"] == cls for k in common.known_findings())


def known_death(log, failed_trace):
    """Recogniser of the ONE class of harness death that may be a known finding
    (checks/notes/C19-circular-blocked-edges.txt), by mechanism:
      (1) the process died with salsa's own debug assertion of update_transferred_edges
          ("Circular reference between blocked edges"), and
      (2) (shuttle runs, where the H2 trace of the failing execution is kept) that trace replays
          through the Proto model without any mismatch — every recorded step enabled, every client
          precondition satisfied, i.e. the state is reachable by a valid client — and the
          transfer step the dying thread was performing (reconstructed from its last `mark` /
          `syncstate` records) satisfies the client precondition and is answered EEdgeCycle by the
          model: hypothesis (b) of C19_protocol, the assertion itself.
    -> (class, detail) or None"""
    if "Circular reference between blocked edges" not in log:
        return None
    if failed_trace is None:
        return (CIRCULAR, "OS threads: salsa's assertion message (no trace of the failing run is kept)")
    if not os.path.exists(failed_trace):
        return None
    lines = [l for l in open(failed_trace).read().split("\n") if l.strip()]
    # the dying thread's last records: mark T K' -> OWNER.. ; syncstate T K ..; [wake ..]*
    marks = [l.split() for l in lines if len(l.split()) > 2 and l.split()[2] == "mark"]
    syncs = [l.split() for l in lines if len(l.split()) > 2 and l.split()[2] == "syncstate"]
    if not marks or not syncs:
        return None
    mk, sy = marks[-1], syncs[-1]
    if mk[3] != sy[3] or "->" not in mk:
        return None
    owner = mk[mk.index("->") + 1:]
    if len(owner) != 2:
        return None
    step = f"{len(lines)} {mk[1]} transfer {mk[3]} {sy[4]} {mk[4]} {owner[0]} {owner[1]} -> 1"
    tmp = failed_trace + ".with-transfer.trace"
    with open(tmp, "w") as f:
        f.write("\n".join(lines + [step]) + "\n")
    rc, lg = common.sh([os.path.join(common.BUILD, "ocaml-proto", "replay"), tmp], timeout=600)
    os.unlink(tmp)
    m = re.search(r"MISMATCH line (\d+) \S+ (.*)", lg)
    if m and int(m.group(1)) == len(lines) + 1 and "EEdgeCycle" in m.group(2):
        return (CIRCULAR, f"trace of {len(lines)} records replays through the Proto model (valid client, reachable state); the "
                          f"pending `{step.split(' ', 2)[2]}` satisfies the client precondition and the model answers EEdgeCycle")
    return None


def run(ctx):
    t0 = time.time()
    probs = common.audit()
    if probs:
        raise common.CheckError("audit failed: " + "; ".join(probs[:5]))
    proof_broken = None
    ok, log, _ = common.run_translator()
    if not ok:
        proof_broken = dict(kind="translation", detail=log[-3000:])
    rep = None
    if proof_broken is None:
        rep = common.props_report("C19")
        if not rep["ok"]:
            proof_broken = dict(kind="proof", detail=rep["log"][-3000:], theorems=rep["theorems"])
    okm, logm = common.coq_make(["Proto/Model.vo"])
    if not okm:
        raise common.CheckError("Proto/Model.v does not compile:\n" + logm[-2000:])
    common.sh([os.path.join(common.ROOT, "ocaml/proto/build.sh")], timeout=900, check=True)
    rel_sh = common.cargo_build("harness-proto", "shuttle")
    iters = 60 if ctx.tier == "quick" else 1500
    out = os.path.join(common.BUILD, "proto-traces", f"{ctx.prop}-{ctx.seed}-{os.getpid()}")
    shutil.rmtree(out, ignore_errors=True)
    os.makedirs(out)
    runs = []
    crashed = False
    known_met = {}
    # one harness process per (scheduler, workload): a workload that dies under its schedule must not
    # keep the workloads behind it from running
    for sched, wl in [(s, w) for s in (["pct"] if ctx.tier == "quick" else ["pct", "random"]) for w in SHUTTLE_WORKLOADS]:
        d = os.path.join(out, f"sh-{sched}-{wl}")
        os.makedirs(d)
        rc, lg = common.sh([os.path.join(rel_sh, "proto_harness"), "--out", d, "--iters", str(iters),
                            "--seed", str(ctx.seed), "--scheduler", sched, "--workload", wl], timeout=3000)
        if rc != 0:
            cls = known_death(lg, d + ".FAILED")
            if cls is not None and listed(ctx.prop, cls[0]):
                # the one class of death that is a listed known finding, recognised by mechanism
                # (salsa's own assertion + the recorded trace replayed through the model); the
                # complete traces recorded before the death are still replayed
                known_met.setdefault(cls[0], []).append(dict(scheduler=sched, workload=wl, detail=cls[1],
                                                              traces_before_the_death=len(os.listdir(d))))
                runs.append(d)
                continue
            if "panicked" in lg or "shuttle::replay" in lg or "deadlock" in lg.lower() or rc < 0:
                # the workload died under a shuttle-controlled schedule (a panic inside salsa, a
                # deadlock or step-bound hit reported by shuttle): that is a concrete failing
                # schedule of the implementation, not a broken check
                keep = None
                if os.path.exists(d + ".FAILED"):
                    keep = os.path.join(common.ROOT, "replays", f"C19-failed-trace-{ctx.seed}-{sched}-{wl}.txt")
                    os.makedirs(os.path.dirname(keep), exist_ok=True)
                    shutil.copy(d + ".FAILED", keep)
                crash = dict(kind="the protocol workload failed under a shuttle-controlled schedule (panic inside salsa / deadlock / "
                                  "step bound): a waiting thread was not woken correctly or a wait closed a cycle",
                             scheduler=sched, workload=wl, harness_seed=ctx.seed, iters=iters, exit_status=rc,
                             recognised_class=cls[0] if cls else None, class_detail=cls[1] if cls else None,
                             salsa_assertion=next((m for m in ("Circular reference between blocked edges",) if m in lg), None),
                             protocol_trace_up_to_the_failure=keep, output_tail=lg[-2500:],
                             how_to_replay=f"{os.path.join(rel_sh, 'proto_harness')} --out <dir> --iters {iters} --seed {ctx.seed} "
                                           f"--scheduler {sched} --workload {wl}   (shuttle prints the failing schedule; save it to a "
                                           "file and pass --replay FILE to re-run that one execution)")
                ctx.violation(crash)
                crashed = True
                continue
            raise common.CheckError("proto_harness (shuttle) failed:\n" + lg[-3000:])
        runs.append(d)
    # OS-thread build: panicking / cancellation workloads (shuttle treats unwinding as failure)
    cdir = common.crate_dir("harness-proto")
    tdir = common.target_dir("std")
    rc, lg = common.sh(["cargo", "build", "--offline", "--release", "--no-default-features"], cwd=cdir,
                       timeout=2400, env={"CARGO_TARGET_DIR": tdir, "RUSTFLAGS": f"--cfg {common.GUARD}"})
    if rc != 0:
        raise common.CheckError("cargo build harness-proto (std threads) failed:\n" + lg[-3000:])
    d = os.path.join(out, "std")
    os.makedirs(d)
    import subprocess
    try:
        rc, lg = common.sh([os.path.join(tdir, "release", "proto_harness"), "--out", d,
                            "--iters", str(max(10, iters // 4)), "--seed", str(ctx.seed)], timeout=900)
    except subprocess.TimeoutExpired as e:
        # the free-running workloads take seconds: not finishing within 15 minutes is a hang (threads waiting
        # for each other, or spinning in Edges::depends_on on a cyclic edge map)
        rc, lg = -9, "panicked: (none) — the OS-thread workload did not finish within 900 s: HANG\n" + str(e.output or "")[-1500:]
    cls = known_death(lg, None) if rc != 0 else None
    if cls is not None and listed(ctx.prop, cls[0]):
        known_met.setdefault(cls[0], []).append(dict(scheduler="os", workload="(free running)", detail=cls[1]))
        runs.append(d)
    elif rc != 0:
        if "panicked" in lg or rc < 0 or rc in (101, 134):     # 101 = a Rust panic reached main (the free-running harness keeps
                                                               # the panic hook quiet), 134 = abort

            ctx.violation(dict(kind="the protocol workload on OS threads died with a panic (an assertion inside salsa fired / a "
                                    "waiter was not woken): concrete failing run", harness_seed=ctx.seed, exit_status=rc,
                               output_tail=lg[-2500:]))
            crashed = True
        else:
            raise common.CheckError("proto_harness (std threads) failed:\n" + lg[-3000:])
    else:
        runs.append(d)
    if not runs:
        ctx.coverage.update({"obligations": rep["obligations"] if rep else 0, "discharged": rep["discharged"] if rep else 0,
                             "checker_cmd": "make -C coq Props/C19.vo", "trusted_base": common.TRUSTED_BASE_COMMON,
                             "note": "every workload run died under its schedule; nothing could be replayed"})
        ctx.write_evidence("proof")
        return
    rc, lg = common.sh([os.path.join(common.BUILD, "ocaml-proto", "replay")] + runs, timeout=3000)
    m = re.search(r"TOTAL files=(\d+) ok=(\d+) mismatch=(\d+) steps=(\d+)", lg)
    if not m:
        raise common.CheckError("replay produced no TOTAL line:\n" + lg[-2000:])
    files, okn, mism, steps = map(int, m.groups())
    cov = dict(re.findall(r"COVERAGE (\S.*?) (\d+)$", lg, re.M))
    mismatches = [l for l in lg.split("\n") if l.startswith("MISMATCH")]
    if mism or proof_broken is not None:
        # a trace that the proved model rejects: either a step not enabled / different outcome
        # (correspondence) or a violated client precondition.  The replayer itself checks the
        # specification-level facts (each woken thread receives exactly the logged result, no
        # blocked edge closes a cycle), so a mismatch of that kind is a concrete failing trace.
        spec_level = [l for l in mismatches if re.search(r"wake|cycle|receive|notified", l.split(".trace:", 1)[-1])]
        if spec_level:
            f = re.search(r"MISMATCH line \d+ (\S+)", spec_level[0])
            keep = None
            if f and os.path.exists(f.group(1)):
                keep = os.path.join(common.ROOT, "replays", f"C19-trace-{ctx.seed}.txt")
                shutil.copy(f.group(1), keep)
            ctx.violation(dict(kind="recorded protocol trace violates the wake-up / no-cycle specification",
                               first_mismatch=spec_level[0], trace_file=keep,
                               how_to_replay=".build/ocaml-proto/replay <trace_file>"))
        elif mism:
            f = re.search(r"MISMATCH line \d+ (\S+)", mismatches[0])
            keep = None
            if f and os.path.exists(f.group(1)):
                keep = os.path.join(common.ROOT, "replays", f"C19-trace-{ctx.seed}.txt")
                shutil.copy(f.group(1), keep)
            ctx.violation(dict(kind="correspondence model/implementation no longer holds",
                               relation="Proto model vs recorded protocol traces (each logged step enabled, preconditions, outcome)",
                               first_mismatch=mismatches[0], n_traces_differing=mism, trace_file=keep,
                               search=f"{files} traces replayed; no trace violates the wake-up/no-cycle specification"),
                          no_input=True)
        else:
            ctx.violation(dict(kind="proof obligation no longer checks", broken=proof_broken,
                               theorem_file="coq/Props/C19.v",
                               search=f"{files} recorded traces replayed through the model, none fails"), no_input=True)
    for cls_name, lst in known_met.items():
        kf = [k for k in common.known_findings() if k["property"] == ctx.prop and k["class"] == cls_name]
        ctx.known_finding(f"class={cls_name} {kf[0]['text'] if kf else ''} (met in {len(lst)} workload runs of this check: "
                          + "; ".join(f"{x['scheduler']}/{x['workload']}" for x in lst[:6]) + ")")
    sample = None
    for r in runs:
        fs = sorted(os.listdir(r))
        if fs:
            sample = open(os.path.join(r, fs[0])).read().split("\n")[:25]
            break
    ctx.coverage.update({
        "obligations": rep["obligations"] if rep else 0,
        "discharged": rep["discharged"] if rep else 0,
        "checker_cmd": "make -C coq Props/C19.vo  (coqc 8.16.1, Print Assumptions captured)",
        "trusted_base": common.TRUSTED_BASE_COMMON + [
            "hook H2 appends each record while the critical section's locks are still held and reports truthfully",
            "each critical section of sync.rs / dependency_graph.rs is atomic (lock order of DESIGN §4.3)",
            "shuttle (PCT/random schedulers) and, for unwinding workloads, the OS scheduler produce the explored schedules",
            "condvar wake-ups and atomics orderings are outside the model"],
        "theorems": rep["statements"] if rep else [],
        "axioms_reported": rep["axioms"] if rep else [],
        "closed_under_global_context": rep["closed_count"] if rep else 0,
        "theorem_note": NOTE,
        "evaluations": files,
        "distinct_nontrivial": int(cov.get("outcome:block_on:blocked", 0)),
        "rule": "one evaluation = one recorded protocol trace of a multi-threaded workload (acyclic, cross-thread cycles, nested, panicking, cancelled); distinct_nontrivial counts block_on steps that actually blocked (a measured lower bound on traces with real waiting is not available, so the count of blocking steps is reported instead)",
        "traces_validated_against_impl": okn,
        "steps_replayed": steps,
        "mismatching_traces": mism,
        "workload_runs_that_died_in_a_listed_known_class": known_met,
        "step_coverage": cov,
        "samples": [sample],
        "wall_s": round(time.time() - t0, 1),
    })
    ctx.assumptions = ["critical sections are atomic", "client preconditions (a),(b) of the theorem note hold (checked per trace)"]
    ctx.write_evidence("proof")
    shutil.rmtree(out, ignore_errors=True)


def replay(ctx, rp):
    ft = rp.get("protocol_trace_up_to_the_failure")
    if ft and os.path.exists(ft):
        # a workload that died under its schedule: the kept trace through the model, and the recogniser
        rc, lg = common.sh([os.path.join(common.BUILD, "ocaml-proto", "replay"), ft])
        print(lg[-1500:])
        tmp = os.path.join(common.BUILD, "proto-traces", "replay.FAILED")
        os.makedirs(os.path.dirname(tmp), exist_ok=True)
        shutil.copy(ft, tmp)
        print("recognised class:", known_death(rp.get("salsa_assertion") or rp.get("output_tail", ""), tmp))
        print("to re-run the workload:", rp.get("how_to_replay"))
        return 1
    tf = rp.get("trace_file")
    if not tf:
        print("no trace recorded:", rp.get("broken"))
        return 1
    rc, lg = common.sh([os.path.join(common.BUILD, "ocaml-proto", "replay"), "--verbose", tf])
    print(lg[-4000:])
    return 1 if "MISMATCH" in lg else 0

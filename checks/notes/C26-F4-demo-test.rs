//! Demonstration for the fix in `collect_minimum_serialized_edges` (src/function.rs): a dependency
//! WITHOUT a memo must be kept as an edge when the dependencies of a persisted query are flattened.
//!
//! Place as `tests/persistence_memoless_dependency.rs`; run with
//! `cargo test --features persistence --test persistence_memoless_dependency`.
//! Before the fix the last assertion fails (`left: 1, right: 7`): a stale value after a restore.
#![cfg(all(feature = "persistence", feature = "inventory"))]

mod common;

use salsa::{Database, Durability, Setter};

#[salsa::input(persist)]
struct MyInput {
    #[returns(copy)]
    field: usize,
}

/// Persisted, with an LRU: its values can be evicted, and a memo without a value is not serialized.
#[salsa::tracked(returns(copy), persist, lru = 2)]
fn leaf(db: &dyn salsa::Database, input: MyInput) -> usize {
    input.field(db)
}

/// Persisted caller of `leaf`.
#[salsa::tracked(returns(copy), persist)]
fn middle(db: &dyn salsa::Database, input: MyInput) -> usize {
    leaf(db, input)
}

/// NOT persisted: its dependencies are flattened into the memo of `outer`.
#[salsa::tracked(returns(copy))]
fn not_persisted(db: &dyn salsa::Database, input: MyInput) -> usize {
    middle(db, input)
}

/// Persisted, depends on `middle` only through `not_persisted`.
#[salsa::tracked(returns(copy), persist)]
fn outer(db: &dyn salsa::Database, input: MyInput) -> usize {
    not_persisted(db, input)
}

fn round_trip(db: &mut common::EventLoggerDatabase) -> common::EventLoggerDatabase {
    let serialized = serde_json::to_string(&<dyn salsa::Database>::as_serialize(db)).unwrap();
    let mut restored = common::EventLoggerDatabase::default();
    <dyn salsa::Database>::deserialize(
        &mut restored,
        &mut serde_json::Deserializer::from_str(&serialized),
    )
    .unwrap();
    restored
}

#[test]
fn memoless_dependency_is_not_dropped() {
    let mut db = common::EventLoggerDatabase::default();
    let a = MyInput::new(&db, 1);
    let b = MyInput::new(&db, 1);
    let c = MyInput::new(&db, 1);

    // `middle(a)` and `leaf(a)` are computed; two more `leaf`s make `leaf(a)` the eviction
    // candidate, and the new revision evicts its value.
    assert_eq!(middle(&db, a), 1);
    assert_eq!(leaf(&db, b), 1);
    assert_eq!(leaf(&db, c), 1);
    db.synthetic_write(Durability::LOW);

    // `middle(a)` is validated in the new revision (`leaf(a)` is validated without a value).
    assert_eq!(middle(&db, a), 1);

    // First round-trip: the value-less memo of `leaf(a)` is not serialized, `middle(a)` is,
    // with its edge to `leaf(a)`.
    let mut db = round_trip(&mut db);

    // `outer(a)` is computed in the restored database.  `middle(a)` was verified in this
    // revision, so it is returned without looking at its dependencies: `leaf(a)` has no memo.
    assert_eq!(outer(&db, a), 1);

    // Second round-trip: flattening `outer(a)` goes through `not_persisted(a)` and `middle(a)`
    // and reaches `leaf(a)`, which has no memo.
    let mut db = round_trip(&mut db);

    // (Calling `leaf` once sets up the function ingredient in the fresh database.)
    assert_eq!(leaf(&db, b), 1);

    a.set_field(&mut db).to(7);

    // `outer(a)` depends on `a.field` through `leaf(a)`.
    assert_eq!(outer(&db, a), 7);
}

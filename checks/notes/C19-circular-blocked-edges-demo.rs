//! Demonstration for the C19/C18 finding "circular reference between blocked edges".
//! Place as tests/parallel/cycle_nested_deep_conditional_concurrent.rs and add
//! `mod cycle_nested_deep_conditional_concurrent;` to tests/parallel/main.rs; run
//! `cargo test --features shuttle --test parallel cycle_nested_deep_conditional_concurrent`
//! (deterministic: fixed PCT seed; fails on c12307b and on the original snapshot ca4df55, passes
//! with checks/notes/C19-circular-blocked-edges-fix.patch).
//!
//! The queries of `cycle_nested_deep_conditional.rs` (with `c` also calling `a` in its later
//! iterations, as /verif/harness-proto's workload `deep_cond`), but the four threads really run
//! concurrently: the original test lets t1 finish `query_a` before it signals the other three
//! (`db_t1.signal(1)` comes after `query_a(&db_t1)` returned), so it never exercises a transfer of
//! `a`'s lock while other threads wait inside the cycle.
//!
//! With `--features shuttle` (PCT, 2500 schedules, as every test of this directory) this fails
//! with salsa's own `debug_assert!` in `DependencyGraph::update_transferred_edges`
//! ("Circular reference between blocked edges"); in a release build the rewritten edge is a
//! self-loop `T -> T` and the next `Edges::depends_on` never terminates while it holds the
//! dependency-graph lock.  Without shuttle the body is repeated on OS threads (the assertion
//! fires after some ten thousand repetitions, or a thread spins forever — hence the watchdog).
//!
//! Interleaving (threads t1..t4 enter a, b, d, e):
//!   t3 claims d and c; t2 claims b and waits for c@t3; t1 claims a and waits for b@t2;
//!   t3 finds a (owner t1 waits on t2 waits on t3): cycle; c is transferred to d, d to a (wakes t2
//!   by hand-over); t2 re-claims c — which it now owns through c -> d -> a, a's thread waiting on
//!   t2 — (`claimed_twice`); t4 claims e, wants c, finds it claimed by t2 and BLOCKS ON t2;
//!   t2 releases c again (`release_self`: c is `Transferred` again, its resolved owner is t1, but
//!   t4's edge still points at t2), transfers b to a (wakes t1) and waits for a@t1;
//!   t1 iterates a, b, c, d on its own, then reaches e: owner t4 waits on t2 waits on t1: cycle, e is
//!   the outer head, so a's lock is transferred to e (new owner thread t4):
//!   `unblock_transfer_target(a, t4)` looks for "the thread of the new owner blocked on a" and takes
//!   the FIRST dependent d of a with `d == t4 || depends_on(t4, d)` — that is t2 (t4's stale edge
//!   points at it), so t2 is woken instead of t4; `update_transferred_edges(a, t4)` then re-points
//!   every waiter in a's transfer subtree to t4, including t4 itself (waiting for c, c -> a -> e@t4):
//!   edge t4 -> t4.
use crate::sync::thread;
use crate::{Knobs, KnobsDatabase};


#[derive(Debug, PartialEq, Eq, PartialOrd, Ord, Hash, Clone, Copy)]
struct CycleValue(u32);

const MIN: CycleValue = CycleValue(0);
const MAX: CycleValue = CycleValue(3);

#[salsa::tracked(returns(copy), cycle_initial=initial)]
fn query_a(db: &dyn KnobsDatabase) -> CycleValue {
    query_b(db)
}

#[salsa::tracked(returns(copy), cycle_initial=initial)]
fn query_b(db: &dyn KnobsDatabase) -> CycleValue {
    let c_value = query_c(db);
    CycleValue(c_value.0 + 1).min(MAX)
}

#[salsa::tracked(returns(copy), cycle_initial=initial)]
fn query_c(db: &dyn KnobsDatabase) -> CycleValue {
    let d_value = query_d(db);

    if d_value > CycleValue(0) {
        let e_value = query_e(db);
        let b_value = query_b(db);
        // (not in `cycle_nested_deep_conditional.rs`: `c` keeps calling `a` in the later iterations)
        let a_value = query_a(db);
        CycleValue(d_value.0.max(e_value.0).max(b_value.0).max(a_value.0))
    } else {
        let a_value = query_a(db);
        CycleValue(d_value.0.max(a_value.0))
    }
}

#[salsa::tracked(returns(copy), cycle_initial=initial)]
fn query_d(db: &dyn KnobsDatabase) -> CycleValue {
    query_c(db)
}

#[salsa::tracked(returns(copy), cycle_initial=initial)]
fn query_e(db: &dyn KnobsDatabase) -> CycleValue {
    query_c(db)
}

fn initial(_db: &dyn KnobsDatabase, _id: salsa::Id) -> CycleValue {
    MIN
}

#[test_log::test]
fn the_test() {
    #[cfg(feature = "shuttle")]
    {
        // fixed seed: fails within the first thousand schedules (seeds 1..12 tried: 68..986)
        let mut config = shuttle::Config::default();
        config.stack_size = 1024 * 1024;
        let scheduler = shuttle::scheduler::PctScheduler::new_from_seed(1, 50, 5000);
        shuttle::Runner::new(scheduler, config).run(one_round);
    }
    #[cfg(not(feature = "shuttle"))]
    for _ in 0..20_000 {
        one_round();
    }
}

fn one_round() {
    let db_t1 = Knobs::default();
    let db_t2 = db_t1.clone();
    let db_t3 = db_t1.clone();
    let db_t4 = db_t1.clone();

    let t1 = thread::spawn(move || query_a(&db_t1));
    let t2 = thread::spawn(move || query_b(&db_t2));
    let t3 = thread::spawn(move || query_d(&db_t3));
    let t4 = thread::spawn(move || query_e(&db_t4));

    let r_t1 = t1.join().unwrap();
    let r_t2 = t2.join().unwrap();
    let r_t3 = t3.join().unwrap();
    let r_t4 = t4.join().unwrap();

    assert_eq!((r_t1, r_t2, r_t3, r_t4), (MAX, MAX, MAX, MAX));
}

"""C24 — concurrently created Salsa structs receive distinct identities."""
from checks import conccheck

NOTE = ("Proved for every interleaving of the page-allocation machine, any number of handles incl. dropped and "
        "re-created ones: C24_distinct (all (index, generation) ever returned pairwise distinct; bounds), "
        "C24_readback, C24_ownership (a page is in at most one handle's cache or the shared list). make_id/split_id "
        "are the translated kernels. Assumed: `allocated` is a sequentially consistent register, mutex sections atomic, "
        "boxcar push returns a fresh index, SegQueue FIFO, value closures do not re-enter allocate on the same handle.")


def run(ctx):
    conccheck.run(ctx, "alloc", NOTE)


def replay(ctx, rp):
    return conccheck.replay(ctx, rp)

"""C15 — non-converging fixpoint iteration ends in a bounded panic."""
import re
from checks import cyclecheck
from vplib import cycleengine as ce

MAX_ITERATIONS = 200


def oracle(case, impl_lines, model_lines):
    """Implementation only (its own events and results): every WillIterateCycle number is within
    1..=MAX_ITERATIONS and strictly increases per head within one read (the too-many panic itself may
    also come from a participant or a completed query whose stamp, inherited from a memo of the same
    revision, is already at MAX_ITERATIONS); no read of the diverge profile ends in anything
    but a value, too-many, a propagated panic (poisoned head of the same revision), or the crate's
    own backdate assertion.  The model's ghost count of executions of any one body per read stays
    within (MAX_ITERATIONS + 1) x number of nodes (model side; implementation == model on events):
    the proved bound C15_bounded_partial is per fixpoint loop of ONE execute of a head; an inner
    node of a nested cycle runs once per iteration of every enclosing loop, and a head can be
    executed again by an outer iteration, so the per-read count is bounded by the product, not by
    MAX_ITERATIONS + 1 (the first version of this oracle demanded the latter and raised a false
    alarm on a nested case with 402 executions)."""
    a = ce.split_lines(impl_lines)
    b = ce.split_lines(model_lines)
    for i in sorted(a["R"]):
        last = {}
        for e in a["E"].get(i, "").split():
            t, rest = e.split(":", 1)
            if t == "i":
                k, it = rest.split("@")
                it = int(it)
                if not (1 <= it <= MAX_ITERATIONS):
                    return dict(level="oracle", step=i, why=f"WillIterateCycle iteration {it} out of range for {k}")
                if k in last and it <= last[k]:
                    return dict(level="oracle", step=i, why=f"iteration numbers of head {k} do not increase: {last[k]} then {it}")
                last[k] = it
        r = a["R"][i]
        if "(spec diverge)" in case and r.startswith("panic") and r not in ("panic 4", "panic 7", "panic 3", "panic 1"):
            return dict(level="oracle", step=i, why=f"unexpected outcome {r}")
        nnodes = max(1, case.count("(node "))
        if b["B"].get(i, 0) > (MAX_ITERATIONS + 1) * nnodes:
            return dict(level="oracle", step=i, why=f"model: a body ran {b['B'][i]} times in one read")
    return None


def run(ctx):
    cyclecheck.run_cycle(ctx, ["diverge"], n_quick=400, n_thorough=6000, oracle=oracle,
                         nontrivial_rule=lambda f: "too_many_panic" in f and "reexec" in f,
                         thm_note=open(__file__.replace("C15.py", "notes/C15.txt")).read())


def replay(ctx, rp):
    return cyclecheck.replay(ctx, rp)

"""C23 — no memory errors in any history; returned references stay valid; drop frees everything.
PARTIAL, permanently: machine-checked theorems about the lifetime PROTOCOL (coq/Life, Props/C23.v)
+ replay of hook-H4 lifetime traces of generated histories through the extracted machine
+ harness-level checks on the real crate (reference revalidation under a poisoning / quarantining
allocator, allocation accounting across drop) + (thorough) a sample under Miri, supporting only.

Environment: VERIF_C23_MIRI=1 forces / =0 suppresses the Miri sample (default: thorough tier only)."""
import os
import shutil
import time

from vplib import common
from checks import life_diff

NOTE = ("PARTIAL (permanently). Proved for every operation sequence of the lifetime machine (coq/Life/Model.v: memo cells "
        "Live|Retired|Freed, slots with updated_at / last_interned_at stamps, references tagged with their revision; "
        "insert_memo, fetch, field reads, delete_entity, tracked update, struct slot reuse, interned hit / validation / "
        "reuse under &db; new_revision, evict_lru, set_field, drop under &mut): C23_no_uaf_partial (no operation reads or "
        "writes a freed cell / dropped fields / an uninitialised slot; every outstanding reference was handed out in the "
        "current revision, denotes a Live|Retired cell or initialised fields with the recorded value, and stays so across "
        "any further &db operations), C23_no_double_free_partial, C23_drop_frees_partial (drop is always possible and frees "
        "every cell exactly once), C23_in_bounds_partial (initialised locations = slots below `allocated`, make_id/split_id "
        "round trip through the translated kernels, internally stored ids are initialised). Hypothesis: fewer than 2^64 "
        "retained revisions per interned ingredient. Model assumptions: a &mut borrow ends every &'db borrow (borrow checker); "
        "the client obligation for reusable interned values (used only in a revision in which they were interned or validated) "
        "is a refusal of the machine, checked on every replayed trace.")

UNVERIFIED = [
    "raw-pointer provenance and aliasing (Stacked/Tree Borrows) of the unsafe code",
    "layout arithmetic: SliceWithHeader / OriginAndExtra (the edge allocation), PageData, MemoEntry type erasure",
    "the transmute lifetime extensions themselves (extend_memo_lifetime, lock_fields, to_internal_data): assumed to yield exactly 'db",
    "unsafe impl Send / Sync",
    "atomics and memory ordering; several handles / threads (the machine is sequential; C20 / C24 cover their protocol parts)",
    "the intrusive LRU list of the interned ingredient (see checks/notes/C23.txt: unlinked remove at generation u32::MAX)",
    "type identity of pages and memo entries (assert_type / TypeId checks), allocation failure",
]


def _keep(trace_file, ctx, tag):
    if trace_file and os.path.exists(trace_file):
        keep = os.path.join(common.ROOT, "replays", f"{ctx.prop}-{tag}-{ctx.seed}.txt")
        os.makedirs(os.path.dirname(keep), exist_ok=True)
        shutil.copy(trace_file, keep)
        return keep
    return None


def run(ctx):
    t0 = time.time()
    probs = common.audit()
    if probs:
        raise common.CheckError("audit failed: " + "; ".join(probs[:5]))
    proof_broken = None
    ok, log, _ = common.run_translator()
    if not ok:
        proof_broken = dict(kind="translation", detail=log[-3000:])
    rep = None
    if proof_broken is None:
        rep = common.props_report(ctx.prop)
        if not rep["ok"]:
            proof_broken = dict(kind="proof", detail=rep["log"][-3000:], theorems=rep["theorems"],
                                bad_axioms=rep["bad_axioms"])
    okm, logm = common.coq_make(["Life/Model.vo"])
    if not okm:
        raise common.CheckError("Life/Model.v does not compile:\n" + logm[-2000:])
    try:
        life_diff.build(jobs=6)
    except Exception as e:  # noqa: BLE001
        raise common.CheckError("building harness-life / replayer failed: " + str(e)[-3000:])
    miri = None
    if os.environ.get("VERIF_C23_MIRI") == "1":
        miri = True
    elif os.environ.get("VERIF_C23_MIRI") == "0":
        miri = False
    res = life_diff.run_life(ctx.seed, ctx.tier, miri)
    if res["error"]:
        raise common.CheckError("harness-life: " + res["error"])
    reported = False
    if res["first_crash"] is not None:
        ctx.violation(dict(kind="the harness process died while running a history (memory error in the implementation)",
                           crash=res["first_crash"], reproduce=res["first_crash"]["reproduce"]))
        reported = True
    elif res["first_violation"] is not None:
        v = res["first_violation"]
        ctx.violation(dict(kind="harness-level check failed on the implementation: " + v["text"].split(" ")[0],
                           violation=v, reproduce=v["reproduce"]))
        reported = True
    elif res["spec_mismatch"] is not None:
        m = res["spec_mismatch"]
        ctx.violation(dict(kind="recorded lifetime trace violates the protocol (freed-while-referenced / double free / leak at drop)",
                           first_mismatch=m["text"], reproduce=m["reproduce"],
                           trace_file=_keep(m["trace_file"], ctx, "trace")))
        reported = True
    elif res["first_mismatch"] is not None:
        m = res["first_mismatch"]
        ctx.violation(dict(kind="correspondence model/implementation no longer holds",
                           relation="lifetime machine vs recorded H4 traces (every hook line accepted with the same outcome)",
                           first_mismatch=m["text"], reproduce=m["reproduce"],
                           trace_file=_keep(m["trace_file"], ctx, "trace"),
                           search=f"{res['cases']} histories: reference revalidation, write-after-free and leak checks all pass"),
                      no_input=True)
        reported = True
    if not reported and proof_broken is not None:
        ctx.violation(dict(kind="proof obligation no longer checks", broken=proof_broken,
                           theorem_file="coq/Props/C23.v",
                           search=f"{res['cases']} histories run and replayed, every harness-level check and replay passes"),
                      no_input=True)
    ctx.coverage.update({
        "obligations": rep["obligations"] if rep else 0,
        "discharged": rep["discharged"] if rep else 0,
        "checker_cmd": "make -C coq Props/C23.vo  (coqc 8.16.1, Print Assumptions captured)",
        "trusted_base": common.TRUSTED_BASE_COMMON + [
            "hook H4 (salsa::verif_life) emits each lifetime event at the operation it reports and numbers memo allocations truthfully",
            "Rust's borrow checker: a &mut borrow of the database ends every &'db borrow (the machine empties its reference list there)",
            "the harness allocator (poison 0xDD, FIFO quarantine, live-allocation count) and the revalidation code of harness-life",
        ],
        "theorems": rep["statements"] if rep else [],
        "axioms_reported": rep["axioms"] if rep else [],
        "closed_under_global_context": rep["closed_count"] if rep else 0,
        "theorem_note": NOTE,
        "level_note": "partial (permanently): protocol only",
        "unverified": UNVERIFIED,
        "evaluations": res["cases"],
        "distinct_nontrivial": res["nontrivial"],
        "rule": "one evaluation = one generated sequential history (2-3 inputs; plain, lru, fixpoint-cycle functions; functions keyed by "
                "tracked structs and by interned values with revisions = 1 and 3; 5-14 phases of one &mut operation + a read phase; injected "
                "panics and local cancellations; final drop), run twice on the implementation (recorded/poisoned pass, counted pass) and "
                "replayed once; distinct_nontrivial counts histories in which a memo was replaced while references were outstanding AND "
                "something was freed or dropped in place outside of drop (struct deletion, interned slot reuse, LRU eviction); cases are "
                "distinct by construction (one sub-seed each), not deduplicated by content",
        "events_replayed": res["events"],
        "references_revalidated": res["stats"].get("reval", 0),
        "traces_validated_against_impl": res["cases"] if res["first_mismatch"] is None else 0,
        "harness_stats": res["stats"],
        "step_coverage": res["coverage"],
        "miri_supporting_only": res["miri"],
        "samples": [res["sample"]],
        "wall_s": round(time.time() - t0, 1),
    })
    ctx.assumptions = ["a &mut borrow ends every &'db borrow", "interned client obligation (checked per trace)",
                       "fewer than 2^64 retained revisions per interned ingredient"]
    ctx.write_evidence("proof")
    import shutil as _sh
    _sh.rmtree(life_diff.TRACE_DIR, ignore_errors=True)


def replay(ctx, rp):
    cmd = rp.get("reproduce")
    tf = rp.get("trace_file")
    rc = 0
    if cmd:
        if not os.path.exists(cmd[0]):
            life_diff.build()
        out = os.path.join(common.BUILD, "life-traces", "replay-one.txt")
        os.makedirs(os.path.dirname(out), exist_ok=True)
        import subprocess
        with open(out, "w") as f:
            p = subprocess.run(cmd, stdout=f, stderr=subprocess.PIPE, text=True, timeout=600)
        print("harness exit", p.returncode, p.stderr[-400:])
        for l in open(out):
            if l.startswith(("V ", "S ", "SUMMARY")):
                print(l.rstrip())
        code, lg = common.sh([life_diff.REPLAY_BIN, out])
        print("\n".join(l for l in lg.splitlines() if not l.startswith("COVERAGE"))[-3000:])
        rc = 1 if (p.returncode != 0 or "MISMATCH" in lg) else 0
    elif tf and os.path.exists(tf):
        code, lg = common.sh([life_diff.REPLAY_BIN, tf])
        print("\n".join(l for l in lg.splitlines() if not l.startswith("COVERAGE"))[-3000:])
        rc = 1 if "MISMATCH" in lg else 0
    else:
        print("no input recorded:", rp.get("broken"))
        rc = 1
    return rc

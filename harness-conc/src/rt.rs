//! Runtime layer: thread spawning and scheduling.
//!
//! * feature `shuttle`: threads are shuttle tasks, the schedule is shuttle's (PCT or random).
//! * otherwise: OS threads under the *baton scheduler* below — exactly one controlled thread
//!   runs at a time, the baton is handed over only at H6 hook points (every event the sink
//!   receives with `may_yield`), at harness-level `yield_point`s, and when a thread announces
//!   that it is about to block inside salsa (`DidSetCancellationFlag`, `WillBlockOn`, `join`).

#[cfg(feature = "shuttle")]
pub use shuttle::thread;
#[cfg(not(feature = "shuttle"))]
pub use std::thread;

use std::cell::Cell;

// Under shuttle every task runs on the same OS thread: per-task state must use shuttle's
// thread_local (which does not support const initialisers).
#[cfg(feature = "shuttle")]
pub use shuttle::thread_local;
#[cfg(not(feature = "shuttle"))]
pub use std::thread_local;

thread_local! {
    /// harness thread id of this thread (0 = the iteration's main thread)
    static TID: Cell<usize> = Cell::new(usize::MAX);
}

pub fn tid() -> usize {
    TID.with(|t| t.get())
}

pub fn set_tid(t: usize) {
    TID.with(|c| c.set(t));
}

/// splitmix64
#[derive(Clone)]
pub struct Rng(pub u64);

impl Rng {
    pub fn next(&mut self) -> u64 {
        self.0 = self.0.wrapping_add(0x9E37_79B9_7F4A_7C15);
        let mut z = self.0;
        z = (z ^ (z >> 30)).wrapping_mul(0xBF58_476D_1CE4_E5B9);
        z = (z ^ (z >> 27)).wrapping_mul(0x94D0_49BB_1331_11EB);
        z ^ (z >> 31)
    }

    pub fn below(&mut self, n: u64) -> u64 {
        if n == 0 { 0 } else { self.next() % n }
    }

    pub fn chance(&mut self, num: u64, den: u64) -> bool {
        self.below(den) < num
    }
}

#[derive(Clone, Copy, PartialEq, Eq, Debug)]
pub enum Policy {
    Pct,
    Random,
}

// ------------------------------------------------------------------------------------------
// baton scheduler (thread build)
// ------------------------------------------------------------------------------------------
#[cfg(not(feature = "shuttle"))]
pub mod baton {
    use super::{Policy, Rng};
    use std::cell::Cell;
    use std::sync::{Condvar, Mutex};

    struct Inner {
        current: Option<usize>,
        ready: Vec<bool>,
        prio: Vec<u64>,
        rng: Rng,
        policy: Policy,
        steps: u64,
        change_points: Vec<u64>,
        progress: u64,
        steals: u64,
    }

    pub struct Sched {
        inner: Mutex<Inner>,
        cv: Condvar,
    }

    static SCHED: Sched = Sched {
        inner: Mutex::new(Inner {
            current: None,
            ready: Vec::new(),
            prio: Vec::new(),
            rng: Rng(0),
            policy: Policy::Random,
            steps: 0,
            change_points: Vec::new(),
            progress: 0,
            steals: 0,
        }),
        cv: Condvar::new(),
    };

    std::thread_local! {
        static BLOCKED: Cell<bool> = const { Cell::new(false) };
    }

    fn lock() -> std::sync::MutexGuard<'static, Inner> {
        SCHED.inner.lock().unwrap_or_else(|e| e.into_inner())
    }

    impl Inner {
        fn pick(&mut self) -> Option<usize> {
            let ready: Vec<usize> = (0..self.ready.len()).filter(|&i| self.ready[i]).collect();
            if ready.is_empty() {
                return None;
            }
            match self.policy {
                Policy::Random => Some(ready[self.rng.below(ready.len() as u64) as usize]),
                Policy::Pct => ready.iter().copied().max_by_key(|&i| self.prio[i]),
            }
        }

        fn step(&mut self, me: usize) {
            self.steps += 1;
            self.progress += 1;
            if self.policy == Policy::Pct && self.change_points.contains(&self.steps) {
                // priority change point: the running thread drops below everyone
                let low = self.prio.iter().copied().min().unwrap_or(1).saturating_sub(1);
                self.prio[me] = low;
            }
        }
    }

    /// Start of an iteration: thread 0 (the caller) holds the baton.
    pub fn reset(seed: u64, policy: Policy) {
        let mut g = lock();
        let mut rng = Rng(seed ^ 0xA5A5_5A5A_DEAD_BEEF);
        let mut change_points = Vec::new();
        for _ in 0..3 {
            change_points.push(1 + rng.below(400));
        }
        g.current = Some(0);
        g.ready = vec![true];
        g.prio = vec![1_000_000 + rng.below(1_000_000)];
        g.rng = rng;
        g.policy = policy;
        g.steps = 0;
        g.change_points = change_points;
        BLOCKED.with(|b| b.set(false));
    }

    /// Called by the parent before spawning: allocate the child's id (ready, without baton).
    pub fn register() -> usize {
        let mut g = lock();
        let id = g.ready.len();
        g.ready.push(true);
        let p = 1_000_000 + g.rng.below(1_000_000);
        g.prio.push(p);
        id
    }

    /// Wait until this thread holds the baton.  If the holder makes no scheduling progress for
    /// a while it is presumed blocked on a salsa-internal lock (e.g. it waits for an interned
    /// shard lock whose owner yielded at a hook inside `allocate`): the baton is taken over and
    /// the old holder falls in line again at its next hook point.
    fn wait_for_baton(me: usize, mut g: std::sync::MutexGuard<'static, Inner>) {
        let mut seen = g.progress;
        let mut strikes = 0u32;
        loop {
            match g.current {
                Some(c) if c == me => return,
                None => {
                    // nobody holds it (everyone else is blocked or gone): take it
                    g.current = Some(me);
                    return;
                }
                _ => {}
            }
            let (ng, to) = SCHED
                .cv
                .wait_timeout(g, std::time::Duration::from_millis(10))
                .unwrap_or_else(|e| e.into_inner());
            g = ng;
            if to.timed_out() {
                if g.progress == seen {
                    strikes += 1;
                } else {
                    seen = g.progress;
                    strikes = 0;
                }
                if strikes >= 3 && g.ready[me] {
                    if let Some(c) = g.current {
                        if c != me {
                            g.ready[c] = false;
                            g.current = Some(me);
                            g.progress += 1;
                            g.steals += 1;
                            SCHED.cv.notify_all();
                            return;
                        }
                    }
                }
            }
        }
    }

    /// First thing a spawned thread does.
    pub fn enter(me: usize) {
        BLOCKED.with(|b| b.set(false));
        let g = lock();
        wait_for_baton(me, g);
    }

    /// A point at which the baton may change hands.
    pub fn yield_point() {
        let me = super::tid();
        if me == usize::MAX {
            return;
        }
        if BLOCKED.with(|b| b.get()) {
            unblock();
            return;
        }
        let mut g = lock();
        if g.current != Some(me) {
            // free-running after a wake-up that was not announced: fall in line
            g.ready[me] = true;
            wait_for_baton(me, g);
            return;
        }
        g.step(me);
        let next = g.pick().unwrap_or(me);
        if next != me {
            g.current = Some(next);
            SCHED.cv.notify_all();
            wait_for_baton(me, g);
        }
    }

    /// The calling thread is about to block inside salsa (or in `join`): give the baton away.
    pub fn about_to_block() {
        let me = super::tid();
        if me == usize::MAX || BLOCKED.with(|b| b.get()) {
            return;
        }
        BLOCKED.with(|b| b.set(true));
        let mut g = lock();
        g.ready[me] = false;
        g.progress += 1;
        if g.current == Some(me) {
            g.current = g.pick();
            SCHED.cv.notify_all();
        }
    }

    /// The calling thread is running again after `about_to_block`.
    pub fn unblock() {
        let me = super::tid();
        if me == usize::MAX || !BLOCKED.with(|b| b.get()) {
            return;
        }
        BLOCKED.with(|b| b.set(false));
        let mut g = lock();
        g.ready[me] = true;
        g.progress += 1;
        wait_for_baton(me, g);
    }

    /// Last thing a spawned thread does.
    pub fn exit() {
        let me = super::tid();
        if me == usize::MAX {
            return;
        }
        let mut g = lock();
        g.ready[me] = false;
        g.progress += 1;
        if g.current == Some(me) {
            g.current = g.pick();
        }
        SCHED.cv.notify_all();
    }

    pub fn progress() -> u64 {
        lock().progress
    }

    /// how often the baton was taken from a holder presumed blocked
    pub fn steals() -> u64 {
        lock().steals
    }
}

#[cfg(feature = "shuttle")]
pub mod baton {
    pub fn yield_point() {}
    pub fn about_to_block() {}
    pub fn unblock() {}
}

/// Spawn a harness thread. `f` receives nothing; the child's harness tid is set up for it.
pub fn spawn<T, F>(next_tid: &std::sync::atomic::AtomicUsize, f: F) -> Join<T>
where
    T: Send + 'static,
    F: FnOnce() -> T + Send + 'static,
{
    #[cfg(feature = "shuttle")]
    {
        let id = next_tid.fetch_add(1, std::sync::atomic::Ordering::SeqCst);
        Join(thread::spawn(move || {
            set_tid(id);
            f()
        }))
    }
    #[cfg(not(feature = "shuttle"))]
    {
        let _ = next_tid;
        let id = baton::register();
        Join(thread::spawn(move || {
            set_tid(id);
            baton::enter(id);
            let r = f();
            baton::exit();
            r
        }))
    }
}

pub struct Join<T>(thread::JoinHandle<T>);

impl<T> Join<T> {
    pub fn join(self) -> T {
        baton::about_to_block();
        let r = self.0.join();
        baton::unblock();
        match r {
            Ok(v) => v,
            Err(p) => std::panic::resume_unwind(p),
        }
    }
}

//! The salsa items the three profiles use, and the handle wrapper that names handles.

use salsa::plumbing::AsId;
use salsa::{Database, EventKind};

use crate::rt;
use crate::trace::{self, HEv};

#[salsa::db]
#[derive(Clone)]
pub struct Db {
    storage: salsa::Storage<Self>,
}

#[salsa::db]
impl salsa::Database for Db {}

impl Db {
    pub fn new() -> Db {
        Db {
            storage: salsa::Storage::new(Some(Box::new(|e: salsa::Event| match e.kind {
                EventKind::DidSetCancellationFlag => {
                    trace::log(HEv::FlagEvent);
                    // cancel_others is about to wait for the other handles
                    rt::baton::about_to_block();
                }
                EventKind::WillBlockOn { .. } => {
                    trace::log(HEv::WillBlock);
                    rt::baton::about_to_block();
                }
                _ => {}
            }))),
        }
    }
}

/// A database handle with the number under which it appears in traces.
pub struct H {
    pub db: Db,
    pub n: usize,
}

impl H {
    pub fn root() -> H {
        let db = Db::new();
        trace::register_handle(salsa::verif_conc::handle_of(&db), 0);
        trace::set_cur_handle(0);
        H { db, n: 0 }
    }

    /// `Storage::clone`; the new handle's number is the one assigned at the CloneEnd hook.
    pub fn clone_handle(&self) -> H {
        let saved = trace::cur_handle();
        trace::set_cur_handle(self.n as i64);
        let db = self.db.clone();
        let n = trace::take_last_cloned();
        assert!(n != usize::MAX, "CloneEnd hook did not fire");
        trace::register_handle(salsa::verif_conc::handle_of(&db), n);
        trace::set_cur_handle(saved);
        H { db, n }
    }

    /// Make this handle the one the current thread's events are attributed to.
    pub fn enter(&self) {
        trace::set_cur_handle(self.n as i64);
    }
}

impl Drop for H {
    fn drop(&mut self) {
        // the fields are dropped after this returns: Record*, DropBegin, DropCoord
        trace::set_cur_handle(self.n as i64);
    }
}

// ------------------------------------------------------------------------------------------
// inputs and functions
// ------------------------------------------------------------------------------------------

#[salsa::input]
pub struct In {
    #[returns(copy)]
    pub a: u32,
    #[returns(copy)]
    pub b: u32,
}

#[salsa::input]
pub struct In2 {
    #[returns(copy)]
    pub c: u32,
}

#[salsa::interned]
pub struct Name<'db> {
    #[returns(copy)]
    pub text: u32,
}

#[salsa::interned]
pub struct Pair<'db> {
    #[returns(copy)]
    pub x: u32,
    #[returns(copy)]
    pub y: u32,
}

#[salsa::tracked]
pub struct Node<'db> {
    #[returns(copy)]
    pub idx: u32,
    #[tracked]
    #[returns(copy)]
    pub payload: u32,
}

#[salsa::tracked]
pub fn leaf(db: &dyn Database, i: In) -> u32 {
    i.a(db).wrapping_mul(2)
}

#[salsa::tracked]
pub fn mid(db: &dyn Database, i: In) -> u32 {
    *leaf(db, i) ^ 1
}

#[salsa::tracked(lru = 8)]
pub fn sum(db: &dyn Database, i: In) -> u32 {
    leaf(db, i).wrapping_add(i.b(db))
}

#[salsa::tracked]
pub fn deep(db: &dyn Database, i: In) -> u32 {
    sum(db, i).wrapping_add(*leaf(db, i)).wrapping_add(*mid(db, i))
}

pub fn set_sum_lru_capacity(db: &mut Db, n: usize) {
    sum::set_lru_capacity(db, n);
}

pub fn ref_leaf(a: u32) -> u32 {
    a.wrapping_mul(2)
}
pub fn ref_sum(a: u32, b: u32) -> u32 {
    ref_leaf(a).wrapping_add(b)
}
pub fn ref_deep(a: u32, b: u32) -> u32 {
    ref_sum(a, b).wrapping_add(ref_leaf(a)).wrapping_add(ref_leaf(a) ^ 1)
}

/// Reports an unwind that passes through the body of a fixpoint function.
pub struct FixGuard;

impl Drop for FixGuard {
    fn drop(&mut self) {
        if std::thread::panicking() {
            trace::log(HEv::UnwoundThroughFixpoint);
        }
    }
}

fn cycle_initial(_db: &dyn Database, _id: salsa::Id, _i: In) -> u32 {
    0
}

fn cycle_fn(_db: &dyn Database, _cycle: &salsa::Cycle, _last: &u32, value: u32, _i: In) -> u32 {
    value
}

#[salsa::tracked]
pub fn touch(db: &dyn Database, i: In) -> u32 {
    i.b(db)
}

#[salsa::tracked(cycle_fn = cycle_fn, cycle_initial = cycle_initial)]
pub fn cyc_a(db: &dyn Database, i: In) -> u32 {
    let _g = FixGuard;
    let v = *cyc_b(db, i);
    // a tracked-function request (= a cancellation check) in the middle of an iteration
    let _ = touch(db, i);
    v
}

#[salsa::tracked(cycle_fn = cycle_fn, cycle_initial = cycle_initial)]
pub fn cyc_b(db: &dyn Database, i: In) -> u32 {
    let _g = FixGuard;
    let v = *cyc_a(db, i);
    v.saturating_add(1).min(i.a(db) % 4)
}

#[salsa::tracked]
pub fn top(db: &dyn Database, i: In) -> u32 {
    cyc_a(db, i).wrapping_add(*leaf(db, i))
}

pub fn ref_cyc(a: u32) -> u32 {
    a % 4
}
pub fn ref_top(a: u32) -> u32 {
    ref_cyc(a).wrapping_add(ref_leaf(a))
}

pub fn node_value(idx: u32, payload: u32) -> u64 {
    (3u64 << 40) | ((idx as u64) << 20) | (payload as u64 & 0xFFFFF)
}

/// Creates `a` tracked structs whose payload depends on `b` only (so a struct that survives a
/// change of `a` keeps the fields it was created with).
#[salsa::tracked]
pub fn make<'db>(db: &'db dyn Database, i: In) -> Vec<Node<'db>> {
    let k = i.a(db);
    let b = i.b(db);
    (0..k)
        .map(|j| {
            let payload = b.wrapping_add(j) & 0xFFFFF;
            trace::set_cur_val(node_value(j, payload));
            let n = Node::new(db, j, payload);
            let id = n.as_id();
            trace::log(HEv::Created {
                kind: "node",
                index: id.index(),
                generation: id.generation(),
                value: node_value(j, payload),
            });
            n
        })
        .collect()
}

//! harness-conc — concurrency profiles `writer`, `token`, `alloc` for C20 / C21 / C24.
//!
//!   harness-conc <writer|token|alloc> --iters N --seed S --sched pct|random
//!
//! Output: one JSON object per line — `trace` (the abstract event trace of one iteration, in the
//! alphabet of coq/Cancel/Model.v and coq/Alloc/Model.v), `result` (the harness-level checks of
//! that iteration), and a final `summary`.  Exit status 0 iff no violation.

mod db;
mod profiles;
mod rt;
mod trace;

use std::sync::atomic::{AtomicU64, Ordering};
use std::sync::Mutex;

use rt::Policy;

pub struct IterOut {
    pub violations: Vec<String>,
    pub stats: Vec<(&'static str, u64)>,
}

static ITER: AtomicU64 = AtomicU64::new(0);
static VIOLATIONS: AtomicU64 = AtomicU64::new(0);
static STATS: Mutex<Vec<(&'static str, u64)>> = Mutex::new(Vec::new());

fn json_escape(s: &str) -> String {
    s.chars()
        .flat_map(|c| match c {
            '"' => vec!['\\', '"'],
            '\\' => vec!['\\', '\\'],
            '\n' => vec!['\\', 'n'],
            c => vec![c],
        })
        .collect()
}

/// One iteration: run the profile body, print its trace and result.
fn iteration(profile: &'static str, base_seed: u64) {
    let iter = ITER.fetch_add(1, Ordering::SeqCst);
    let seed = base_seed
        .wrapping_mul(0x9E37_79B9_7F4A_7C15)
        .wrapping_add(iter.wrapping_mul(0xD1B5_4A32_D192_ED03));
    rt::set_tid(0);
    trace::reset();
    trace::set_cur_val(0);
    trace::set_cur_handle(-1);
    let out = match profile {
        "writer" => profiles::writer(seed, iter),
        "token" => profiles::token(seed),
        "alloc" => profiles::alloc(seed),
        _ => unreachable!(),
    };
    let entries = trace::take();
    let mut line = trace::render_trace(profile, iter, seed, &entries);
    line.push('\n');
    let viol: Vec<String> = out
        .violations
        .iter()
        .map(|v| format!("\"{}\"", json_escape(v)))
        .collect();
    let stats: Vec<String> = out
        .stats
        .iter()
        .map(|(k, v)| format!("\"{}\":{}", k, v))
        .collect();
    line.push_str(&format!(
        "{{\"kind\":\"result\",\"profile\":\"{}\",\"iter\":{},\"seed\":{},\"events\":{},\"ok\":{},\"violations\":[{}],\"stats\":{{{}}}}}",
        profile,
        iter,
        seed,
        entries.len(),
        out.violations.is_empty(),
        viol.join(","),
        stats.join(",")
    ));
    println!("{line}");
    VIOLATIONS.fetch_add(out.violations.len() as u64, Ordering::SeqCst);
    let mut g = STATS.lock().unwrap_or_else(|e| e.into_inner());
    for (k, v) in out.stats {
        if let Some(e) = g.iter_mut().find(|e| e.0 == k) {
            e.1 += v;
        } else {
            g.push((k, v));
        }
    }
}

fn usage() -> ! {
    eprintln!("usage: harness-conc <writer|token|alloc> --iters N --seed S --sched pct|random");
    std::process::exit(2);
}

fn main() {
    let args: Vec<String> = std::env::args().collect();
    if args.len() < 2 {
        usage();
    }
    let profile: &'static str = match args[1].as_str() {
        "writer" => "writer",
        "token" => "token",
        "alloc" => "alloc",
        _ => usage(),
    };
    let mut iters: u64 = 10;
    let mut seed: u64 = 1;
    let mut policy = Policy::Pct;
    let mut i = 2;
    while i < args.len() {
        match args[i].as_str() {
            "--iters" => {
                iters = args.get(i + 1).and_then(|s| s.parse().ok()).unwrap_or_else(|| usage());
                i += 2;
            }
            "--seed" => {
                seed = args.get(i + 1).and_then(|s| s.parse().ok()).unwrap_or_else(|| usage());
                i += 2;
            }
            "--sched" => {
                policy = match args.get(i + 1).map(|s| s.as_str()) {
                    Some("pct") => Policy::Pct,
                    Some("random") => Policy::Random,
                    _ => usage(),
                };
                i += 2;
            }
            _ => usage(),
        }
    }

    salsa::verif_conc::set_sink(Some(Box::new(trace::sink)));

    #[cfg(feature = "shuttle")]
    {
        if profile != "alloc" && std::env::var_os("HARNESS_CONC_FORCE_SHUTTLE").is_none() {
            println!(
                "{{\"kind\":\"error\",\"profile\":\"{}\",\"error\":\"the {} profile unwinds with Cancelled and needs the thread build (cargo build --no-default-features): shuttle switches tasks while std::thread::panicking() is true, see README.md\"}}",
                profile, profile
            );
            std::process::exit(2);
        }
        let mut config = shuttle::Config::default();
        config.stack_size = 1024 * 1024;
        let body = move || iteration(profile, seed);
        match policy {
            Policy::Pct => {
                let s = shuttle::scheduler::PctScheduler::new_from_seed(seed, 3, iters as usize);
                shuttle::Runner::new(s, config).run(body);
            }
            Policy::Random => {
                let s = shuttle::scheduler::RandomScheduler::new_from_seed(seed, iters as usize);
                shuttle::Runner::new(s, config).run(body);
            }
        }
    }

    #[cfg(not(feature = "shuttle"))]
    {
        // watchdog: the baton scheduler must keep moving
        std::thread::spawn(|| {
            let mut last = (0u64, 0usize);
            let mut since = std::time::Instant::now();
            loop {
                std::thread::sleep(std::time::Duration::from_millis(200));
                let now = (rt::baton::progress(), ITER.load(Ordering::SeqCst) as usize);
                if now != last {
                    last = now;
                    since = std::time::Instant::now();
                } else if since.elapsed() > std::time::Duration::from_secs(20) {
                    println!(
                        "{{\"kind\":\"stall\",\"iter\":{},\"error\":\"no scheduling progress for 20 s\"}}",
                        now.1
                    );
                    std::process::exit(3);
                }
            }
        });
        for _ in 0..iters {
            let it = ITER.load(Ordering::SeqCst);
            let s = seed
                .wrapping_mul(0x9E37_79B9_7F4A_7C15)
                .wrapping_add(it.wrapping_mul(0xD1B5_4A32_D192_ED03));
            rt::set_tid(0);
            rt::baton::reset(s, policy);
            iteration(profile, seed);
        }
    }

    let stats: Vec<String> = STATS
        .lock()
        .unwrap_or_else(|e| e.into_inner())
        .iter()
        .map(|(k, v)| format!("\"{}\":{}", k, v))
        .collect();
    let v = VIOLATIONS.load(Ordering::SeqCst);
    #[cfg(not(feature = "shuttle"))]
    let steals = rt::baton::steals();
    #[cfg(feature = "shuttle")]
    let steals = 0u64;
    println!(
        "{{\"kind\":\"summary\",\"profile\":\"{}\",\"iters\":{},\"seed\":{},\"sched\":\"{}\",\"runtime\":\"{}\",\"baton_steals\":{},\"violations\":{},\"stats\":{{{}}}}}",
        profile,
        ITER.load(Ordering::SeqCst),
        seed,
        if policy == Policy::Pct { "pct" } else { "random" },
        if cfg!(feature = "shuttle") { "shuttle" } else { "threads-baton" },
        steals,
        v,
        stats.join(",")
    );
    std::process::exit(if v == 0 { 0 } else { 1 });
}

//! The three profiles.  Each returns the harness-level verdicts; the abstract trace is in the log.

use std::collections::HashMap;
use std::panic::AssertUnwindSafe;
use std::sync::atomic::AtomicUsize;
use std::sync::Arc;

use salsa::plumbing::{AsId, FromId};
use salsa::{Cancelled, Database, Durability, Setter};

use crate::db::*;
use crate::rt::{self, baton, Rng};
use crate::trace::{self, HEv};
use crate::IterOut;

fn epoch(db: &Db) -> (usize, u8) {
    let (r, c, _) = salsa::verif_conc::epoch(db);
    (r, c)
}

#[derive(Clone, Copy, Debug, PartialEq, Eq)]
pub enum Call {
    Deep0,
    Sum0,
    Top1,
    Top0,
    Sum1,
}

impl Call {
    fn name(self) -> &'static str {
        match self {
            Call::Deep0 => "deep0",
            Call::Sum0 => "sum0",
            Call::Top1 => "top1",
            Call::Top0 => "top0",
            Call::Sum1 => "sum1",
        }
    }
    fn run(self, db: &Db, i0: In, i1: In) -> u32 {
        match self {
            Call::Deep0 => *deep(db, i0),
            Call::Sum0 => *sum(db, i0),
            Call::Top1 => *top(db, i1),
            Call::Top0 => *top(db, i0),
            Call::Sum1 => *sum(db, i1),
        }
    }
    /// the pure function of the input values (a0, b0, a1, b1)
    fn reference(self, v: (u32, u32, u32, u32)) -> u32 {
        match self {
            Call::Deep0 => ref_deep(v.0, v.1),
            Call::Sum0 => ref_sum(v.0, v.1),
            Call::Top1 => ref_top(v.2),
            Call::Top0 => ref_top(v.0),
            Call::Sum1 => ref_sum(v.2, v.3),
        }
    }
    fn pick(rng: &mut Rng) -> Call {
        match rng.below(5) {
            0 => Call::Deep0,
            1 => Call::Sum0,
            2 => Call::Top1,
            3 => Call::Top0,
            _ => Call::Sum1,
        }
    }
}

#[derive(Clone, Debug)]
pub struct Res {
    pub h: usize,
    pub call: Call,
    /// Ok(value, revision at start, revision at end) or Err(1 Local | 2 PendingWrite | 3 PropagatedPanic)
    pub outcome: Result<(u32, usize, usize), u8>,
}

/// One outermost tracked-function call on handle `h`, with its Start / Finish / Caught events.
fn call(h: &H, c: Call, i0: In, i1: In) -> Res {
    h.enter();
    let (rev, count) = epoch(&h.db);
    trace::log(HEv::Start { rev, count, what: c.name() });
    let r = Cancelled::catch(AssertUnwindSafe(|| c.run(&h.db, i0, i1)));
    let outcome = match r {
        Ok(v) => {
            let (rev2, count2) = epoch(&h.db);
            trace::log(HEv::Finish { rev: rev2, count: count2, value: v as u64 });
            Ok((v, rev, rev2))
        }
        Err(c) => {
            let why = match c {
                Cancelled::Local => 1,
                Cancelled::PendingWrite => 2,
                Cancelled::PropagatedPanic => 3,
                _ => 9,
            };
            trace::log(HEv::Caught { why });
            Err(why)
        }
    };
    Res { h: h.n, call: c, outcome }
}

fn in_value(b: u32) -> u64 {
    (1u64 << 40) | b as u64
}

fn new_in(h: &H, a: u32, b: u32) -> In {
    h.enter();
    trace::set_cur_val(in_value(b));
    let i = In::new(&h.db, a, b);
    let id = i.as_id();
    trace::log(HEv::Created { kind: "in", index: id.index(), generation: id.generation(), value: in_value(b) });
    i
}

// ==========================================================================================
// writer
// ==========================================================================================

pub fn writer(seed: u64, iter: u64) -> IterOut {
    let mut rng = Rng(seed);
    let mut viol: Vec<String> = Vec::new();
    let next_tid = Arc::new(AtomicUsize::new(1));
    let mut n_cancelled = 0u64;
    let mut n_finished = 0u64;
    let mut n_propagated = 0u64;
    let mut n_writes = 0u64;

    let mut root = H::root();
    let mut vals = (
        rng.below(8) as u32,
        rng.below(8) as u32,
        rng.below(8) as u32,
        rng.below(8) as u32,
    );
    let i0 = new_in(&root, vals.0, vals.1);
    let i1 = new_in(&root, vals.2, vals.3);
    let mut at_rev: HashMap<usize, (u32, u32, u32, u32)> = HashMap::new();
    at_rev.insert(epoch(&root.db).0, vals);

    // the u8 wrap of the cancellation count: 256 cancellations without a new revision
    if iter == 0 {
        for _ in 0..257 {
            root.enter();
            root.db.trigger_cancellation();
            let (rev, count) = epoch(&root.db);
            trace::log(HEv::Mutated { new_rev: false, rev, count, what: "trigger_cancellation" });
            at_rev.insert(rev, vals);
            n_writes += 1;
        }
    }

    let rounds = 2 + rng.below(2);
    for _round in 0..rounds {
        let nreaders = 1 + rng.below(3) as usize;
        let mut joins = Vec::new();
        for _ in 0..nreaders {
            let h = root.clone_handle();
            let plan: Vec<Call> = (0..1 + rng.below(3)).map(|_| Call::pick(&mut rng)).collect();
            joins.push(rt::spawn(&next_tid, move || {
                let mut out = Vec::new();
                for c in plan {
                    let r = call(&h, c, i0, i1);
                    let stop = matches!(r.outcome, Err(2));
                    out.push(r);
                    if stop {
                        break;
                    }
                    baton::yield_point();
                }
                drop(h);
                out
            }));
        }
        root.enter();
        for _ in 0..rng.below(6) {
            baton::yield_point();
            #[cfg(feature = "shuttle")]
            rt::thread::yield_now();
        }
        // the write: blocks in cancel_others until every reader handle is gone
        let (new_rev, what): (bool, &'static str) = match rng.below(6) {
            0 => {
                vals.0 = rng.below(8) as u32;
                i0.set_a(&mut root.db).to(vals.0);
                (true, "set i0.a")
            }
            1 => {
                vals.2 = rng.below(8) as u32;
                i1.set_a(&mut root.db).to(vals.2);
                (true, "set i1.a")
            }
            2 => {
                root.db.synthetic_write(Durability::LOW);
                (true, "synthetic_write")
            }
            3 => {
                root.db.trigger_cancellation();
                (false, "trigger_cancellation")
            }
            4 => {
                set_sum_lru_capacity(&mut root.db, 1 + rng.below(4) as usize);
                (false, "set_lru_capacity")
            }
            _ => {
                root.db.trigger_lru_eviction();
                (false, "trigger_lru_eviction")
            }
        };
        n_writes += 1;
        let (rev, count) = epoch(&root.db);
        trace::log(HEv::Mutated { new_rev, rev, count, what });
        at_rev.insert(rev, vals);

        for j in joins {
            for r in j.join() {
                match r.outcome {
                    Ok((v, rs, re)) => {
                        n_finished += 1;
                        if rs != re {
                            viol.push(format!("reader h{} {:?}: revision changed during the computation ({} -> {})", r.h, r.call, rs, re));
                        }
                        match at_rev.get(&rs) {
                            Some(&vv) if r.call.reference(vv) == v => {}
                            other => viol.push(format!(
                                "reader h{} {:?}: value {} is not the result for revision {} (inputs {:?})",
                                r.h, r.call, v, rs, other
                            )),
                        }
                    }
                    Err(2) => n_cancelled += 1,
                    Err(3) => n_propagated += 1,
                    Err(w) => viol.push(format!("reader h{} {:?}: unexpected Cancelled payload {}", r.h, r.call, w)),
                }
            }
        }

        // after the write everything equals a from-scratch evaluation
        for c in [Call::Deep0, Call::Top1, Call::Top0, Call::Sum1] {
            let r = call(&root, c, i0, i1);
            match r.outcome {
                Ok((v, _, _)) if v == c.reference(vals) => {}
                other => viol.push(format!("after write: {:?} = {:?}, expected {}", c, other, c.reference(vals))),
            }
        }
    }
    drop(root);
    IterOut {
        violations: viol,
        stats: vec![
            ("writes", n_writes),
            ("reader_finished", n_finished),
            ("reader_pending_write", n_cancelled),
            ("reader_propagated_panic", n_propagated),
        ],
    }
}

// ==========================================================================================
// token
// ==========================================================================================

pub fn token(seed: u64) -> IterOut {
    let mut rng = Rng(seed);
    let mut viol: Vec<String> = Vec::new();
    let next_tid = Arc::new(AtomicUsize::new(1));

    let root = H::root();
    let vals = (
        rng.below(8) as u32,
        rng.below(8) as u32,
        rng.below(8) as u32,
        rng.below(8) as u32,
    );
    let i0 = new_in(&root, vals.0, vals.1);
    let i1 = new_in(&root, vals.2, vals.3);

    let nworkers = 2 + rng.below(2) as usize;
    let mut handles = Vec::new();
    let mut tokens = Vec::new();
    for _ in 0..nworkers {
        let h = root.clone_handle();
        tokens.push((h.n, h.db.cancellation_token()));
        handles.push(h);
    }

    // the canceller has no database handle
    let ncancels = 1 + rng.below(4);
    let cplan: Vec<(u64, usize)> = (0..ncancels)
        .map(|_| (rng.below(12), rng.below(nworkers as u64) as usize))
        .collect();
    let canceller = rt::spawn(&next_tid, move || {
        trace::set_cur_handle(-1);
        let mut n = 0u64;
        for (pre, target) in cplan {
            for _ in 0..pre {
                baton::yield_point();
            }
            let (hn, tok) = &tokens[target];
            tok.cancel();
            trace::log(HEv::Cancel { target: *hn });
            n += 1;
            baton::yield_point();
        }
        n
    });

    let mut joins = Vec::new();
    for h in handles {
        let plan: Vec<Call> = (0..2 + rng.below(3)).map(|_| Call::pick(&mut rng)).collect();
        joins.push(rt::spawn(&next_tid, move || {
            let mut out = Vec::new();
            for c in plan {
                out.push(call(&h, c, i0, i1));
                baton::yield_point();
            }
            (h, out)
        }));
    }

    let n_cancels = canceller.join();
    let mut n_local = 0u64;
    let mut n_ok = 0u64;
    let mut n_pending_first = 0u64;
    let mut back = Vec::new();
    for j in joins {
        let (h, out) = j.join();
        for r in out {
            match r.outcome {
                Ok((v, _, _)) => {
                    n_ok += 1;
                    if v != r.call.reference(vals) {
                        viol.push(format!("worker h{} {:?}: value {} != reference {}", r.h, r.call, v, r.call.reference(vals)));
                    }
                }
                Err(1) => n_local += 1,
                Err(w) => viol.push(format!("worker h{} {:?}: Cancelled payload {} (only Local is possible here)", r.h, r.call, w)),
            }
        }
        back.push(h);
    }

    // no more cancel() calls from here on.  A request that arrived after a worker's last call is
    // still pending: it hits the next computation; after that the handle must work.
    for h in &back {
        let pending = salsa::verif_conc::token_byte(&h.db) & 1 != 0;
        let r = call(h, Call::Deep0, i0, i1);
        match (pending, &r.outcome) {
            (true, Err(1)) => {
                n_pending_first += 1;
                let r2 = call(h, Call::Top1, i0, i1);
                match r2.outcome {
                    Ok((v, _, _)) if v == Call::Top1.reference(vals) => {}
                    other => viol.push(format!("handle h{}: after the reset the request did not succeed: {:?}", h.n, other)),
                }
            }
            (false, Ok((v, _, _))) if *v == Call::Deep0.reference(vals) => {}
            (p, other) => viol.push(format!("handle h{}: pending={} but the next request gave {:?}", h.n, p, other)),
        }
        if salsa::verif_conc::token_byte(&h.db) != 0 {
            viol.push(format!("handle h{}: token byte {} after the outermost call ended", h.n, salsa::verif_conc::token_byte(&h.db)));
        }
    }
    let unwound = trace::LOG
        .lock()
        .unwrap_or_else(|e| e.into_inner())
        .entries
        .iter()
        .filter(|e| matches!(e.kind, trace::Kind::Harness(HEv::UnwoundThroughFixpoint)))
        .count() as u64;
    if unwound > 0 {
        viol.push(format!("{unwound} unwind(s) passed through the body of a fixpoint function"));
    }
    drop(back);
    drop(root);
    IterOut {
        violations: viol,
        stats: vec![
            ("cancels", n_cancels),
            ("local_unwinds", n_local),
            ("calls_ok", n_ok),
            ("pending_request_hit_next_computation", n_pending_first),
        ],
    }
}

// ==========================================================================================
// alloc
// ==========================================================================================

#[derive(Clone, Copy)]
enum Obj {
    In(In, u32),
    In2(In2, u32),
    Name(salsa::Id, u32),
    Pair(salsa::Id, u32, u32),
    Node(salsa::Id, u32, u32),
}

fn name_value(t: u32) -> u64 {
    (4u64 << 40) | t as u64
}
fn pair_value(x: u32, y: u32) -> u64 {
    (5u64 << 40) | ((x as u64) << 16) | y as u64
}
fn in2_value(c: u32) -> u64 {
    (2u64 << 40) | c as u64
}

impl Obj {
    fn id(&self) -> salsa::Id {
        match *self {
            Obj::In(i, _) => i.as_id(),
            Obj::In2(i, _) => i.as_id(),
            Obj::Name(id, _) | Obj::Pair(id, _, _) | Obj::Node(id, _, _) => id,
        }
    }
    fn kind(&self) -> &'static str {
        match self {
            Obj::In(..) => "in",
            Obj::In2(..) => "in2",
            Obj::Name(..) => "name",
            Obj::Pair(..) => "pair",
            Obj::Node(..) => "node",
        }
    }
    fn value(&self) -> u64 {
        match *self {
            Obj::In(_, b) => in_value(b),
            Obj::In2(_, c) => in2_value(c),
            Obj::Name(_, t) => name_value(t),
            Obj::Pair(_, x, y) => pair_value(x, y),
            Obj::Node(_, idx, p) => node_value(idx, p),
        }
    }
    /// read the fields back through the public API; the hash of what was read
    fn read(&self, db: &Db) -> u64 {
        match *self {
            Obj::In(i, _) => in_value(i.b(db)),
            Obj::In2(i, _) => in2_value(i.c(db)),
            Obj::Name(id, _) => name_value(Name::from_id(id).text(db)),
            Obj::Pair(id, _, _) => {
                let p = Pair::from_id(id);
                pair_value(p.x(db), p.y(db))
            }
            Obj::Node(id, _, _) => {
                let n = Node::from_id(id);
                node_value(n.idx(db), n.payload(db))
            }
        }
    }
}

fn readback(h: &H, o: &Obj, viol: &mut Vec<String>) {
    h.enter();
    let got = o.read(&h.db);
    let id = o.id();
    trace::log(HEv::ReadBack { kind: o.kind(), index: id.index(), generation: id.generation(), value: got });
    if got != o.value() {
        viol.push(format!("{} {:?}: read back {:#x}, created with {:#x}", o.kind(), id, got, o.value()));
    }
}

fn created(o: &Obj) {
    let id = o.id();
    trace::log(HEv::Created { kind: o.kind(), index: id.index(), generation: id.generation(), value: o.value() });
}

/// the nodes `make` returns for `i`, as objects
fn make_nodes(h: &H, i: In) -> Vec<Obj> {
    h.enter();
    let b = i.b(&h.db);
    let (rev, count) = epoch(&h.db);
    trace::log(HEv::Start { rev, count, what: "make" });
    let v: Vec<Obj> = make(&h.db, i)
        .iter()
        .enumerate()
        .map(|(j, n)| Obj::Node(n.as_id(), j as u32, b.wrapping_add(j as u32) & 0xFFFFF))
        .collect();
    let (rev, count) = epoch(&h.db);
    trace::log(HEv::Finish { rev, count, value: v.len() as u64 });
    v
}

struct Worker {
    objs: Vec<Obj>,
    makes: Vec<In>,
    viol: Vec<String>,
}

fn alloc_worker(mut h: H, seed: u64, tno: u32, phase: u32, fill: bool) -> Worker {
    let mut rng = Rng(seed);
    let mut w = Worker { objs: Vec::new(), makes: Vec::new(), viol: Vec::new() };
    if fill {
        // more than PAGE_LEN values of one ingredient: the cached page fills up (Load full, Push)
        h.enter();
        for k in 0..140u32 {
            let c = (1 << 24) | (phase << 16) | (tno << 8) | k;
            trace::set_cur_val(in2_value(c));
            let o = Obj::In2(In2::new(&h.db, c), c);
            created(&o);
            w.objs.push(o);
        }
    }
    let nops = 4 + rng.below(5);
    for k in 0..nops {
        h.enter();
        let uniq = (phase << 16) | (tno << 8) | k as u32;
        match rng.below(8) {
            0 => {
                let b = uniq;
                trace::set_cur_val(in_value(b));
                let o = Obj::In(In::new(&h.db, 0, b), b);
                created(&o);
                w.objs.push(o);
            }
            1 => {
                let c = uniq;
                trace::set_cur_val(in2_value(c));
                let o = Obj::In2(In2::new(&h.db, c), c);
                created(&o);
                w.objs.push(o);
            }
            2 => {
                // a value only this thread interns
                let t = 1000 + uniq;
                trace::set_cur_val(name_value(t));
                let o = Obj::Name(Name::new(&h.db, t).as_id(), t);
                created(&o);
                w.objs.push(o);
            }
            3 => {
                // a value several threads intern: must be canonical
                let t = rng.below(3) as u32;
                trace::set_cur_val(name_value(t));
                let o = Obj::Name(Name::new(&h.db, t).as_id(), t);
                created(&o);
                w.objs.push(o);
            }
            4 => {
                let (x, y) = (uniq & 0xFFFF, rng.below(4) as u32);
                trace::set_cur_val(pair_value(x, y));
                let o = Obj::Pair(Pair::new(&h.db, x, y).as_id(), x, y);
                created(&o);
                w.objs.push(o);
            }
            5 | 6 => {
                // tracked structs, created inside a tracked function
                let a = 1 + rng.below(3) as u32;
                let b = uniq & 0xFFFF;
                trace::set_cur_val(in_value(b));
                let i = In::new(&h.db, a, b);
                let o = Obj::In(i, b);
                created(&o);
                w.objs.push(o);
                w.makes.push(i);
                let nodes = make_nodes(&h, i);
                w.objs.extend(nodes);
            }
            _ => {
                // drop the handle and continue on a fresh one
                let nh = h.clone_handle();
                drop(std::mem::replace(&mut h, nh));
            }
        }
        // read one earlier object back on this handle
        if !w.objs.is_empty() {
            let o = w.objs[rng.below(w.objs.len() as u64) as usize];
            readback(&h, &o, &mut w.viol);
        }
    }
    drop(h);
    w
}

pub fn alloc(seed: u64) -> IterOut {
    let mut rng = Rng(seed);
    let mut viol: Vec<String> = Vec::new();
    let next_tid = Arc::new(AtomicUsize::new(1));
    let mut root = H::root();
    let nthreads = 2 + rng.below(3) as u32;
    let mut live: Vec<Obj> = Vec::new();
    let mut makes: Vec<In> = Vec::new();
    let mut n_freed = 0u64;

    for phase in 0..2u32 {
        let mut joins = Vec::new();
        for t in 0..nthreads {
            let h = root.clone_handle();
            let s = rng.next();
            let fill = t == 0 && phase == 0 && rng.chance(1, 6);
            joins.push(rt::spawn(&next_tid, move || alloc_worker(h, s, t, phase, fill)));
        }
        for j in joins {
            let w = j.join();
            viol.extend(w.viol);
            live.extend(w.objs);
            makes.extend(w.makes);
        }
        if phase == 0 {
            // every other handle is gone: shrink the struct-creating inputs, re-run `make`;
            // the structs that are no longer created are deleted and go to the free list
            root.enter();
            for &i in &makes {
                let a = i.a(&root.db);
                if a > 0 && rng.chance(2, 3) {
                    i.set_a(&mut root.db).to(a - 1);
                    let (rev, count) = epoch(&root.db);
                    trace::log(HEv::Mutated { new_rev: true, rev, count, what: "set a" });
                }
            }
            let mut still: Vec<Obj> = live.iter().copied().filter(|o| !matches!(o, Obj::Node(..))).collect();
            for &i in &makes {
                still.extend(make_nodes(&root, i));
            }
            n_freed += (live.len() - still.len()) as u64;
            live = still;
        }
    }

    // all live objects: pairwise distinct identities (interned: per distinct value), fields intact
    root.enter();
    let mut by_id: HashMap<(u32, u32), (&'static str, u64)> = HashMap::new();
    let mut by_index: HashMap<u32, (u32, u64)> = HashMap::new();
    for o in &live {
        readback(&root, o, &mut viol);
        let id = o.id();
        let key = (id.index(), id.generation());
        match by_id.get(&key) {
            Some(&(k, v)) if k == o.kind() && v == o.value() => {}
            Some(&(k, v)) => viol.push(format!(
                "identity {:?} is shared by {} {:#x} and {} {:#x}", id, k, v, o.kind(), o.value()
            )),
            None => {
                by_id.insert(key, (o.kind(), o.value()));
            }
        }
        match by_index.get(&id.index()) {
            Some(&(g, v)) if g != id.generation() || v != o.value() => viol.push(format!(
                "slot {} is live under two identities (generations {} and {})", id.index(), g, id.generation()
            )),
            Some(_) => {}
            None => {
                by_index.insert(id.index(), (id.generation(), o.value()));
            }
        }
    }
    let n_live = by_id.len() as u64;
    drop(root);
    IterOut {
        violations: viol,
        stats: vec![("threads", nthreads as u64), ("live_objects", n_live), ("structs_deleted", n_freed)],
    }
}

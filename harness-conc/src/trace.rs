//! The per-iteration event log and its JSON rendering.

use std::cell::Cell;
use std::fmt::Write as _;
use std::sync::Mutex;

use salsa::verif_conc::Ev;

use crate::rt;

/// Events logged by the harness itself (everything salsa cannot know).
#[derive(Debug, Clone)]
pub enum HEv {
    /// a tracked-function call begins on the handle (outermost call of the thread)
    Start { rev: usize, count: u8, what: &'static str },
    /// ... returned
    Finish { rev: usize, count: u8, value: u64 },
    /// ... unwound with `Cancelled`: 1 Local, 2 PendingWrite, 3 PropagatedPanic
    Caught { why: u8 },
    /// `token.cancel()` on handle `target`
    Cancel { target: usize },
    /// salsa event DidSetCancellationFlag
    FlagEvent,
    /// salsa event WillBlockOn
    WillBlock,
    /// the caller's mutation through `&mut Zalsa` is done
    Mutated { new_rev: bool, rev: usize, count: u8, what: &'static str },
    /// a struct was created: kind, id, hash of the fields
    Created { kind: &'static str, index: u32, generation: u32, value: u64 },
    /// a struct's fields were read back
    ReadBack { kind: &'static str, index: u32, generation: u32, value: u64 },
    /// a new handle number was assigned (at the CloneEnd hook)
    NewHandle { n: usize },
    /// an unwind passed through the body of a fixpoint function
    UnwoundThroughFixpoint,
    /// free-form marker
    Note { text: &'static str },
}

#[derive(Debug, Clone)]
pub enum Kind {
    Hook(Ev),
    Harness(HEv),
}

#[derive(Debug, Clone)]
pub struct Entry {
    pub t: usize,
    pub h: i64,
    pub v: u64,
    /// handle number of the token address carried by the event, resolved when logged
    pub hn: i64,
    pub kind: Kind,
}

pub struct Log {
    pub entries: Vec<Entry>,
    /// token address -> handle number
    pub handles: Vec<(usize, usize)>,
    pub next_handle: usize,
}

pub static LOG: Mutex<Log> = Mutex::new(Log {
    entries: Vec::new(),
    handles: Vec::new(),
    next_handle: 1,
});

crate::rt::thread_local! {
    /// the handle the current thread is operating on
    static CUR_HANDLE: Cell<i64> = Cell::new(-1);
    /// the value hash of the struct the current thread is about to create
    static CUR_VAL: Cell<u64> = Cell::new(0);
    /// the handle number assigned by the last CloneEnd on this thread
    static LAST_CLONED: Cell<usize> = Cell::new(usize::MAX);
}

pub fn set_cur_handle(h: i64) {
    CUR_HANDLE.with(|c| c.set(h));
}
pub fn cur_handle() -> i64 {
    CUR_HANDLE.with(|c| c.get())
}
pub fn set_cur_val(v: u64) {
    CUR_VAL.with(|c| c.set(v));
}
pub fn take_last_cloned() -> usize {
    LAST_CLONED.with(|c| c.replace(usize::MAX))
}

fn lock() -> std::sync::MutexGuard<'static, Log> {
    LOG.lock().unwrap_or_else(|e| e.into_inner())
}

pub fn reset() {
    let mut g = lock();
    g.entries.clear();
    g.handles.clear();
    g.next_handle = 1;
}

pub fn register_handle(token_addr: usize, n: usize) {
    let mut g = lock();
    g.handles.retain(|e| e.0 != token_addr);
    g.handles.push((token_addr, n));
}

pub fn take() -> Vec<Entry> {
    std::mem::take(&mut lock().entries)
}

/// Log a harness event (no scheduling point).
pub fn log(ev: HEv) {
    let e = Entry {
        t: rt::tid(),
        h: cur_handle(),
        v: CUR_VAL.with(|c| c.get()),
        hn: -1,
        kind: Kind::Harness(ev),
    };
    lock().entries.push(e);
}

/// The sink installed into salsa.
pub fn sink(ev: &Ev, may_yield: bool) {
    {
        let mut g = lock();
        let hn = match *ev {
            Ev::TokSetDisabled { handle, .. }
            | Ev::TokReset { handle }
            | Ev::Attach { handle, .. }
            | Ev::Check { handle, .. } => handle_no(&g.handles, handle),
            _ => -1,
        };
        let e = Entry {
            t: rt::tid(),
            h: cur_handle(),
            v: CUR_VAL.with(|c| c.get()),
            hn,
            kind: Kind::Hook(*ev),
        };
        g.entries.push(e);
        if let Ev::CloneEnd = ev {
            let n = g.next_handle;
            g.next_handle += 1;
            LAST_CLONED.with(|c| c.set(n));
            let e = Entry {
                t: rt::tid(),
                h: cur_handle(),
                v: 0,
                hn: -1,
                kind: Kind::Harness(HEv::NewHandle { n }),
            };
            g.entries.push(e);
        }
    }
    if may_yield {
        rt::baton::yield_point();
    }
}

fn handle_no(map: &[(usize, usize)], addr: usize) -> i64 {
    map.iter().find(|e| e.0 == addr).map(|e| e.1 as i64).unwrap_or(-1)
}

fn opt(n: Option<usize>) -> String {
    match n {
        Some(n) => n.to_string(),
        None => "null".to_string(),
    }
}

/// One event as a JSON object `{"t":..,"h":..,"v":..,"e":"Name",...}`.
pub fn render(e: &Entry) -> String {
    let mut s = String::new();
    let _ = write!(s, "{{\"t\":{},\"h\":{},\"v\":{},", e.t as i64, e.h, e.v);
    match &e.kind {
        Kind::Hook(ev) => match *ev {
            Ev::TokSetDisabled { disabled, prev, .. } => {
                let _ = write!(s, "\"e\":\"TokSetDisabled\",\"handle\":{},\"disabled\":{},\"prev\":{}", e.hn, disabled, prev);
            }
            Ev::DisGuardNew => s.push_str("\"e\":\"DisGuardNew\""),
            Ev::DisGuardDrop => s.push_str("\"e\":\"DisGuardDrop\""),
            Ev::TokReset { .. } => {
                let _ = write!(s, "\"e\":\"TokReset\",\"handle\":{}", e.hn);
            }
            Ev::Attach { attached_here, allow_change, .. } => {
                let _ = write!(s, "\"e\":\"Attach\",\"handle\":{},\"attached_here\":{},\"allow_change\":{}", e.hn, attached_here, allow_change);
            }
            Ev::Detach { attached_here } => {
                let _ = write!(s, "\"e\":\"Detach\",\"attached_here\":{}", attached_here);
            }
            Ev::Check { outcome, .. } => {
                let _ = write!(s, "\"e\":\"Check\",\"handle\":{},\"outcome\":{}", e.hn, outcome);
            }
            Ev::CloneBegin => s.push_str("\"e\":\"CloneBegin\""),
            Ev::CloneEnd => s.push_str("\"e\":\"CloneEnd\""),
            Ev::DropBegin => s.push_str("\"e\":\"DropBegin\""),
            Ev::DropCoord => s.push_str("\"e\":\"DropCoord\""),
            Ev::SetFlag => s.push_str("\"e\":\"SetFlag\""),
            Ev::Waited { clones } => {
                let _ = write!(s, "\"e\":\"Waited\",\"clones\":{}", clones);
            }
            Ev::ClearFlag => s.push_str("\"e\":\"ClearFlag\""),
            Ev::Bump { overflow, count, rev } => {
                let _ = write!(s, "\"e\":\"Bump\",\"overflow\":{},\"count\":{},\"rev\":{}", overflow, count, rev);
            }
            Ev::Stamp { verified_at, count, iteration, has_value } => {
                let _ = write!(s, "\"e\":\"Stamp\",\"verified_at\":{},\"count\":{},\"iteration\":{},\"has_value\":{}", verified_at, count, iteration, has_value);
            }
            Ev::PrevIterIn { cur_rev, cur_count, verified_at, stamp, has_value, is_head } => {
                let _ = write!(s, "\"e\":\"PrevIterIn\",\"cur_rev\":{},\"cur_count\":{},\"verified_at\":{},\"stamp\":{},\"has_value\":{},\"is_head\":{}", cur_rev, cur_count, verified_at, stamp, has_value, is_head);
            }
            Ev::PrevIterOut { kept, reuse, iteration } => {
                let _ = write!(s, "\"e\":\"PrevIterOut\",\"kept\":{},\"reuse\":{},\"iteration\":{}", kept, reuse, iteration);
            }
            Ev::ColdCycleIn { cur_rev, cur_count, verified_at, stamp, has_value, may_be_provisional, is_head } => {
                let _ = write!(s, "\"e\":\"ColdCycleIn\",\"cur_rev\":{},\"cur_count\":{},\"verified_at\":{},\"stamp\":{},\"has_value\":{},\"may_be_provisional\":{},\"is_head\":{}", cur_rev, cur_count, verified_at, stamp, has_value, may_be_provisional, is_head);
            }
            Ev::ColdCycleReuse => s.push_str("\"e\":\"ColdCycleReuse\""),
            Ev::ColdCycleInitial { stamp } => {
                let _ = write!(s, "\"e\":\"ColdCycleInitial\",\"stamp\":{}", stamp);
            }
            Ev::CountGate { cur_count, stamp, pass } => {
                let _ = write!(s, "\"e\":\"CountGate\",\"cur_count\":{},\"stamp\":{},\"pass\":{}", cur_count, stamp, pass);
            }
            Ev::Push { ingredient, page } => {
                let _ = write!(s, "\"e\":\"Push\",\"ingredient\":{},\"page\":{}", ingredient, page);
            }
            Ev::Take { ingredient, page } => {
                let _ = write!(s, "\"e\":\"Take\",\"ingredient\":{},\"page\":{}", ingredient, opt(page));
            }
            Ev::Record { ingredient, page } => {
                let _ = write!(s, "\"e\":\"Record\",\"ingredient\":{},\"page\":{}", ingredient, page);
            }
            Ev::Load { page, index, full } => {
                let _ = write!(s, "\"e\":\"Load\",\"page\":{},\"index\":{},\"full\":{}", page, index, full);
            }
            Ev::Write { page, index } => {
                let _ = write!(s, "\"e\":\"Write\",\"page\":{},\"index\":{}", page, index);
            }
            Ev::Publish { page, index, id_index } => {
                let _ = write!(s, "\"e\":\"Publish\",\"page\":{},\"index\":{},\"id_index\":{}", page, index, id_index);
            }
            Ev::Free { ingredient, index, generation } => {
                let _ = write!(s, "\"e\":\"Free\",\"ingredient\":{},\"index\":{},\"generation\":{}", ingredient, index, generation);
            }
            Ev::Reuse { ingredient, index, generation, new_generation } => {
                let _ = write!(s, "\"e\":\"Reuse\",\"ingredient\":{},\"index\":{},\"generation\":{},\"new_generation\":{}", ingredient, index, generation, opt(new_generation.map(|g| g as usize)));
            }
            Ev::InternReuse { index, generation, new_generation } => {
                let _ = write!(s, "\"e\":\"InternReuse\",\"index\":{},\"generation\":{},\"new_generation\":{}", index, generation, new_generation);
            }
        },
        Kind::Harness(ev) => match ev {
            HEv::Start { rev, count, what } => {
                let _ = write!(s, "\"e\":\"Start\",\"rev\":{},\"count\":{},\"what\":\"{}\"", rev, count, what);
            }
            HEv::Finish { rev, count, value } => {
                let _ = write!(s, "\"e\":\"Finish\",\"rev\":{},\"count\":{},\"value\":{}", rev, count, value);
            }
            HEv::Caught { why } => {
                let _ = write!(s, "\"e\":\"Caught\",\"why\":{}", why);
            }
            HEv::Cancel { target } => {
                let _ = write!(s, "\"e\":\"Cancel\",\"target\":{}", target);
            }
            HEv::FlagEvent => s.push_str("\"e\":\"FlagEvent\""),
            HEv::WillBlock => s.push_str("\"e\":\"WillBlock\""),
            HEv::Mutated { new_rev, rev, count, what } => {
                let _ = write!(s, "\"e\":\"Mutated\",\"new_rev\":{},\"rev\":{},\"count\":{},\"what\":\"{}\"", new_rev, rev, count, what);
            }
            HEv::Created { kind, index, generation, value } => {
                let _ = write!(s, "\"e\":\"Created\",\"kind\":\"{}\",\"index\":{},\"generation\":{},\"value\":{}", kind, index, generation, value);
            }
            HEv::ReadBack { kind, index, generation, value } => {
                let _ = write!(s, "\"e\":\"ReadBack\",\"kind\":\"{}\",\"index\":{},\"generation\":{},\"value\":{}", kind, index, generation, value);
            }
            HEv::NewHandle { n } => {
                let _ = write!(s, "\"e\":\"NewHandle\",\"n\":{}", n);
            }
            HEv::UnwoundThroughFixpoint => s.push_str("\"e\":\"UnwoundThroughFixpoint\""),
            HEv::Note { text } => {
                let _ = write!(s, "\"e\":\"Note\",\"text\":\"{}\"", text);
            }
        },
    }
    s.push('}');
    s
}

pub fn render_trace(profile: &str, iter: u64, seed: u64, entries: &[Entry]) -> String {
    let mut s = String::new();
    let _ = write!(s, "{{\"kind\":\"trace\",\"profile\":\"{}\",\"iter\":{},\"seed\":{},\"events\":[", profile, iter, seed);
    for (i, e) in entries.iter().enumerate() {
        if i > 0 {
            s.push(',');
        }
        s.push_str(&render(e));
    }
    s.push_str("]}");
    s
}

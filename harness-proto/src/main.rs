//! proto_harness — multi-threaded salsa workloads whose claim / wait / transfer protocol steps are
//! recorded by hook H2 (`salsa::verif_take_proto_trace`) and written one trace file per
//! iteration, to be replayed through the Coq-extracted protocol model
//! (`/verif/ocaml/proto/replay.ml`).
//!
//! usage: proto_harness --out DIR [--iters N] [--seed S] [--workload NAME] [--scheduler pct|random]
//!                      [--replay SCHEDULEFILE [--warmup N]]      (shuttle build, with --workload)
//! When an execution dies under shuttle (an assertion inside salsa, a deadlock, the step bound) the
//! H2 trace of that execution up to the failure is written to `DIR.FAILED`.
//!
//! Workloads with the `shuttle` feature (default):
//!   acyclic      three threads requesting overlapping acyclic queries
//!   cycle_ab     a@t1 <-> b@t2 fixpoint cycle          (tests/parallel/cycle_a_t1_b_t2.rs)
//!   cycle_ab_fb  the same with FallbackImmediate       (tests/parallel/cycle_a_t1_b_t2_fallback.rs)
//!   nested3      a@t1 -> b@t2 -> c@t3 -> a, b          (tests/parallel/cycle_nested_three_threads.rs)
//!   deep         nested cycles entered by four threads (tests/parallel/cycle_nested_deep.rs)
//!   deep_cond    conditional nested cycles             (tests/parallel/cycle_nested_deep_conditional.rs)
//!   deep_cond_changed  the same after an input change  (tests/parallel/cycle_nested_deep_conditional_changed.rs)
//!   random_graph random (cyclic) call graphs, random entry points, 2-4 threads, two revisions
//! Workloads without it (`--no-default-features`, real OS threads):
//!   panic_waiter a query panics while another thread waits for it
//!   cycle_panic  panic in the recovery function of a cross-thread cycle (tests/parallel/cycle_panic.rs)
//!   cancel_token local cancellation while two threads wait (tests/parallel/cancellation_token_multi_blocked.rs)
//!   cancel_write a pending write cancels a reader that others wait for
//!   and all of the above, free-running

use std::io::Write as _;
use std::path::{Path, PathBuf};
use std::sync::atomic::{AtomicUsize, Ordering as StdOrdering};

#[cfg(feature = "shuttle")]
mod sync {
    pub use shuttle::sync::*;
    pub use shuttle::thread;
}

#[cfg(not(feature = "shuttle"))]
mod sync {
    pub use std::sync::*;
    pub use std::thread;
}

use sync::thread;

// ------------------------------------------------------------------------------------------------
// database
// ------------------------------------------------------------------------------------------------

#[salsa::db]
trait PDb: salsa::Database {
    /// number of `WillBlockOn` events seen so far on any handle
    fn blocked(&self) -> usize;
    /// generic stage counter used by the free-running (non-shuttle) workloads
    fn stage(&self) -> usize;
    fn set_stage(&self, s: usize);
}

#[salsa::db]
#[derive(Clone)]
struct Db {
    storage: salsa::Storage<Self>,
    blocked: sync::Arc<std::sync::atomic::AtomicUsize>,
    stage: sync::Arc<std::sync::atomic::AtomicUsize>,
}

impl Default for Db {
    fn default() -> Self {
        let blocked = sync::Arc::new(std::sync::atomic::AtomicUsize::new(0));
        let stage = sync::Arc::new(std::sync::atomic::AtomicUsize::new(0));
        Db {
            storage: salsa::Storage::new(Some(Box::new({
                let blocked = blocked.clone();
                move |event: salsa::Event| {
                    if let salsa::EventKind::WillBlockOn { .. } = event.kind {
                        blocked.fetch_add(1, StdOrdering::SeqCst);
                    }
                }
            }))),
            blocked,
            stage,
        }
    }
}

#[salsa::db]
impl salsa::Database for Db {}

#[salsa::db]
impl PDb for Db {
    fn blocked(&self) -> usize {
        self.blocked.load(StdOrdering::SeqCst)
    }
    fn stage(&self) -> usize {
        self.stage.load(StdOrdering::SeqCst)
    }
    fn set_stage(&self, s: usize) {
        self.stage.fetch_max(s, StdOrdering::SeqCst);
    }
}

/// free-running builds only: spin (politely) until `cond` holds or ~200 ms passed
#[cfg(not(feature = "shuttle"))]
fn spin_until(cond: impl Fn() -> bool) {
    let start = std::time::Instant::now();
    while !cond() && start.elapsed() < std::time::Duration::from_millis(200) {
        std::thread::yield_now();
    }
}

#[salsa::input]
struct Inp {
    #[returns(copy)]
    v: u32,
}

// ------------------------------------------------------------------------------------------------
// acyclic: overlapping requests
// ------------------------------------------------------------------------------------------------
mod acyclic {
    use super::*;

    #[salsa::tracked(returns(copy))]
    fn leaf1(db: &dyn PDb, i: Inp) -> u32 {
        i.v(db) + 1
    }
    #[salsa::tracked(returns(copy))]
    fn leaf2(db: &dyn PDb, i: Inp) -> u32 {
        i.v(db) * 2
    }
    #[salsa::tracked(returns(copy))]
    fn mid(db: &dyn PDb, i: Inp) -> u32 {
        leaf1(db, i) + leaf2(db, i)
    }
    #[salsa::tracked(returns(copy))]
    fn top_a(db: &dyn PDb, i: Inp) -> u32 {
        mid(db, i) + leaf1(db, i)
    }
    #[salsa::tracked(returns(copy))]
    fn top_b(db: &dyn PDb, i: Inp) -> u32 {
        leaf2(db, i) + mid(db, i)
    }

    pub fn run() {
        let db = Db::default();
        let i = Inp::new(&db, 5);
        let (d1, d2, d3) = (db.clone(), db.clone(), db.clone());
        let t1 = thread::spawn(move || top_a(&d1, i));
        let t2 = thread::spawn(move || top_b(&d2, i));
        let t3 = thread::spawn(move || mid(&d3, i));
        let r = (t1.join().unwrap(), t2.join().unwrap(), t3.join().unwrap());
        assert_eq!(r, (22, 26, 16));
    }
}

// ------------------------------------------------------------------------------------------------
// cycle a@t1 <-> b@t2
// ------------------------------------------------------------------------------------------------
mod cycle_ab {
    use super::*;

    #[salsa::tracked(returns(copy), cycle_initial=initial)]
    fn query_a(db: &dyn PDb) -> u32 {
        query_b(db)
    }
    #[salsa::tracked(returns(copy), cycle_initial=initial)]
    fn query_b(db: &dyn PDb) -> u32 {
        (query_a(db) + 1).min(3)
    }
    fn initial(_db: &dyn PDb, _id: salsa::Id) -> u32 {
        0
    }

    pub fn run() {
        let db = Db::default();
        let (d1, d2) = (db.clone(), db.clone());
        let t1 = thread::spawn(move || query_a(&d1));
        let t2 = thread::spawn(move || query_b(&d2));
        let r = (t1.join().unwrap(), t2.join().unwrap());
        assert_eq!(r, (3, 3));
    }
}

mod cycle_ab_fb {
    use super::*;

    #[salsa::tracked(returns(copy), cycle_result=fallback)]
    fn query_a(db: &dyn PDb) -> u32 {
        query_b(db) | 1
    }
    #[salsa::tracked(returns(copy), cycle_result=fallback)]
    fn query_b(db: &dyn PDb) -> u32 {
        query_a(db) + 1
    }
    fn fallback(_db: &dyn PDb, _id: salsa::Id) -> u32 {
        7
    }

    pub fn run() {
        let db = Db::default();
        let (d1, d2) = (db.clone(), db.clone());
        let t1 = thread::spawn(move || query_a(&d1));
        let t2 = thread::spawn(move || query_b(&d2));
        let _ = (t1.join().unwrap(), t2.join().unwrap());
    }
}

// ------------------------------------------------------------------------------------------------
// nested cycle over three threads
// ------------------------------------------------------------------------------------------------
mod nested3 {
    use super::*;

    #[salsa::tracked(returns(copy), cycle_initial=initial)]
    fn query_a(db: &dyn PDb) -> u32 {
        query_b(db)
    }
    #[salsa::tracked(returns(copy), cycle_initial=initial)]
    fn query_b(db: &dyn PDb) -> u32 {
        (query_c(db) + 1).min(3)
    }
    #[salsa::tracked(returns(copy), cycle_initial=initial)]
    fn query_c(db: &dyn PDb) -> u32 {
        let a = query_a(db);
        let b = query_b(db);
        a.max(b)
    }
    fn initial(_db: &dyn PDb, _id: salsa::Id) -> u32 {
        0
    }

    pub fn run() {
        let db = Db::default();
        let (d1, d2, d3) = (db.clone(), db.clone(), db.clone());
        let t1 = thread::spawn(move || query_a(&d1));
        let t2 = thread::spawn(move || query_b(&d2));
        let t3 = thread::spawn(move || query_c(&d3));
        let r = (t1.join().unwrap(), t2.join().unwrap(), t3.join().unwrap());
        assert_eq!(r, (3, 3, 3));
    }
}

// ------------------------------------------------------------------------------------------------
// deep nested cycles, four threads
// ------------------------------------------------------------------------------------------------
mod deep {
    use super::*;

    #[salsa::tracked(returns(copy), cycle_initial=initial)]
    fn query_a(db: &dyn PDb) -> u32 {
        query_b(db)
    }
    #[salsa::tracked(returns(copy), cycle_initial=initial)]
    fn query_b(db: &dyn PDb) -> u32 {
        (query_c(db) + 1).min(3)
    }
    #[salsa::tracked(returns(copy), cycle_initial=initial)]
    fn query_c(db: &dyn PDb) -> u32 {
        let d = query_d(db);
        let e = query_e(db);
        let b = query_b(db);
        let a = query_a(db);
        d.max(e).max(b).max(a)
    }
    #[salsa::tracked(returns(copy), cycle_initial=initial)]
    fn query_d(db: &dyn PDb) -> u32 {
        query_c(db)
    }
    #[salsa::tracked(returns(copy), cycle_initial=initial)]
    fn query_e(db: &dyn PDb) -> u32 {
        query_c(db)
    }
    fn initial(_db: &dyn PDb, _id: salsa::Id) -> u32 {
        0
    }

    pub fn run() {
        let db = Db::default();
        let (d1, d2, d3, d4) = (db.clone(), db.clone(), db.clone(), db.clone());
        let t1 = thread::spawn(move || query_a(&d1));
        let t2 = thread::spawn(move || query_b(&d2));
        let t3 = thread::spawn(move || query_d(&d3));
        let t4 = thread::spawn(move || query_e(&d4));
        let r = (
            t1.join().unwrap(),
            t2.join().unwrap(),
            t3.join().unwrap(),
            t4.join().unwrap(),
        );
        assert_eq!(r, (3, 3, 3, 3));
    }
}

mod deep_cond {
    use super::*;

    #[salsa::tracked(returns(copy), cycle_initial=initial)]
    fn query_a(db: &dyn PDb) -> u32 {
        query_b(db)
    }
    #[salsa::tracked(returns(copy), cycle_initial=initial)]
    fn query_b(db: &dyn PDb) -> u32 {
        (query_c(db) + 1).min(3)
    }
    #[salsa::tracked(returns(copy), cycle_initial=initial)]
    fn query_c(db: &dyn PDb) -> u32 {
        let d = query_d(db);
        if d > 0 {
            let e = query_e(db);
            let b = query_b(db);
            let a = query_a(db);
            d.max(e).max(b).max(a)
        } else {
            let a = query_a(db);
            d.max(a)
        }
    }
    #[salsa::tracked(returns(copy), cycle_initial=initial)]
    fn query_d(db: &dyn PDb) -> u32 {
        query_c(db)
    }
    #[salsa::tracked(returns(copy), cycle_initial=initial)]
    fn query_e(db: &dyn PDb) -> u32 {
        query_c(db)
    }
    fn initial(_db: &dyn PDb, _id: salsa::Id) -> u32 {
        0
    }

    pub fn run() {
        let db = Db::default();
        let (d1, d2, d3, d4) = (db.clone(), db.clone(), db.clone(), db.clone());
        let t1 = thread::spawn(move || query_a(&d1));
        let t2 = thread::spawn(move || query_b(&d2));
        let t3 = thread::spawn(move || query_d(&d3));
        let t4 = thread::spawn(move || query_e(&d4));
        let r = (
            t1.join().unwrap(),
            t2.join().unwrap(),
            t3.join().unwrap(),
            t4.join().unwrap(),
        );
        assert_eq!(r, (3, 3, 3, 3));
    }
}


// ------------------------------------------------------------------------------------------------
// conditional nested cycles re-run after an input change (memos from the previous revision exist)
// (tests/parallel/cycle_nested_deep_conditional_changed.rs)
// ------------------------------------------------------------------------------------------------
mod deep_cond_changed {
    use super::*;
    use salsa::Setter as _;

    #[salsa::tracked(returns(copy), cycle_initial=initial)]
    fn query_a(db: &dyn PDb, i: Inp) -> u32 {
        query_b(db, i)
    }
    #[salsa::tracked(returns(copy), cycle_initial=initial)]
    fn query_b(db: &dyn PDb, i: Inp) -> u32 {
        (query_c(db, i) + i.v(db).max(1)).min(3)
    }
    #[salsa::tracked(returns(copy), cycle_initial=initial)]
    fn query_c(db: &dyn PDb, i: Inp) -> u32 {
        let d = query_d(db, i);
        if d > 0 {
            let e = query_e(db, i);
            let b = query_b(db, i);
            d.max(e).max(b)
        } else {
            let a = query_a(db, i);
            d.max(a)
        }
    }
    #[salsa::tracked(returns(copy), cycle_initial=initial)]
    fn query_d(db: &dyn PDb, i: Inp) -> u32 {
        query_c(db, i)
    }
    #[salsa::tracked(returns(copy), cycle_initial=initial)]
    fn query_e(db: &dyn PDb, i: Inp) -> u32 {
        query_c(db, i)
    }
    fn initial(_db: &dyn PDb, _id: salsa::Id, _i: Inp) -> u32 {
        0
    }

    pub fn run() {
        let mut db = Db::default();
        let i = Inp::new(&db, 0);
        match next_random() % 4 {
            0 => drop(query_a(&db, i)),
            1 => drop(query_b(&db, i)),
            2 => drop(query_d(&db, i)),
            _ => drop(query_e(&db, i)),
        }
        i.set_v(&mut db).to(1);
        let (d1, d2, d3, d4) = (db.clone(), db.clone(), db.clone(), db.clone());
        let t1 = thread::spawn(move || query_a(&d1, i));
        let t2 = thread::spawn(move || query_b(&d2, i));
        let t3 = thread::spawn(move || query_d(&d3, i));
        let t4 = thread::spawn(move || query_e(&d4, i));
        let r = (
            t1.join().unwrap(),
            t2.join().unwrap(),
            t3.join().unwrap(),
            t4.join().unwrap(),
        );
        assert_eq!(r, (3, 3, 3, 3));
    }
}

// ------------------------------------------------------------------------------------------------
// random call graphs (cyclic in general), random entry points, 2-4 threads, two revisions
// ------------------------------------------------------------------------------------------------
mod random_graph {
    use super::*;
    use salsa::Setter as _;

    #[salsa::input]
    struct Node {
        #[returns(ref)]
        succs: Vec<Node>,
        #[returns(copy)]
        base: u32,
    }

    #[salsa::tracked(returns(copy), cycle_initial=initial)]
    fn value(db: &dyn PDb, n: Node) -> u32 {
        let mut v = n.base(db);
        for s in n.succs(db) {
            v = v.max(value(db, *s) + 1);
        }
        v.min(4)
    }
    fn initial(_db: &dyn PDb, _id: salsa::Id, _n: Node) -> u32 {
        0
    }

    pub fn run() {
        let mut db = Db::default();
        let n_nodes = 3 + (next_random() % 4) as usize;
        let nodes: Vec<Node> = (0..n_nodes)
            .map(|_| Node::new(&db, Vec::new(), (next_random() % 2) as u32))
            .collect();
        for n in &nodes {
            let k = 1 + (next_random() % 3) as usize;
            let succs: Vec<Node> = (0..k)
                .map(|_| nodes[(next_random() as usize) % n_nodes])
                .collect();
            n.set_succs(&mut db).to(succs);
        }
        for round in 0..2 {
            let n_threads = 2 + (next_random() % 3) as usize;
            let handles: Vec<_> = (0..n_threads)
                .map(|_| {
                    let d = db.clone();
                    let a = nodes[(next_random() as usize) % n_nodes];
                    let b = nodes[(next_random() as usize) % n_nodes];
                    thread::spawn(move || (value(&d, a), value(&d, b)))
                })
                .collect();
            for h in handles {
                let _ = h.join().unwrap();
            }
            if round == 0 {
                // change one node between the rounds
                let n = nodes[(next_random() as usize) % n_nodes];
                let b = n.base(&db);
                n.set_base(&mut db).to(b + 1);
            }
        }
    }
}

// ------------------------------------------------------------------------------------------------
// free-running only: panics and cancellation
// ------------------------------------------------------------------------------------------------
#[cfg(not(feature = "shuttle"))]
mod panic_waiter {
    use super::*;

    #[salsa::tracked(returns(copy))]
    fn slow_panics(db: &dyn PDb) -> u32 {
        db.set_stage(1);
        // wait until the other thread has blocked on us (or give up), then panic
        spin_until(|| db.blocked() >= 1);
        panic!("injected panic");
    }

    #[salsa::tracked(returns(copy))]
    fn outer(db: &dyn PDb) -> u32 {
        slow_panics(db) + 1
    }

    pub fn run() {
        let db = Db::default();
        let (d1, d2) = (db.clone(), db.clone());
        let t1 = std::thread::spawn(move || std::panic::catch_unwind(|| outer(&d1)).is_err());
        let t2 = std::thread::spawn(move || {
            spin_until(|| d2.stage() >= 1);
            std::panic::catch_unwind(|| slow_panics(&d2)).is_err()
        });
        let r = (t1.join().unwrap(), t2.join().unwrap());
        assert_eq!(r, (true, true));
    }
}

#[cfg(not(feature = "shuttle"))]
mod cycle_panic {
    use super::*;

    #[salsa::tracked(returns(copy), cycle_fn=cycle_fn, cycle_initial=initial)]
    fn query_a(db: &dyn PDb) -> u32 {
        db.set_stage(1);
        spin_until(|| db.stage() >= 2);
        query_b(db)
    }
    #[salsa::tracked(returns(copy), cycle_fn=cycle_fn, cycle_initial=initial)]
    fn query_b(db: &dyn PDb) -> u32 {
        spin_until(|| db.stage() >= 1);
        db.set_stage(2);
        query_a(db) + 1
    }
    fn cycle_fn(_db: &dyn PDb, _cycle: &salsa::Cycle, _last: &u32, _value: u32) -> u32 {
        panic!("cancel!")
    }
    fn initial(_db: &dyn PDb, _id: salsa::Id) -> u32 {
        0
    }

    pub fn run() {
        let db = Db::default();
        let (d1, d2) = (db.clone(), db.clone());
        let t1 = std::thread::spawn(move || std::panic::catch_unwind(|| query_a(&d1)).is_err());
        let t2 = std::thread::spawn(move || std::panic::catch_unwind(|| query_b(&d2)).is_err());
        let r = (t1.join().unwrap(), t2.join().unwrap());
        assert_eq!(r, (true, true));
    }
}

#[cfg(not(feature = "shuttle"))]
mod cancel_token {
    use super::*;
    use salsa::Database as _;

    #[salsa::tracked(returns(copy))]
    fn query_a(db: &dyn PDb) -> u32 {
        query_b(db)
    }
    #[salsa::tracked(returns(copy))]
    fn query_b(db: &dyn PDb) -> u32 {
        db.set_stage(1);
        // wait for the two other threads to block on query_a, then for the cancellation
        spin_until(|| db.blocked() >= 2);
        db.set_stage(3);
        spin_until(|| db.stage() >= 4);
        query_c(db)
    }
    #[salsa::tracked(returns(copy))]
    fn query_c(_db: &dyn PDb) -> u32 {
        42
    }

    pub fn run() {
        let db = Db::default();
        let (d2, d3, ds) = (db.clone(), db.clone(), db.clone());
        let token = db.cancellation_token();
        let t1 = std::thread::spawn(move || std::panic::catch_unwind(|| query_a(&db)).ok());
        spin_until(|| ds.stage() >= 1);
        let t2 = std::thread::spawn(move || query_a(&d2));
        let t3 = std::thread::spawn(move || query_a(&d3));
        spin_until(|| ds.stage() >= 3);
        token.cancel();
        ds.set_stage(4);
        let _r1 = t1.join().unwrap();
        assert_eq!(t2.join().unwrap(), 42);
        assert_eq!(t3.join().unwrap(), 42);
    }
}

#[cfg(not(feature = "shuttle"))]
mod cancel_write {
    use super::*;
    use salsa::Setter as _;

    #[salsa::tracked(returns(copy))]
    fn reader(db: &dyn PDb, i: Inp) -> u32 {
        db.set_stage(1);
        // wait for a waiter and for the writer to request cancellation, then touch salsa again
        spin_until(|| db.blocked() >= 1);
        db.set_stage(2);
        spin_until(|| db.stage() >= 3);
        std::thread::sleep(std::time::Duration::from_millis(2));
        inner(db, i)
    }
    #[salsa::tracked(returns(copy))]
    fn inner(db: &dyn PDb, i: Inp) -> u32 {
        i.v(db) + 1
    }

    pub fn run() {
        let mut db = Db::default();
        let i = Inp::new(&db, 1);
        let (d1, d2) = (db.clone(), db.clone());
        let stage = db.stage.clone();
        let t1 = std::thread::spawn(move || std::panic::catch_unwind(|| reader(&d1, i)).ok());
        let t2 = std::thread::spawn(move || {
            spin_until(|| d2.stage() >= 1);
            std::panic::catch_unwind(|| reader(&d2, i)).ok()
        });
        spin_until(|| stage.load(StdOrdering::SeqCst) >= 2);
        stage.fetch_max(3, StdOrdering::SeqCst);
        // blocks until the readers have been cancelled and dropped their handles
        i.set_v(&mut db).to(10);
        let _ = (t1.join().unwrap(), t2.join().unwrap());
        assert_eq!(reader(&db, i), 11);
    }
}

// ------------------------------------------------------------------------------------------------
// driver
// ------------------------------------------------------------------------------------------------

static COUNTER: AtomicUsize = AtomicUsize::new(0);

/// deterministic pseudo-random numbers for the generated workloads (seeded by --seed; not a
/// shuttle scheduling point)
static RNG: std::sync::atomic::AtomicU64 = std::sync::atomic::AtomicU64::new(0x9E3779B97F4A7C15);

fn next_random() -> u64 {
    let mut x = RNG.load(StdOrdering::SeqCst);
    x ^= x << 13;
    x ^= x >> 7;
    x ^= x << 17;
    RNG.store(x, StdOrdering::SeqCst);
    x >> 11
}

fn write_trace(dir: &Path, name: &str) {
    let lines = salsa::verif_take_proto_trace();
    let n = COUNTER.fetch_add(1, StdOrdering::SeqCst);
    let path = dir.join(format!("{name}-{n:05}.trace"));
    let mut f = std::io::BufWriter::new(std::fs::File::create(&path).expect("create trace file"));
    for l in lines {
        writeln!(f, "{l}").unwrap();
    }
}

struct Args {
    out: PathBuf,
    iters: usize,
    seed: u64,
    workload: Option<String>,
    scheduler: String,
    replay: Option<String>,
    warmup: usize,
}

fn parse_args() -> Args {
    let mut a = Args {
        out: PathBuf::from("traces"),
        iters: 100,
        seed: 1,
        workload: None,
        scheduler: "pct".into(),
        replay: None,
        warmup: 3,
    };
    let mut it = std::env::args().skip(1);
    while let Some(k) = it.next() {
        let mut v = || it.next().unwrap_or_else(|| panic!("missing value for {k}"));
        match k.as_str() {
            "--out" => a.out = PathBuf::from(v()),
            "--iters" => a.iters = v().parse().expect("--iters N"),
            "--seed" => a.seed = v().parse().expect("--seed S"),
            "--workload" => a.workload = Some(v()),
            "--scheduler" => a.scheduler = v(),
            "--replay" => a.replay = Some(v()),
            "--warmup" => a.warmup = v().parse().expect("--warmup N"),
            other => panic!("unknown argument {other}"),
        }
    }
    a
}

type Workload = (&'static str, fn());

#[cfg(feature = "shuttle")]
const WORKLOADS: &[Workload] = &[
    ("acyclic", acyclic::run),
    ("cycle_ab", cycle_ab::run),
    ("cycle_ab_fb", cycle_ab_fb::run),
    ("nested3", nested3::run),
    ("deep", deep::run),
    ("deep_cond", deep_cond::run),
    ("deep_cond_changed", deep_cond_changed::run),
    ("random_graph", random_graph::run),
];

#[cfg(not(feature = "shuttle"))]
const WORKLOADS: &[Workload] = &[
    ("acyclic", acyclic::run),
    ("cycle_ab", cycle_ab::run),
    ("nested3", nested3::run),
    ("deep", deep::run),
    ("deep_cond", deep_cond::run),
    ("deep_cond_changed", deep_cond_changed::run),
    ("random_graph", random_graph::run),
    ("cycle_ab_fb", cycle_ab_fb::run),
    ("panic_waiter", panic_waiter::run),
    ("cycle_panic", cycle_panic::run),
    ("cancel_token", cancel_token::run),
    ("cancel_write", cancel_write::run),
];

#[cfg(feature = "shuttle")]
fn drive(name: &'static str, f: fn(), args: &Args) {
    let out = args.out.clone();
    let body = move || {
        let _ = salsa::verif_take_proto_trace();
        f();
        write_trace(&out, name);
    };
    let mut config = shuttle::Config::default();
    config.stack_size = 1024 * 1024;
    if let Some(file) = &args.replay {
        // replay of a schedule that shuttle printed for a failed execution (saved to a file): a few
        // warm-up executions first (process-wide lazy initialisation must not add scheduling
        // points to the replayed execution), then the schedule
        let s = shuttle::scheduler::PctScheduler::new_from_seed(args.seed, 50, args.warmup);
        shuttle::Runner::new(s, config.clone()).run(body.clone());
        let s = shuttle::scheduler::ReplayScheduler::new_from_file(file).expect("schedule file");
        shuttle::Runner::new(s, config).run(body);
        return;
    }
    match args.scheduler.as_str() {
        "random" => {
            let s = shuttle::scheduler::RandomScheduler::new_from_seed(args.seed, args.iters);
            shuttle::Runner::new(s, config).run(body);
        }
        _ => {
            let s = shuttle::scheduler::PctScheduler::new_from_seed(args.seed, 50, args.iters);
            shuttle::Runner::new(s, config).run(body);
        }
    }
}

#[cfg(not(feature = "shuttle"))]
fn drive(name: &'static str, f: fn(), args: &Args) {
    // panics inside the workloads are expected and caught; keep stderr quiet
    std::panic::set_hook(Box::new(|_| {}));
    for _ in 0..args.iters {
        let _ = salsa::verif_take_proto_trace();
        f();
        write_trace(&args.out, name);
    }
}

fn main() {
    let args = parse_args();
    RNG.store(args.seed.wrapping_mul(0x9E3779B97F4A7C15) | 1, StdOrdering::SeqCst);
    std::fs::create_dir_all(&args.out).expect("create output directory");
    #[cfg(feature = "shuttle")]
    {
        // The FIRST panic of the process (an assertion inside salsa, shuttle's deadlock / step-bound
        // report): keep the H2 protocol trace of the failing execution up to that point in
        // `<out>.FAILED` (next to, not inside, the directory of the complete traces).  A
        // catch_unwind around the runner would not do: the unwinding usually hits a poisoned lock
        // in a destructor and the process aborts.
        static DUMPED: std::sync::atomic::AtomicBool = std::sync::atomic::AtomicBool::new(false);
        let path = PathBuf::from(format!("{}.FAILED", args.out.display()));
        let prev = std::panic::take_hook();
        std::panic::set_hook(Box::new(move |info| {
            if !DUMPED.swap(true, StdOrdering::SeqCst) {
                let lines = salsa::verif_take_proto_trace();
                if let Ok(f) = std::fs::File::create(&path) {
                    let mut f = std::io::BufWriter::new(f);
                    for l in lines {
                        let _ = writeln!(f, "{l}");
                    }
                }
                eprintln!("first panic: protocol trace of the failing execution in {}", path.display());
            }
            prev(info)
        }));
    }
    let mut ran = 0;
    for (name, f) in WORKLOADS {
        if args.workload.as_deref().is_some_and(|w| w != *name) {
            continue;
        }
        drive(name, *f, &args);
        ran += 1;
        eprintln!("workload {name}: {} iterations", args.iters);
    }
    if ran == 0 {
        let names: Vec<_> = WORKLOADS.iter().map(|w| w.0).collect();
        eprintln!("no such workload; available: {names:?}");
        std::process::exit(2);
    }
    println!("traces {}", COUNTER.load(StdOrdering::SeqCst));
}

//! Minimal s-expression reader shared by the harness binaries.

#[derive(Debug, Clone)]
pub enum Sx {
    A(String),
    L(Vec<Sx>),
}

impl Sx {
    pub fn list(&self) -> &[Sx] {
        match self {
            Sx::L(l) => l,
            Sx::A(a) => panic!("harness: list expected, got {a}"),
        }
    }
    pub fn atom(&self) -> &str {
        match self {
            Sx::A(a) => a,
            Sx::L(_) => panic!("harness: atom expected"),
        }
    }
    pub fn is_atom(&self, s: &str) -> bool {
        matches!(self, Sx::A(a) if a == s)
    }
    pub fn int(&self) -> i64 {
        self.atom().parse().unwrap_or_else(|_| panic!("harness: int expected: {}", self.atom()))
    }
}

pub fn parse(s: &str) -> Sx {
    let b = s.as_bytes();
    let mut pos = 0;
    let r = item(b, &mut pos);
    r
}

fn skip(b: &[u8], pos: &mut usize) {
    while *pos < b.len() && (b[*pos] as char).is_whitespace() {
        *pos += 1;
    }
}

fn item(b: &[u8], pos: &mut usize) -> Sx {
    skip(b, pos);
    assert!(*pos < b.len(), "harness: unexpected end of s-expression");
    if b[*pos] == b'(' {
        *pos += 1;
        let mut items = Vec::new();
        loop {
            skip(b, pos);
            assert!(*pos < b.len(), "harness: unclosed s-expression");
            if b[*pos] == b')' {
                *pos += 1;
                break;
            }
            items.push(item(b, pos));
        }
        Sx::L(items)
    } else {
        let st = *pos;
        while *pos < b.len() && !(b[*pos] as char).is_whitespace() && b[*pos] != b'(' && b[*pos] != b')' {
            *pos += 1;
        }
        Sx::A(String::from_utf8_lossy(&b[st..*pos]).into_owned())
    }
}

//! cyc_par — generated CYCLIC DSL programs whose read phases run on several database clones at once
//! (C18), and whose writes cancel readers that are inside (nested) fixpoint iterations (C20 gap).
//!
//! Vocabulary of /verif/harness/src/cycle_harness.rs: one input struct `Inp` (three u8 fields;
//! the input with index k doubles as key k), the tracked-function families
//!   0 plain (no recovery), 1 fix (cycle_initial = 0, default cycle_fn), 2 fixjoin (cycle_fn =
//!   last | new, cycle_initial = 0), 3 fallback (cycle_result = 0xA5), 4 nocycle (no recovery)
//! and the same expression DSL over the bit-set lattice — every tracked function body is
//! `interp(db, FAMILY, key)`.
//!
//! A case is `(case ID (cfg (nk N) (ni N) (nf 3) (nfam 5) (spec S) (probe P)) (ival ..) (idur ..)
//! (prog (node F K E)..) (hist OP..))` with
//!   OP ::= (set I F V [D]) | (synth D) | (get F K)
//!        | (par (T (get F K)..) (T ..) ..)
//!        | (wpar MODE AT (T (get F K)..) .. (W (set I F V [D])))        OS-thread build only
//! `(par ..)`: one thread per `T`, each on its own clone of the database, started together; the
//! main handle continues after joining them.
//! `(wpar MODE AT ..)`: reader threads as in `par`; the AT-th execution of a tracked-function
//! body inside the group is a HOLD POINT: MODE 1 = the body signals the main handle and waits
//! until the main handle's write has set the cancellation flag (so the reader is cancelled while
//! it is inside whatever fixpoint iteration it had reached), MODE 2 = the body signals and
//! panics (the iteration is abandoned by unwinding), MODE 0 = no hold.  The main handle performs
//! the write `W` as soon as the hold point was reached (or all readers finished).
//! `(probe P)`: 1 = after every par/wpar group, 2 = after the last one only, 0 = never: dump the
//! state (H1/H7), compute the SETTLED memos (value present, verified in the current revision,
//! final or finalisable: every recorded head final in the same revision and iteration) and read
//! each of them once through the public API on the main handle (no execution may happen: the
//! value returned is the memo's) — the partial assignment on which the certificate of
//! C12_certified / C13_certified_partial is evaluated by the caller.
//!
//! usage: cyc_par CASEFILE [--iters N] [--sched pct|random] [--seed S] [--pct-depth D]
//!                [--max-steps M] [--trace-dir DIR] [--trace-cap N] [--only CASEID]
//!                [--replay-schedule FILE] [--ref-orders N]
//!
//! Output (stdout), per case:
//!   CASE id
//!   REF r=<results>                 the same history on ONE thread in a fresh database (par
//!                                   groups flattened thread by thread, no hold point)
//!   RG <op> cur=<rev> px=<n> s=<F.K=V,..> u=<F.K,..>     probe record of the reference run
//!   REFO <n> r=<results>            (--ref-orders N) the same on one thread with the requests of
//!                                   every par group in the n-th pseudo-random linearisation
//!   I <iter> b=<WillBlockOn> c=<keys claimed/blocked-on by >=2 threads> x=<WillExecute>
//!            y=<cross-thread Cycle answers> tr=<transfer records> xt=<transfers to a query owned by
//!            another thread> so=<claims of a transferred key by
//!            its new owner> it=<max WillIterateCycle iteration> hd=<hold point reached 0|1>
//!            hi=<WillIterateCycle events before the first hold point was reached|->
//!            uw=<code of the last panic caught in this execution, 0 = nothing unwound>
//!            h=<hash of the H2 trace> t=<trace file|-> r=<results>
//!   G <iter> <op> cur=<rev> px=<n> s=<F.K=V,..> u=<F.K,..>  probe record of this schedule
//!   F <iter> kind=<deadlock|maxsteps|panic|hang> sched=<file|-> [unwound=<code>] msg=<text>
//!   END id iters=<n> failures=<f>
//!   TAINTED                            (exit status 4) an execution of the previous case failed: the
//!                                      cases behind it must be run in a fresh process
//! <results> ::= op:who=r,r/who=r;op:...   who = m (main handle) | thread index; r = value | pCODE
//!   (p2 cycle panic, p3 backdate assertion, p4 too many iterations, p5 injected panic,
//!    p7 Cancelled::PropagatedPanic, p8 Cancelled::PendingWrite, p99 unclassified)

use std::cell::Cell;
use std::collections::{BTreeMap, BTreeSet, HashMap};
use std::io::Write as _;
use std::panic::{AssertUnwindSafe, catch_unwind};
use std::path::PathBuf;
use std::sync::atomic::{AtomicUsize, Ordering};
use std::sync::{Arc, Condvar, Mutex, RwLock}; // std on purpose: never a shuttle scheduling point

use salsa::{Database, Durability, Setter};

mod sexp;
use sexp::Sx;

#[cfg(feature = "shuttle")]
use shuttle::{thread, thread_local};
#[cfg(not(feature = "shuttle"))]
use std::{thread, thread_local};

const MAIN: usize = usize::MAX;

thread_local! {
    static TID: Cell<usize> = Cell::new(MAIN);
    static ENTERED_ONCE: Cell<bool> = Cell::new(false);
    static TRNG: Cell<u64> = Cell::new(1);
}

// ------------------------------------------------------------------ salsa items

#[salsa::input]
struct Inp {
    #[returns(copy)]
    a: u8,
    #[returns(copy)]
    b: u8,
    #[returns(copy)]
    c: u8,
}

#[salsa::db]
#[derive(Clone)]
struct Db {
    storage: salsa::Storage<Self>,
}

#[salsa::db]
impl salsa::Database for Db {}

const FAM_PLAIN: u8 = 0;
const FAM_FIX: u8 = 1;
const FAM_FIXJOIN: u8 = 2;
const FAM_FALLBACK: u8 = 3;
const FAM_NOCYCLE: u8 = 4;
const FALLBACK_VALUE: u8 = 0xA5;
const FAM_NAMES: [&str; 5] = ["plain", "fix", "fixjoin", "fallback", "nocycle"];

#[salsa::tracked(returns(copy))]
fn plain(db: &dyn salsa::Database, k: Inp) -> u8 {
    interp(db, FAM_PLAIN, k)
}

#[salsa::tracked(returns(copy), cycle_initial=fix_initial)]
fn fix(db: &dyn salsa::Database, k: Inp) -> u8 {
    interp(db, FAM_FIX, k)
}

#[salsa::tracked(returns(copy), cycle_fn=join_recover, cycle_initial=fix_initial)]
fn fixjoin(db: &dyn salsa::Database, k: Inp) -> u8 {
    interp(db, FAM_FIXJOIN, k)
}

#[salsa::tracked(returns(copy), cycle_result=fallback_result)]
fn fallback(db: &dyn salsa::Database, k: Inp) -> u8 {
    interp(db, FAM_FALLBACK, k)
}

#[salsa::tracked(returns(copy))]
fn nocycle(db: &dyn salsa::Database, k: Inp) -> u8 {
    interp(db, FAM_NOCYCLE, k)
}

fn fix_initial(_db: &dyn salsa::Database, _id: salsa::Id, _k: Inp) -> u8 {
    0
}

fn join_recover(
    _db: &dyn salsa::Database,
    _cycle: &salsa::Cycle,
    last_provisional_value: &u8,
    value: u8,
    _k: Inp,
) -> u8 {
    *last_provisional_value | value
}

fn fallback_result(_db: &dyn salsa::Database, _id: salsa::Id, _k: Inp) -> u8 {
    FALLBACK_VALUE
}

// ------------------------------------------------------------------ DSL (as cycle_harness.rs)

#[derive(Debug, Clone)]
enum Expr {
    Lit(u8),
    In(usize, usize),
    Call(u8, Box<Expr>),
    Op(String, Box<Expr>, Box<Expr>),
    If(Box<Expr>, Box<Expr>, Box<Expr>),
}

struct CaseData {
    nk: usize,
    nodes: HashMap<(u8, usize), Expr>,
    inputs: Vec<Inp>,
}

static CASE: RwLock<Option<Arc<CaseData>>> = RwLock::new(None);

fn case_data() -> Arc<CaseData> {
    CASE.read().unwrap().as_ref().unwrap().clone()
}

/// rendezvous control of the OS-thread build (mode 0 = free running)
struct Ctl {
    mode: AtomicUsize,
    entered: AtomicUsize,
    expect: AtomicUsize,
}
static CTL: Ctl = Ctl {
    mode: AtomicUsize::new(0),
    entered: AtomicUsize::new(0),
    expect: AtomicUsize::new(0),
};

/// hold point of a `wpar` group (OS-thread build)
struct Hold {
    mode: AtomicUsize,
    at: AtomicUsize,
    count: AtomicUsize,
    stage: Mutex<usize>,
    cvar: Condvar,
}
static HOLD: Hold = Hold {
    mode: AtomicUsize::new(0),
    at: AtomicUsize::new(0),
    count: AtomicUsize::new(0),
    stage: Mutex::new(0),
    cvar: Condvar::new(),
};

impl Hold {
    fn reset(&self, mode: usize, at: usize) {
        self.mode.store(mode, Ordering::SeqCst);
        self.at.store(at, Ordering::SeqCst);
        self.count.store(0, Ordering::SeqCst);
        *self.stage.lock().unwrap_or_else(|e| e.into_inner()) = 0;
    }
    fn signal(&self, stage: usize) {
        let mut g = self.stage.lock().unwrap_or_else(|e| e.into_inner());
        if stage > *g {
            *g = stage;
            self.cvar.notify_all();
        }
    }
    #[allow(dead_code)]
    fn stage(&self) -> usize {
        *self.stage.lock().unwrap_or_else(|e| e.into_inner())
    }
    fn wait_for(&self, stage: usize, limit: std::time::Duration) {
        let start = std::time::Instant::now();
        let mut g = self.stage.lock().unwrap_or_else(|e| e.into_inner());
        while *g < stage && start.elapsed() < limit {
            let (g2, _) = self
                .cvar
                .wait_timeout(g, std::time::Duration::from_millis(50))
                .unwrap_or_else(|e| e.into_inner());
            g = g2;
        }
    }
}

fn interp(db: &dyn salsa::Database, fam: u8, k: Inp) -> u8 {
    let on_thread = TID.with(|t| t.get()) != MAIN;
    if on_thread && !ENTERED_ONCE.with(|e| e.replace(true)) {
        CTL.entered.fetch_add(1, Ordering::SeqCst);
    }
    if on_thread {
        let mode = HOLD.mode.load(Ordering::SeqCst);
        if mode != 0 {
            let n = HOLD.count.fetch_add(1, Ordering::SeqCst) + 1;
            if n == HOLD.at.load(Ordering::SeqCst) {
                {
                    let mut o = obs();
                    if o.hold_iter_events == usize::MAX {
                        o.hold_iter_events = o.iter_events;
                    }
                }
                HOLD.signal(1);
                if mode == 1 {
                    // released by the DidSetCancellationFlag event of the main handle's write
                    HOLD.wait_for(2, std::time::Duration::from_secs(10));
                } else {
                    panic!("verif-injected panic");
                }
            }
        }
    }
    let cd = case_data();
    let key = salsa::plumbing::AsId::as_id(&k).index() as usize;
    match cd.nodes.get(&(fam, key)) {
        Some(e) => eval(db, &cd, e),
        None => 0,
    }
}

fn call_fam(db: &dyn salsa::Database, cd: &CaseData, fam: u8, key: usize) -> u8 {
    let k = cd.inputs[key];
    match fam {
        FAM_PLAIN => plain(db, k),
        FAM_FIX => fix(db, k),
        FAM_FIXJOIN => fixjoin(db, k),
        FAM_FALLBACK => fallback(db, k),
        FAM_NOCYCLE => nocycle(db, k),
        _ => panic!("harness: unknown family {fam}"),
    }
}

#[cfg(not(feature = "shuttle"))]
fn before_nested_call() {
    if TID.with(|t| t.get()) == MAIN {
        return;
    }
    match CTL.mode.load(Ordering::SeqCst) {
        1 => {
            let start = std::time::Instant::now();
            while CTL.entered.load(Ordering::SeqCst) < CTL.expect.load(Ordering::SeqCst)
                && start.elapsed() < std::time::Duration::from_millis(5)
            {
                std::thread::yield_now();
            }
        }
        2 => {
            let mut x = TRNG.with(|r| r.get());
            x ^= x << 13;
            x ^= x >> 7;
            x ^= x << 17;
            TRNG.with(|r| r.set(x));
            match x % 4 {
                0 => {}
                1 => std::thread::yield_now(),
                _ => std::thread::sleep(std::time::Duration::from_micros(x % 150)),
            }
        }
        _ => {}
    }
}

#[cfg(feature = "shuttle")]
fn before_nested_call() {}

fn eval(db: &dyn salsa::Database, cd: &CaseData, e: &Expr) -> u8 {
    match e {
        Expr::Lit(v) => *v,
        Expr::In(i, f) => {
            let inp = cd.inputs[*i];
            match f {
                0 => inp.a(db),
                1 => inp.b(db),
                _ => inp.c(db),
            }
        }
        Expr::Call(fam, k) => {
            let kv = eval(db, cd, k) as usize % cd.nk;
            before_nested_call();
            call_fam(db, cd, *fam, kv)
        }
        Expr::Op(o, a, b) => {
            let x = eval(db, cd, a);
            let y = eval(db, cd, b);
            match o.as_str() {
                "add" => x.wrapping_add(y),
                "sub" => x.wrapping_sub(y),
                "min" => x.min(y),
                "max" => x.max(y),
                "and" => x & y,
                "or" => x | y,
                "eq" => (x == y) as u8,
                "lt" => (x < y) as u8,
                "shr" => x >> (y % 8),
                _ => panic!("harness: unknown op {o}"),
            }
        }
        Expr::If(c, a, b) => {
            if eval(db, cd, c) != 0 {
                eval(db, cd, a)
            } else {
                eval(db, cd, b)
            }
        }
    }
}

fn expr_of(x: &Sx) -> Expr {
    let l = x.list();
    match l[0].atom() {
        "lit" => Expr::Lit(l[1].int() as u8),
        "in" => Expr::In(l[1].int() as usize, l[2].int() as usize),
        "call" => Expr::Call(l[1].int() as u8, Box::new(expr_of(&l[2]))),
        "op" => Expr::Op(
            l[1].atom().to_string(),
            Box::new(expr_of(&l[2])),
            Box::new(expr_of(&l[3])),
        ),
        "if" => Expr::If(
            Box::new(expr_of(&l[1])),
            Box::new(expr_of(&l[2])),
            Box::new(expr_of(&l[3])),
        ),
        other => panic!("harness: expression `{other}` is not available in cyc_par"),
    }
}

fn dur_of(d: i64) -> Durability {
    match d {
        0 => Durability::LOW,
        1 => Durability::MEDIUM,
        2 => Durability::HIGH,
        _ => Durability::NEVER_CHANGE,
    }
}

fn payload_text(payload: &(dyn std::any::Any + Send)) -> String {
    if let Some(s) = payload.downcast_ref::<String>() {
        s.clone()
    } else if let Some(s) = payload.downcast_ref::<&str>() {
        s.to_string()
    } else if let Some(c) = payload.downcast_ref::<salsa::Cancelled>() {
        format!("Cancelled::{c:?}")
    } else {
        String::from("<opaque>")
    }
}

fn panic_code(payload: &(dyn std::any::Any + Send)) -> u32 {
    let msg = payload_text(payload);
    if msg.contains("never-changing inputs cannot be mutated") {
        1
    } else if msg.contains("dependency graph cycle") {
        2
    } else if msg.contains("returned the same value, but the previous execution changed at") {
        3
    } else if msg.contains("too many cycle iterations") {
        4
    } else if msg.contains("verif-injected panic") {
        5
    } else if msg.contains("PropagatedPanic") {
        7
    } else if msg.contains("PendingWrite") {
        8
    } else if msg.contains("Cancelled::Local") {
        9
    } else {
        eprintln!("harness: unclassified panic: {msg}");
        99
    }
}

// ------------------------------------------------------------------ cases

#[derive(Clone)]
enum Op {
    Set(usize, i64, u8, Option<i64>),
    Synth(i64),
    Get(u8, usize),
    Par(Vec<Vec<(u8, usize)>>),
    /// hold mode, hold point, reader threads, the write
    WPar(usize, usize, Vec<Vec<(u8, usize)>>, Box<Op>),
}

struct Case {
    id: String,
    nk: usize,
    ni: usize,
    probe: i64,
    ival: HashMap<(usize, usize), i64>,
    idur: HashMap<(usize, usize), i64>,
    nodes: HashMap<(u8, usize), Expr>,
    hist: Vec<Op>,
}

fn find<'a>(items: &'a [Sx], name: &str) -> &'a [Sx] {
    for it in items {
        if let Sx::L(l) = it {
            if !l.is_empty() && l[0].is_atom(name) {
                return &l[1..];
            }
        }
    }
    &[]
}

fn get_of(x: &Sx) -> (u8, usize) {
    let l = x.list();
    assert!(l[0].is_atom("get"), "harness: only (get F K) inside a par thread");
    (l[1].int() as u8, l[2].int() as usize)
}

fn write_of(l: &[Sx]) -> Op {
    match l[0].atom() {
        "set" => Op::Set(
            l[1].int() as usize,
            l[2].int(),
            l[3].int() as u8,
            if l.len() > 4 { Some(l[4].int()) } else { None },
        ),
        "synth" => Op::Synth(l[1].int()),
        other => panic!("harness: `{other}` is not a write"),
    }
}

fn threads_of(items: &[Sx]) -> Vec<Vec<(u8, usize)>> {
    items
        .iter()
        .filter(|t| t.list()[0].is_atom("T"))
        .map(|t| t.list()[1..].iter().map(get_of).collect())
        .collect()
}

fn parse_case(line: &str) -> Case {
    let sx = sexp::parse(line);
    let items = sx.list();
    assert!(items[0].is_atom("case"));
    let id = items[1].atom().to_string();
    let cfg = find(&items[2..], "cfg");
    let geti = |name: &str, dflt: i64| -> i64 {
        let v = find(cfg, name);
        if v.len() == 1 { v[0].int() } else { dflt }
    };
    let nk = geti("nk", 1) as usize;
    let ni = geti("ni", 1) as usize;
    let probe = geti("probe", 0);
    let tri = |name: &str| -> HashMap<(usize, usize), i64> {
        find(&items[2..], name)
            .iter()
            .map(|t| {
                let l = t.list();
                ((l[0].int() as usize, l[1].int() as usize), l[2].int())
            })
            .collect()
    };
    let mut nodes = HashMap::new();
    for n in find(&items[2..], "prog") {
        let l = n.list();
        nodes.insert((l[1].int() as u8, l[2].int() as usize), expr_of(&l[3]));
    }
    let mut hist = Vec::new();
    for o in find(&items[2..], "hist") {
        let l = o.list();
        hist.push(match l[0].atom() {
            "set" | "synth" => write_of(l),
            "get" => {
                let (f, k) = get_of(o);
                Op::Get(f, k)
            }
            "par" => Op::Par(threads_of(&l[1..])),
            "wpar" => {
                let w = l[3..]
                    .iter()
                    .find(|t| t.list()[0].is_atom("W"))
                    .expect("harness: wpar needs (W write)");
                Op::WPar(
                    l[1].int() as usize,
                    l[2].int() as usize,
                    threads_of(&l[3..]),
                    Box::new(write_of(w.list()[1].list())),
                )
            }
            other => panic!("harness: operation `{other}` is not available in cyc_par"),
        });
    }
    Case { id, nk, ni, probe, ival: tri("ival"), idur: tri("idur"), nodes, hist }
}

// ------------------------------------------------------------------ observation

struct Obs {
    execs: usize,
    blocks: usize,
    max_iter: u32,
    /// WillIterateCycle events so far
    iter_events: usize,
    /// ... at the moment a hold point was reached (usize::MAX = no hold point reached)
    hold_iter_events: usize,
}

static OBS: Mutex<Obs> =
    Mutex::new(Obs { execs: 0, blocks: 0, max_iter: 0, iter_events: 0, hold_iter_events: usize::MAX });

fn obs() -> std::sync::MutexGuard<'static, Obs> {
    OBS.lock().unwrap_or_else(|e| e.into_inner())
}

#[derive(Clone, Copy, PartialEq, Eq, Debug)]
enum Res {
    V(u8),
    P(u32),
}

impl std::fmt::Display for Res {
    fn fmt(&self, f: &mut std::fmt::Formatter<'_>) -> std::fmt::Result {
        match self {
            Res::V(v) => write!(f, "{v}"),
            Res::P(c) => write!(f, "p{c}"),
        }
    }
}

struct Round {
    op: usize,
    cur: u64,
    probe_execs: usize,
    settled: Vec<((u8, usize), Res)>,
    unsettled: Vec<(u8, usize)>,
}

impl Round {
    fn text(&self) -> String {
        let s: Vec<String> = self.settled.iter().map(|((f, k), v)| format!("{f}.{k}={v}")).collect();
        let u: Vec<String> = self.unsettled.iter().map(|(f, k)| format!("{f}.{k}")).collect();
        format!(
            "{} cur={} px={} s={} u={}",
            self.op,
            self.cur,
            self.probe_execs,
            if s.is_empty() { "-".to_string() } else { s.join(",") },
            if u.is_empty() { "-".to_string() } else { u.join(",") }
        )
    }
}

struct IterObs {
    results: Vec<(usize, Vec<(String, Vec<Res>)>)>,
    execs: usize,
    blocks: usize,
    max_iter: u32,
    hold_iter_events: usize,
    contended: usize,
    held: bool,
    segments: Vec<Vec<String>>,
    rounds: Vec<Round>,
    hang: bool,
}

fn results_text(results: &[(usize, Vec<(String, Vec<Res>)>)]) -> String {
    let mut s = String::new();
    for (n, (idx, by)) in results.iter().enumerate() {
        if n > 0 {
            s.push(';');
        }
        s.push_str(&format!("{idx}:"));
        for (m, (who, rs)) in by.iter().enumerate() {
            if m > 0 {
                s.push('/');
            }
            let rs: Vec<String> = rs.iter().map(|r| r.to_string()).collect();
            s.push_str(&format!("{who}={}", rs.join(",")));
        }
    }
    if s.is_empty() { "-".into() } else { s }
}

/// code of the last panic caught in the current execution (0 = nothing unwound).  Under shuttle
/// an execution in which something unwound is not a sound exploration (shuttle switches tasks
/// while `std::thread::panicking()` is true): the caller re-examines such cases on OS threads.
static UNWOUND: AtomicUsize = AtomicUsize::new(0);

fn guarded(f: impl FnOnce() -> u8) -> Res {
    match catch_unwind(AssertUnwindSafe(f)) {
        Ok(v) => Res::V(v),
        Err(p) => {
            let code = panic_code(p.as_ref());
            UNWOUND.store(code as usize, Ordering::SeqCst);
            Res::P(code)
        }
    }
}

fn kv<'a>(line: &'a str, key: &str) -> &'a str {
    let pat = format!(" {key}=");
    let start = match line.find(&pat) {
        Some(s) => s + pat.len(),
        None => return "",
    };
    let rest = &line[start..];
    if rest.starts_with('[') {
        let end = rest.find(']').unwrap();
        &rest[1..end]
    } else if rest.starts_with('(') {
        let end = rest.find(')').unwrap();
        &rest[1..end]
    } else {
        let end = rest.find(' ').unwrap_or(rest.len());
        &rest[..end]
    }
}

fn first_number(s: &str) -> u64 {
    let d: String = s.chars().skip_while(|c| !c.is_ascii_digit()).take_while(|c| c.is_ascii_digit()).collect();
    d.parse().unwrap_or(0)
}

struct MemoInfo {
    has_value: bool,
    verified: u64,
    fin: bool,
    iter: u64,
    heads: Vec<((u8, usize), u64)>,
}

/// dump the state, compute the settled memos, read each of them once on the main handle
fn probe(db: &Db, cd: &CaseData, fam_of: &HashMap<u32, u8>, op: usize) -> Round {
    let dump = salsa::verif::dump_state(db);
    if std::env::var_os("CYC_PAR_DEBUG_DUMP").is_some() {
        for l in &dump {
            eprintln!("DUMP {op} {l}");
        }
    }
    let mut cur = 0u64;
    let mut memos: BTreeMap<(u8, usize), MemoInfo> = BTreeMap::new();
    for line in &dump {
        if let Some(rest) = line.strip_prefix("runtime ") {
            cur = first_number(kv(&format!(" {rest}"), "revisions"));
        } else if line.starts_with("memo ") {
            let name = kv(line, "name");
            let fam = match FAM_NAMES.iter().position(|n| *n == name) {
                Some(f) => f as u8,
                None => continue,
            };
            let key = first_number(kv(line, "key")) as usize;
            let mut heads = Vec::new();
            for h in kv(line, "heads").split(',').filter(|s| !s.is_empty()) {
                let (k, it) = h.split_once('@').unwrap();
                let parts: Vec<&str> = k.split(':').collect();
                let ing: u32 = parts[0].parse().unwrap();
                let idx: usize = parts[1].parse().unwrap();
                heads.push(((fam_of.get(&ing).copied().unwrap_or(255), idx), it.parse().unwrap_or(0)));
            }
            memos.insert(
                (fam, key),
                MemoInfo {
                    has_value: kv(line, "has_value") == "1" || kv(line, "has_value") == "true",
                    verified: first_number(kv(line, "verified_at")),
                    fin: kv(line, "final") == "1" || kv(line, "final") == "true",
                    iter: first_number(kv(line, "iter")),
                    heads,
                },
            );
        }
    }
    let mut settled_keys = Vec::new();
    let mut unsettled = Vec::new();
    for (q, m) in &memos {
        let ok = m.has_value
            && m.verified == cur
            && (m.fin
                || m.heads.iter().all(|(h, it)| {
                    memos.get(h).is_some_and(|hm| hm.fin && hm.verified == m.verified && hm.iter == *it)
                }));
        if ok {
            settled_keys.push(*q);
        } else {
            unsettled.push(*q);
        }
    }
    let before = obs().execs;
    let mut settled = Vec::new();
    for q in settled_keys {
        let r = guarded(|| call_fam(db, cd, q.0, q.1));
        settled.push((q, r));
    }
    let mut probe_execs = obs().execs - before;
    // second phase: final memos last verified in an EARLIER revision (their readers were
    // validated, not re-executed, in this one).  A read that validates them without executing
    // anything returns the memo's value, now verified in the current revision; the first read
    // that executes something ends the phase (that node stays unsettled).
    let stale: Vec<(u8, usize)> = unsettled
        .iter()
        .copied()
        .filter(|q| memos.get(q).is_some_and(|m| m.has_value && m.fin && m.verified < cur))
        .collect();
    for q in stale {
        let b = obs().execs;
        let r = guarded(|| call_fam(db, cd, q.0, q.1));
        if obs().execs != b {
            probe_execs += obs().execs - b;
            break;
        }
        unsettled.retain(|u| *u != q);
        settled.push((q, r));
    }
    settled.sort_by_key(|(q, _)| *q);
    Round { op, cur, probe_execs, settled, unsettled }
}

/// keys that two different threads tried to claim (claimed, or found claimed) in this segment
fn contended_keys(segment: &[String]) -> usize {
    let mut by_key: HashMap<&str, BTreeSet<&str>> = HashMap::new();
    for l in segment {
        let t: Vec<&str> = l.split(' ').collect();
        if t.len() >= 5 && (t[2] == "claim" || t[2] == "block") {
            by_key.entry(t[4]).or_default().insert(t[3]);
        }
    }
    by_key.values().filter(|s| s.len() >= 2).count()
}

fn apply_write(db: &mut Db, cd: &CaseData, op: &Op) -> Option<Res> {
    let r = match op {
        Op::Set(i, f, v, d) => {
            let inp = cd.inputs[*i];
            catch_unwind(AssertUnwindSafe(|| {
                macro_rules! doset {
                    ($setter:ident) => {{
                        let s = inp.$setter(db);
                        match d {
                            Some(d) => s.with_durability(dur_of(*d)).to(*v),
                            None => s.to(*v),
                        }
                    }};
                }
                match f {
                    0 => doset!(set_a),
                    1 => doset!(set_b),
                    _ => doset!(set_c),
                };
            }))
        }
        Op::Synth(d) => {
            let d = dur_of(*d);
            catch_unwind(AssertUnwindSafe(|| db.synthetic_write(d)))
        }
        _ => panic!("harness: not a write"),
    };
    r.err().map(|p| Res::P(panic_code(p.as_ref())))
}

/// the requests of a group in the order a single thread makes them: thread after thread
/// (`order_seed` = 0) or a pseudo-random interleaving that keeps each thread's own order
fn linearise(groups: &[Vec<(u8, usize)>], order_seed: u64, salt: u64) -> Vec<(usize, usize)> {
    let mut out = Vec::new();
    if order_seed == 0 {
        for (t, gets) in groups.iter().enumerate() {
            for pos in 0..gets.len() {
                out.push((t, pos));
            }
        }
        return out;
    }
    let mut next: Vec<usize> = vec![0; groups.len()];
    let mut x = order_seed ^ salt.wrapping_mul(0x9E37_79B9_7F4A_7C15) | 1;
    loop {
        let open: Vec<usize> = (0..groups.len()).filter(|t| next[*t] < groups[*t].len()).collect();
        if open.is_empty() {
            return out;
        }
        x ^= x << 13;
        x ^= x >> 7;
        x ^= x << 17;
        let t = open[(x >> 11) as usize % open.len()];
        out.push((t, next[t]));
        next[t] += 1;
    }
}

fn run_group_seq(db: &Db, cd: &CaseData, groups: &[Vec<(u8, usize)>], order_seed: u64, salt: u64) -> Vec<(String, Vec<Res>)> {
    let mut by: Vec<(String, Vec<Res>)> = groups.iter().enumerate().map(|(t, _)| (t.to_string(), Vec::new())).collect();
    for (t, pos) in linearise(groups, order_seed, salt) {
        let (f, k) = groups[t][pos];
        let r = guarded(|| call_fam(db, cd, f, k));
        by[t].1.push(r);
    }
    by
}

/// Run the whole history of `case` on a fresh database.  `seq`: par/wpar groups are flattened
/// (on the main handle, no hold point; `mode_seed` then selects the linearisation).
fn run_history(case: &Case, seq: bool, mode_seed: u64) -> IterObs {
    {
        let mut o = obs();
        o.execs = 0;
        o.blocks = 0;
        o.max_iter = 0;
        o.iter_events = 0;
        o.hold_iter_events = usize::MAX;
    }
    HOLD.reset(0, 0);
    UNWOUND.store(0, Ordering::SeqCst);
    let _ = salsa::verif_take_proto_trace();
    TID.with(|t| t.set(MAIN));
    let mut db = Db {
        storage: salsa::Storage::new(Some(Box::new(move |e: salsa::Event| match e.kind {
            salsa::EventKind::WillExecute { .. } => obs().execs += 1,
            salsa::EventKind::WillBlockOn { .. } => obs().blocks += 1,
            salsa::EventKind::WillIterateCycle { iteration, .. } => {
                let mut o = obs();
                o.max_iter = o.max_iter.max(iteration as u32);
                o.iter_events += 1;
            }
            salsa::EventKind::DidSetCancellationFlag => HOLD.signal(2),
            _ => {}
        }))),
    };
    let n_inputs = case.ni.max(case.nk);
    let mut inputs = Vec::new();
    for i in 0..n_inputs {
        let g = |f: usize| *case.ival.get(&(i, f)).unwrap_or(&0) as u8;
        let d = |f: usize| dur_of(*case.idur.get(&(i, f)).unwrap_or(&0));
        let inp = Inp::builder(g(0), g(1), g(2))
            .a_durability(d(0))
            .b_durability(d(1))
            .c_durability(d(2))
            .new(&db);
        assert_eq!(salsa::plumbing::AsId::as_id(&inp).index() as usize, i);
        inputs.push(inp);
    }
    let cd = Arc::new(CaseData { nk: case.nk, nodes: case.nodes.clone(), inputs });
    *CASE.write().unwrap() = Some(cd.clone());
    let mut fam_of: HashMap<u32, u8> = HashMap::new();
    for (idx, name) in salsa::verif::ingredient_names(&db) {
        if let Some(f) = FAM_NAMES.iter().position(|n| *n == name) {
            fam_of.insert(idx, f as u8);
        }
    }
    let last_group = case
        .hist
        .iter()
        .rposition(|o| matches!(o, Op::Par(_) | Op::WPar(..)))
        .unwrap_or(usize::MAX);

    let mut out = IterObs {
        results: Vec::new(),
        execs: 0,
        blocks: 0,
        max_iter: 0,
        hold_iter_events: usize::MAX,
        contended: 0,
        held: false,
        segments: Vec::new(),
        rounds: Vec::new(),
        hang: false,
    };
    let mut par_no = 0u64;
    for (idx, op) in case.hist.iter().enumerate() {
        let mut group_done = false;
        match op {
            Op::Set(..) | Op::Synth(_) => {
                if let Some(r) = apply_write(&mut db, &cd, op) {
                    out.results.push((idx, vec![("m".into(), vec![r])]));
                }
            }
            Op::Get(f, k) => {
                let r = guarded(|| call_fam(&db, &cd, *f, *k));
                out.results.push((idx, vec![("m".into(), vec![r])]));
            }
            Op::Par(groups) if seq => {
                let by = run_group_seq(&db, &cd, groups, mode_seed, idx as u64);
                out.results.push((idx, by));
                group_done = true;
            }
            Op::WPar(_, _, groups, w) if seq => {
                let mut by = run_group_seq(&db, &cd, groups, mode_seed, idx as u64);
                if let Some(r) = apply_write(&mut db, &cd, w) {
                    by.push(("m".into(), vec![r]));
                }
                out.results.push((idx, by));
                group_done = true;
            }
            Op::Par(groups) => {
                par_no += 1;
                CTL.entered.store(0, Ordering::SeqCst);
                CTL.expect.store(groups.len(), Ordering::SeqCst);
                let mode = {
                    let mut x = mode_seed ^ par_no.wrapping_mul(0x9E37_79B9_7F4A_7C15);
                    x ^= x >> 31;
                    x = x.wrapping_mul(0xBF58_476D_1CE4_E5B9);
                    x ^= x >> 29;
                    (x % 3) as usize
                };
                CTL.mode.store(if cfg!(feature = "shuttle") { 0 } else { mode }, Ordering::SeqCst);
                match run_par(&db, &cd, groups, mode_seed ^ par_no) {
                    Some(by) => out.results.push((idx, by)),
                    None => {
                        out.hang = true;
                        out.results.push((idx, vec![("hang".into(), vec![])]));
                        break;
                    }
                }
                CTL.mode.store(0, Ordering::SeqCst);
                let seg = salsa::verif_take_proto_trace();
                out.contended += contended_keys(&seg);
                out.segments.push(seg);
                group_done = true;
            }
            Op::WPar(mode, at, groups, w) => {
                par_no += 1;
                CTL.mode.store(0, Ordering::SeqCst);
                match run_wpar(&mut db, &cd, *mode, *at, groups, w, mode_seed ^ par_no) {
                    Some((by, held)) => {
                        out.results.push((idx, by));
                        out.held |= held;
                    }
                    None => {
                        out.hang = true;
                        out.results.push((idx, vec![("hang".into(), vec![])]));
                        break;
                    }
                }
                let seg = salsa::verif_take_proto_trace();
                out.contended += contended_keys(&seg);
                out.segments.push(seg);
                group_done = true;
            }
        }
        if group_done && (case.probe == 1 || (case.probe == 2 && idx == last_group)) {
            out.rounds.push(probe(&db, &cd, &fam_of, idx));
        }
    }
    if !out.hang {
        let seg = salsa::verif_take_proto_trace();
        if !seg.is_empty() {
            out.segments.push(seg);
        }
    }
    {
        let o = obs();
        out.execs = o.execs;
        out.blocks = o.blocks;
        out.max_iter = o.max_iter;
        out.hold_iter_events = o.hold_iter_events;
    }
    if !out.hang {
        *CASE.write().unwrap() = None;
    }
    out
}

fn thread_body(t: usize, db: Db, cd: Arc<CaseData>, gets: Vec<(u8, usize)>, seed: u64) -> Vec<Res> {
    TID.with(|c| c.set(t));
    ENTERED_ONCE.with(|e| e.set(false));
    TRNG.with(|r| r.set((seed ^ ((t as u64 + 1) << 32)) | 1));
    let rs = gets.iter().map(|(f, k)| guarded(|| call_fam(&db, &cd, *f, *k))).collect();
    drop(db);
    rs
}

#[cfg(feature = "shuttle")]
fn run_par(db: &Db, cd: &Arc<CaseData>, groups: &[Vec<(u8, usize)>], seed: u64) -> Option<Vec<(String, Vec<Res>)>> {
    let hs: Vec<_> = groups
        .iter()
        .enumerate()
        .map(|(t, gets)| {
            let (d, c, g) = (db.clone(), cd.clone(), gets.clone());
            thread::spawn(move || thread_body(t, d, c, g, seed))
        })
        .collect();
    let mut by = Vec::new();
    for (t, h) in hs.into_iter().enumerate() {
        by.push((t.to_string(), h.join().expect("par thread does not panic (results are caught)")));
    }
    Some(by)
}

#[cfg(feature = "shuttle")]
fn run_wpar(
    _db: &mut Db,
    _cd: &Arc<CaseData>,
    _mode: usize,
    _at: usize,
    _groups: &[Vec<(u8, usize)>],
    _w: &Op,
    _seed: u64,
) -> Option<(Vec<(String, Vec<Res>)>, bool)> {
    panic!("harness: (wpar ..) needs the OS-thread build (shuttle cannot drive workloads that unwind)");
}

#[cfg(not(feature = "shuttle"))]
fn run_par(db: &Db, cd: &Arc<CaseData>, groups: &[Vec<(u8, usize)>], seed: u64) -> Option<Vec<(String, Vec<Res>)>> {
    let (tx, rx) = std::sync::mpsc::channel();
    let start = Arc::new(std::sync::Barrier::new(groups.len()));
    for (t, gets) in groups.iter().enumerate() {
        let (d, c, g, tx, start) = (db.clone(), cd.clone(), gets.clone(), tx.clone(), start.clone());
        thread::spawn(move || {
            start.wait();
            let rs = thread_body(t, d, c, g, seed);
            let _ = tx.send((t, rs));
        });
    }
    drop(tx);
    let mut by: Vec<Option<Vec<Res>>> = vec![None; groups.len()];
    for _ in 0..groups.len() {
        match rx.recv_timeout(std::time::Duration::from_secs(20)) {
            Ok((t, rs)) => by[t] = Some(rs),
            Err(_) => return None,
        }
    }
    Some(by.into_iter().enumerate().map(|(t, r)| (t.to_string(), r.unwrap())).collect())
}

/// reader threads + a write by the main handle once the hold point was reached
#[cfg(not(feature = "shuttle"))]
fn run_wpar(
    db: &mut Db,
    cd: &Arc<CaseData>,
    mode: usize,
    at: usize,
    groups: &[Vec<(u8, usize)>],
    w: &Op,
    seed: u64,
) -> Option<(Vec<(String, Vec<Res>)>, bool)> {
    HOLD.reset(mode, at);
    let (tx, rx) = std::sync::mpsc::channel();
    let start = Arc::new(std::sync::Barrier::new(groups.len()));
    for (t, gets) in groups.iter().enumerate() {
        let (d, c, g, tx, start) = (db.clone(), cd.clone(), gets.clone(), tx.clone(), start.clone());
        thread::spawn(move || {
            start.wait();
            let rs = thread_body(t, d, c, g, seed);
            let _ = tx.send((t, rs));
        });
    }
    drop(tx);
    let mut by: Vec<Option<Vec<Res>>> = vec![None; groups.len()];
    let mut done = 0;
    let begin = std::time::Instant::now();
    // wait for the hold point (or for every reader to finish)
    while done < groups.len() && HOLD.stage() < 1 {
        match rx.recv_timeout(std::time::Duration::from_micros(200)) {
            Ok((t, rs)) => {
                by[t] = Some(rs);
                done += 1;
            }
            Err(std::sync::mpsc::RecvTimeoutError::Timeout) => {
                if begin.elapsed() > std::time::Duration::from_secs(20) {
                    return None;
                }
            }
            Err(std::sync::mpsc::RecvTimeoutError::Disconnected) => break,
        }
    }
    let held = HOLD.stage() >= 1;
    // the write: sets the cancellation flag (event -> stage 2 releases a held reader), waits for
    // every other handle to be dropped, then mutates
    let wres = apply_write(db, cd, w);
    HOLD.signal(2);
    while done < groups.len() {
        match rx.recv_timeout(std::time::Duration::from_secs(20)) {
            Ok((t, rs)) => {
                by[t] = Some(rs);
                done += 1;
            }
            Err(_) => return None,
        }
    }
    HOLD.reset(0, 0);
    let mut res: Vec<(String, Vec<Res>)> =
        by.into_iter().enumerate().map(|(t, r)| (t.to_string(), r.unwrap_or_default())).collect();
    if let Some(r) = wres {
        res.push(("m".into(), vec![r]));
    }
    Some((res, held))
}

// ------------------------------------------------------------------ driver

struct Args {
    file: String,
    iters: usize,
    sched: String,
    seed: u64,
    pct_depth: usize,
    max_steps: usize,
    trace_dir: Option<PathBuf>,
    trace_cap: usize,
    only: Option<String>,
    replay_schedule: Option<String>,
    ref_orders: usize,
}

fn parse_args() -> Args {
    let mut a = Args {
        file: String::new(),
        iters: 100,
        sched: "pct".into(),
        seed: 1,
        pct_depth: 3,
        max_steps: 400_000,
        trace_dir: None,
        trace_cap: 20,
        only: None,
        replay_schedule: None,
        ref_orders: 0,
    };
    let mut it = std::env::args().skip(1);
    while let Some(k) = it.next() {
        let mut v = || it.next().unwrap_or_else(|| panic!("missing value for {k}"));
        match k.as_str() {
            "--iters" => a.iters = v().parse().expect("--iters N"),
            "--sched" => a.sched = v(),
            "--seed" => a.seed = v().parse().expect("--seed S"),
            "--pct-depth" => a.pct_depth = v().parse().expect("--pct-depth D"),
            "--max-steps" => a.max_steps = v().parse().expect("--max-steps M"),
            "--trace-dir" => a.trace_dir = Some(PathBuf::from(v())),
            "--trace-cap" => a.trace_cap = v().parse().expect("--trace-cap N"),
            "--only" => a.only = Some(v()),
            "--replay-schedule" => a.replay_schedule = Some(v()),
            "--ref-orders" => a.ref_orders = v().parse().expect("--ref-orders N"),
            other if !other.starts_with("--") && a.file.is_empty() => a.file = other.to_string(),
            other => panic!("unknown argument {other}"),
        }
    }
    a
}

fn fnv(s: &str) -> u64 {
    let mut h: u64 = 0xcbf2_9ce4_8422_2325;
    for b in s.bytes() {
        h ^= b as u64;
        h = h.wrapping_mul(0x0000_0100_0000_01b3);
    }
    h
}

static FAILURES: AtomicUsize = AtomicUsize::new(0);

struct Progress {
    iter: usize,
    traces_written: usize,
    failures: usize,
}

fn report(case: &Case, args: &Args, pg: &Mutex<Progress>, o: IterObs) {
    let mut pg = pg.lock().unwrap_or_else(|e| e.into_inner());
    let iter = pg.iter;
    pg.iter += 1;
    // protocol statistics from the H2 trace
    let (mut cross, mut transfers, mut selfonly, mut xtransfers) = (0usize, 0usize, 0usize, 0usize);
    for l in o.segments.iter().flatten() {
        let t: Vec<&str> = l.split(' ').collect();
        if t.len() >= 8 && t[2] == "block" && t[7] == "cycle" && t[3] != t[5] {
            cross += 1;
        }
        if t.len() >= 3 && t[2] == "transfer" {
            transfers += 1;
            // `transfer T K K' thread N -> b`: the new owner runs on another thread (or is itself
            // a transferred query)
            if t.len() >= 8 && (t[6] != "thread" || t[7] != t[3]) {
                xtransfers += 1;
            }
        }
        if t.len() >= 3 && t[2] == "claim" && l.ends_with("claimed selfonly") {
            selfonly += 1;
        }
    }
    let mut tfile = String::from("-");
    if let Some(dir) = &args.trace_dir {
        // keep the traces of schedules with transfers first, then with waits
        // under shuttle the trace of an execution in which something unwound is not kept (task
        // switches while a thread is panicking: not a sound run of the protocol)
        let sound = !(cfg!(feature = "shuttle") && UNWOUND.load(Ordering::SeqCst) != 0);
        let interesting = sound && (xtransfers > 0 || o.blocks > 0 || iter < 2);
        let room = pg.traces_written < args.trace_cap
            || (xtransfers > 0 && pg.traces_written < args.trace_cap * 2);
        if interesting && room {
            for (n, seg) in o.segments.iter().enumerate() {
                if seg.is_empty() {
                    continue;
                }
                let p = dir.join(format!("{}-{}-{:05}-{}.trace", case.id, args.sched, iter, n));
                let mut f = std::io::BufWriter::new(std::fs::File::create(&p).expect("create trace file"));
                for l in seg {
                    writeln!(f, "{l}").unwrap();
                }
            }
            tfile = format!("{}-{}-{:05}", case.id, args.sched, iter);
            pg.traces_written += 1;
        }
    }
    let mut h: u64 = 0xcbf2_9ce4_8422_2325;
    for seg in &o.segments {
        for l in seg {
            h ^= fnv(l);
            h = h.wrapping_mul(0x0000_0100_0000_01b3);
        }
        h = h.rotate_left(7);
    }
    let out = std::io::stdout();
    let mut out = out.lock();
    writeln!(
        out,
        "I {iter} b={} c={} x={} y={cross} tr={transfers} xt={xtransfers} so={selfonly} it={} hd={} hi={} uw={} h={h:016x} t={tfile} r={}",
        o.blocks,
        o.contended,
        o.execs,
        o.max_iter,
        o.held as u8,
        if o.hold_iter_events == usize::MAX { "-".to_string() } else { o.hold_iter_events.to_string() },
        UNWOUND.load(Ordering::SeqCst),
        results_text(&o.results)
    )
    .unwrap();
    for r in &o.rounds {
        writeln!(out, "G {iter} {}", r.text()).unwrap();
    }
    if o.hang {
        pg.failures += 1;
        writeln!(out, "F {iter} kind=hang sched=- msg=a par group did not finish within 20 s").unwrap();
    }
}

fn print_ref(o: &IterObs) {
    println!("REF r={}", results_text(&o.results));
    for r in &o.rounds {
        println!("RG {}", r.text());
    }
}

#[cfg(feature = "shuttle")]
fn shuttle_config(args: &Args) -> shuttle::Config {
    let mut config = shuttle::Config::default();
    config.stack_size = 1024 * 1024;
    config.max_steps = shuttle::MaxSteps::FailAfter(args.max_steps);
    config.failure_persistence = match &args.trace_dir {
        Some(d) => shuttle::FailurePersistence::File(Some(sched_dir(d))),
        None => shuttle::FailurePersistence::Print,
    };
    config
}

fn sched_dir(d: &std::path::Path) -> PathBuf {
    PathBuf::from(format!("{}.schedules/{}", d.display(), std::process::id()))
}

#[cfg(feature = "shuttle")]
fn schedule_files(args: &Args) -> BTreeSet<PathBuf> {
    let mut s = BTreeSet::new();
    if let Some(d) = &args.trace_dir {
        if let Ok(rd) = std::fs::read_dir(sched_dir(d)) {
            for e in rd.flatten() {
                s.insert(e.path());
            }
        }
    }
    s
}

#[cfg(feature = "shuttle")]
fn explore(case: Arc<Case>, args: Arc<Args>) {
    println!("CASE {}", case.id);
    {
        let c = case.clone();
        let s = shuttle::scheduler::RandomScheduler::new_from_seed(1, 1);
        shuttle::Runner::new(s, shuttle_config(&args)).run(move || {
            let o = run_history(&c, true, 0);
            print_ref(&o);
        });
        // further single-threaded runs, one per linearisation of the par groups
        for n in 1..=args.ref_orders {
            let c = case.clone();
            let s = shuttle::scheduler::RandomScheduler::new_from_seed(1, 1);
            shuttle::Runner::new(s, shuttle_config(&args)).run(move || {
                let o = run_history(&c, true, n as u64);
                println!("REFO {n} r={}", results_text(&o.results));
            });
        }
    }
    let pg = Arc::new(Mutex::new(Progress { iter: 0, traces_written: 0, failures: 0 }));
    let mut attempt = 0u64;
    loop {
        let done = pg.lock().unwrap().iter;
        if done >= args.iters {
            break;
        }
        let remaining = args.iters - done;
        let seed = args.seed ^ fnv(&case.id).rotate_left(17) ^ attempt.wrapping_mul(0x9E37_79B9_7F4A_7C15);
        let before = schedule_files(&args);
        let (c, a, p) = (case.clone(), args.clone(), pg.clone());
        let body = move || {
            let o = run_history(&c, false, 0);
            report(&c, &a, &p, o);
        };
        let config = shuttle_config(&args);
        let r = catch_unwind(AssertUnwindSafe(|| match args.sched.as_str() {
            "random" => {
                let s = shuttle::scheduler::RandomScheduler::new_from_seed(seed, remaining);
                shuttle::Runner::new(s, config).run(body);
            }
            _ => {
                let s = shuttle::scheduler::PctScheduler::new_from_seed(seed, args.pct_depth, remaining);
                shuttle::Runner::new(s, config).run(body);
            }
        }));
        if let Err(p) = r {
            let msg = payload_text(p.as_ref()).replace('\n', " ");
            let kind = if msg.contains("deadlock") {
                "deadlock"
            } else if msg.contains("max_steps") || msg.contains("exceeded") {
                "maxsteps"
            } else {
                "panic"
            };
            let after = schedule_files(&args);
            let newf: Vec<String> = after.difference(&before).map(|p| p.display().to_string()).collect();
            let mut g = pg.lock().unwrap_or_else(|e| e.into_inner());
            let iter = g.iter;
            // the H2 protocol trace of the failed execution up to the failure
            let failed_trace = salsa::verif_take_proto_trace();
            if let Some(d) = &args.trace_dir {
                let p = sched_dir(d).join(format!("failed-{}-{}-{:05}.h2", case.id, args.sched, iter));
                if let Ok(f) = std::fs::File::create(&p) {
                    let mut f = std::io::BufWriter::new(f);
                    for l in &failed_trace {
                        let _ = writeln!(f, "{l}");
                    }
                    println!("T {iter} failed_trace={}", p.display());
                }
            }
            g.iter += 1;
            g.failures += 1;
            println!(
                "F {iter} kind={kind} sched={} unwound={} attempt={attempt} runner_seed={seed} msg={}",
                // the schedule of THIS failure is the file persisted last (earlier new files belong
                // to executions of this runner in which a caught panic made shuttle persist one)
                newf.iter()
                    .max_by_key(|f| {
                        let d: String = f.rsplit('/').next().unwrap_or("").chars().filter(|c| c.is_ascii_digit()).collect();
                        d.parse::<u64>().unwrap_or(0)
                    })
                    .cloned()
                    .unwrap_or_else(|| "-".to_string()),
                UNWOUND.load(Ordering::SeqCst),
                &msg[..msg.len().min(600)]
            );
            *CASE.write().unwrap_or_else(|e| e.into_inner()) = None;
            attempt += 1;
            FAILURES.fetch_add(1, Ordering::SeqCst);
            if g.failures >= 3 {
                break;
            }
        }
    }
    let g = pg.lock().unwrap();
    println!("END {} iters={} failures={}", case.id, g.iter, g.failures);
}

#[cfg(feature = "shuttle")]
fn replay_schedule(case: Arc<Case>, args: Arc<Args>, path: &str) {
    println!("CASE {}", case.id);
    {
        let c = case.clone();
        let s = shuttle::scheduler::RandomScheduler::new_from_seed(1, 1);
        shuttle::Runner::new(s, shuttle_config(&args)).run(move || {
            let o = run_history(&c, true, 0);
            print_ref(&o);
        });
    }
    let pg = Arc::new(Mutex::new(Progress { iter: 0, traces_written: 0, failures: 0 }));
    let (c, a, p) = (case.clone(), args.clone(), pg.clone());
    let s = shuttle::scheduler::ReplayScheduler::new_from_file(path).expect("could not load schedule");
    let r = catch_unwind(AssertUnwindSafe(|| {
        shuttle::Runner::new(s, shuttle_config(&args)).run(move || {
            let o = run_history(&c, false, 0);
            report(&c, &a, &p, o);
        })
    }));
    if let Err(p) = r {
        println!("F 0 kind=replayed sched={path} msg={}", payload_text(p.as_ref()).replace('\n', " "));
    }
    println!("END {} iters=1 failures={}", case.id, pg.lock().unwrap().failures);
}

#[cfg(not(feature = "shuttle"))]
fn explore(case: Arc<Case>, args: Arc<Args>) {
    println!("CASE {}", case.id);
    let o = run_history(&case, true, 0);
    print_ref(&o);
    for n in 1..=args.ref_orders {
        let o = run_history(&case, true, n as u64);
        println!("REFO {n} r={}", results_text(&o.results));
    }
    let pg = Mutex::new(Progress { iter: 0, traces_written: 0, failures: 0 });
    for i in 0..args.iters {
        let seed = args.seed ^ fnv(&case.id).rotate_left(17) ^ (i as u64).wrapping_mul(0x9E37_79B9_7F4A_7C15);
        let o = run_history(&case, false, seed);
        let hang = o.hang;
        report(&case, &args, &pg, o);
        if hang {
            let g = pg.lock().unwrap();
            println!("END {} iters={} failures={}", case.id, g.iter, g.failures);
            std::io::stdout().flush().unwrap();
            std::process::exit(3);
        }
    }
    let g = pg.lock().unwrap();
    println!("END {} iters={} failures={}", case.id, g.iter, g.failures);
}

fn main() {
    // panics are expected outcomes (caught per request) or reported through F lines; the one
    // message that is kept is salsa's own assertion of update_transferred_edges: the process
    // usually aborts right after it (a poisoned lock in a destructor), so it is printed at once
    std::panic::set_hook(Box::new(|info| {
        let s = info.to_string();
        if s.contains("Circular reference between blocked edges") {
            println!("A salsa-assertion Circular reference between blocked edges (update_transferred_edges)");
            let _ = std::io::stdout().flush();
        }
    }));
    let mut args = parse_args();
    if !cfg!(feature = "shuttle") {
        args.sched = "os".into();
    }
    if let Some(d) = &args.trace_dir {
        std::fs::create_dir_all(d).expect("create trace directory");
        std::fs::create_dir_all(sched_dir(d)).expect("create trace directory");
    }
    let args = Arc::new(args);
    let text = std::fs::read_to_string(&args.file).expect("usage: cyc_par CASEFILE [options]");
    for line in text.lines() {
        if !line.starts_with('(') {
            continue;
        }
        let case = match catch_unwind(|| parse_case(line)) {
            Ok(c) => Arc::new(c),
            Err(p) => {
                println!("ERROR {}", payload_text(p.as_ref()));
                continue;
            }
        };
        if args.only.as_deref().is_some_and(|o| o != case.id) {
            continue;
        }
        if FAILURES.load(Ordering::SeqCst) > 0 {
            // A failed shuttle execution (deadlock, step bound, or an execution in which something
            // unwound) leaks its tasks together with the locks they hold: every later execution
            // in this process can fail spuriously (shuttle's own `state.holder.is_none()`,
            // poisoned locks).  The remaining cases are left to a fresh process: exit status 4.
            println!("TAINTED");
            std::io::stdout().flush().unwrap();
            std::process::exit(4);
        }
        #[cfg(feature = "shuttle")]
        if let Some(p) = &args.replay_schedule {
            replay_schedule(case, args.clone(), p);
            continue;
        }
        explore(case, args.clone());
    }
    std::io::stdout().flush().unwrap();
}

//! par_harness — generated DSL programs whose read phases run on several database clones at once.
//!
//! Same vocabulary as /verif/harness/src/core_harness.rs: one input struct `Inp` (three u8
//! fields; the input with index k doubles as key k), the tracked-function families 0 = `plain`
//! and 2 = `noeq` (family 1, the LRU family, is deliberately absent: C17 excludes eviction), and
//! the same expression DSL — every tracked function body is `interp(db, FAMILY, key)`.
//!
//! A case is `(case ID (cfg (nk N) (ni N) (nf 3) ...) (ival ..) (idur ..) (prog (node F K E)..)
//! (hist OP..))` with
//!   OP ::= (set I F V [D]) | (synth D) | (get F K) | (par (T (get F K)..) (T ..) ..)
//! `(par ..)` = one thread per `T`, each on its own clone of the database, all started
//! together; the main handle continues after joining them (writes need every clone dropped).
//!
//! usage: par_harness CASEFILE [--iters N] [--sched pct|random] [--seed S] [--pct-depth D]
//!                    [--max-steps M] [--trace-dir DIR] [--trace-cap N] [--only CASEID]
//!                    [--replay-schedule FILE] [--selftest-deadlock] [--fetch-trace]
//!
//! Output (stdout), per case:
//!   CASE id
//!   REF r=<results>                 results of the same history run on ONE thread in a fresh
//!                                   database (par groups flattened, thread by thread)
//!   I <iter> b=<WillBlockOn events> c=<keys claimed/blocked-on by >=2 threads in one par group>
//!            x=<WillExecute events> m=<max WillExecute per (key,revision)>
//!            y=<cross-thread Cycle answers> p=<waiters that received Panicked>
//!            h=<hash of the H2 protocol trace> t=<trace file|-> r=<results>
//!   X <iter> fam.key@rev=count ..   (only when m > 1: every (key,revision) executed twice)
//!   F <iter> kind=<deadlock|maxsteps|panic|hang> sched=<file|-> msg=<text>
//!   END id iters=<n> failures=<f>       (exploration of a case stops after 3 failures)
//!   SKIPPED id                          (15 failures in this process: case not explored)
//! <results> ::= op:who=r,r/who=r;op:...   who = m (main handle) | thread index; r = value | pCODE
//!
//! Feature `shuttle` (default): threads are shuttle tasks, `--iters` schedules per case under the
//! PCT or the random scheduler; a deadlock or an exceeded step bound is reported by shuttle
//! (caught, printed as an `F` line with the persisted schedule, exploration continues).
//! `--no-default-features`: OS threads; every iteration draws a rendezvous mode (free running /
//! all threads wait for each other inside their first query before their first nested call /
//! random short sleeps before nested calls); a join that takes longer than 20 s is a hang.

use std::cell::Cell;
use std::collections::{BTreeMap, BTreeSet, HashMap};
use std::io::Write as _;
use std::panic::{AssertUnwindSafe, catch_unwind};
use std::path::PathBuf;
use std::sync::atomic::{AtomicUsize, Ordering};
use std::sync::{Arc, Mutex, RwLock}; // std on purpose: never a shuttle scheduling point

use salsa::{Database, Durability, Setter};

mod sexp;
use sexp::Sx;

#[cfg(feature = "shuttle")]
use shuttle::{thread, thread_local};
#[cfg(not(feature = "shuttle"))]
use std::{thread, thread_local};

const MAIN: usize = usize::MAX;

thread_local! {
    /// harness thread index inside the current par group (MAIN = the main handle)
    static TID: Cell<usize> = Cell::new(MAIN);
    /// has this thread entered a tracked function body in the current par group?
    static ENTERED_ONCE: Cell<bool> = Cell::new(false);
    /// per-thread PRNG state for the randomised sleeps (OS-thread build)
    static TRNG: Cell<u64> = Cell::new(1);
}

// ------------------------------------------------------------------ salsa items

#[salsa::input]
struct Inp {
    #[returns(copy)]
    a: u8,
    #[returns(copy)]
    b: u8,
    #[returns(copy)]
    c: u8,
}

#[salsa::db]
#[derive(Clone)]
struct Db {
    storage: salsa::Storage<Self>,
}

#[salsa::db]
impl salsa::Database for Db {}

const FAM_PLAIN: u8 = 0;
const FAM_NOEQ: u8 = 2;

#[salsa::tracked(returns(copy))]
fn plain(db: &dyn salsa::Database, k: Inp) -> u8 {
    interp(db, FAM_PLAIN, k)
}

#[salsa::tracked(returns(copy), no_eq)]
fn noeq(db: &dyn salsa::Database, k: Inp) -> u8 {
    interp(db, FAM_NOEQ, k)
}

// ------------------------------------------------------------------ DSL (as core_harness.rs)

#[derive(Debug, Clone)]
enum Expr {
    Lit(u8),
    In(usize, usize),
    Call(u8, Box<Expr>),
    Op(String, Box<Expr>, Box<Expr>),
    If(Box<Expr>, Box<Expr>, Box<Expr>),
}

struct CaseData {
    nk: usize,
    nodes: HashMap<(u8, usize), Expr>,
    inputs: Vec<Inp>,
}

static CASE: RwLock<Option<Arc<CaseData>>> = RwLock::new(None);

fn case_data() -> Arc<CaseData> {
    CASE.read().unwrap().as_ref().unwrap().clone()
}

/// rendezvous control of the OS-thread build (mode 0 = free running)
struct Ctl {
    mode: AtomicUsize,
    entered: AtomicUsize,
    expect: AtomicUsize,
}
static CTL: Ctl = Ctl {
    mode: AtomicUsize::new(0),
    entered: AtomicUsize::new(0),
    expect: AtomicUsize::new(0),
};

fn interp(db: &dyn salsa::Database, fam: u8, k: Inp) -> u8 {
    if TID.with(|t| t.get()) != MAIN && !ENTERED_ONCE.with(|e| e.replace(true)) {
        CTL.entered.fetch_add(1, Ordering::SeqCst);
    }
    let cd = case_data();
    let key = salsa::plumbing::AsId::as_id(&k).index() as usize;
    match cd.nodes.get(&(fam, key)) {
        Some(e) => eval(db, &cd, e),
        None => 0,
    }
}

fn call_fam(db: &dyn salsa::Database, cd: &CaseData, fam: u8, key: usize) -> u8 {
    let k = cd.inputs[key];
    match fam {
        FAM_PLAIN => plain(db, k),
        FAM_NOEQ => noeq(db, k),
        _ => panic!("harness: family {fam} is not available in par_harness"),
    }
}

#[cfg(not(feature = "shuttle"))]
fn before_nested_call() {
    if TID.with(|t| t.get()) == MAIN {
        return;
    }
    match CTL.mode.load(Ordering::SeqCst) {
        1 => {
            // wait until every thread of the group is inside its first query (or 5 ms passed)
            let start = std::time::Instant::now();
            while CTL.entered.load(Ordering::SeqCst) < CTL.expect.load(Ordering::SeqCst)
                && start.elapsed() < std::time::Duration::from_millis(5)
            {
                std::thread::yield_now();
            }
        }
        2 => {
            let mut x = TRNG.with(|r| r.get());
            x ^= x << 13;
            x ^= x >> 7;
            x ^= x << 17;
            TRNG.with(|r| r.set(x));
            match x % 4 {
                0 => {}
                1 => std::thread::yield_now(),
                _ => std::thread::sleep(std::time::Duration::from_micros(x % 150)),
            }
        }
        _ => {}
    }
}

#[cfg(feature = "shuttle")]
fn before_nested_call() {}

fn eval(db: &dyn salsa::Database, cd: &CaseData, e: &Expr) -> u8 {
    match e {
        Expr::Lit(v) => *v,
        Expr::In(i, f) => {
            let inp = cd.inputs[*i];
            match f {
                0 => inp.a(db),
                1 => inp.b(db),
                _ => inp.c(db),
            }
        }
        Expr::Call(fam, k) => {
            let kv = eval(db, cd, k) as usize % cd.nk;
            before_nested_call();
            call_fam(db, cd, *fam, kv)
        }
        Expr::Op(o, a, b) => {
            let x = eval(db, cd, a);
            let y = eval(db, cd, b);
            match o.as_str() {
                "add" => x.wrapping_add(y),
                "sub" => x.wrapping_sub(y),
                "min" => x.min(y),
                "max" => x.max(y),
                "and" => x & y,
                "or" => x | y,
                "eq" => (x == y) as u8,
                "lt" => (x < y) as u8,
                "shr" => x >> (y % 8),
                _ => panic!("harness: unknown op {o}"),
            }
        }
        Expr::If(c, a, b) => {
            if eval(db, cd, c) != 0 {
                eval(db, cd, a)
            } else {
                eval(db, cd, b)
            }
        }
    }
}

fn expr_of(x: &Sx) -> Expr {
    let l = x.list();
    match l[0].atom() {
        "lit" => Expr::Lit(l[1].int() as u8),
        "in" => Expr::In(l[1].int() as usize, l[2].int() as usize),
        "call" => Expr::Call(l[1].int() as u8, Box::new(expr_of(&l[2]))),
        "op" => Expr::Op(
            l[1].atom().to_string(),
            Box::new(expr_of(&l[2])),
            Box::new(expr_of(&l[3])),
        ),
        "if" => Expr::If(
            Box::new(expr_of(&l[1])),
            Box::new(expr_of(&l[2])),
            Box::new(expr_of(&l[3])),
        ),
        other => panic!("harness: expression `{other}` is not available in par_harness"),
    }
}

fn dur_of(d: i64) -> Durability {
    match d {
        0 => Durability::LOW,
        1 => Durability::MEDIUM,
        2 => Durability::HIGH,
        _ => Durability::NEVER_CHANGE,
    }
}

fn payload_text(payload: &(dyn std::any::Any + Send)) -> String {
    if let Some(s) = payload.downcast_ref::<String>() {
        s.clone()
    } else if let Some(s) = payload.downcast_ref::<&str>() {
        s.to_string()
    } else if let Some(c) = payload.downcast_ref::<salsa::Cancelled>() {
        format!("Cancelled::{c:?}")
    } else {
        String::from("<opaque>")
    }
}

/// same classes as core_harness.rs
fn panic_code(payload: &(dyn std::any::Any + Send)) -> u32 {
    let msg = payload_text(payload);
    if msg.contains("never-changing inputs cannot be mutated") {
        1
    } else if msg.contains("dependency graph cycle") {
        2
    } else if msg.contains("returned the same value, but the previous execution changed at") {
        3
    } else if msg.contains("too many cycle iterations") {
        4
    } else if msg.contains("PropagatedPanic") {
        7
    } else if msg.contains("PendingWrite") {
        8
    } else if msg.contains("Cancelled::Local") {
        9
    } else {
        eprintln!("harness: unclassified panic: {msg}");
        99
    }
}

// ------------------------------------------------------------------ cases

#[derive(Clone)]
enum Op {
    Set(usize, i64, u8, Option<i64>),
    Synth(i64),
    Get(u8, usize),
    Par(Vec<Vec<(u8, usize)>>),
}

struct Case {
    id: String,
    nk: usize,
    ni: usize,
    ival: HashMap<(usize, usize), i64>,
    idur: HashMap<(usize, usize), i64>,
    nodes: HashMap<(u8, usize), Expr>,
    hist: Vec<Op>,
}

fn find<'a>(items: &'a [Sx], name: &str) -> &'a [Sx] {
    for it in items {
        if let Sx::L(l) = it {
            if !l.is_empty() && l[0].is_atom(name) {
                return &l[1..];
            }
        }
    }
    &[]
}

fn get_of(x: &Sx) -> (u8, usize) {
    let l = x.list();
    assert!(l[0].is_atom("get"), "harness: only (get F K) inside a par thread");
    (l[1].int() as u8, l[2].int() as usize)
}

fn parse_case(line: &str) -> Case {
    let sx = sexp::parse(line);
    let items = sx.list();
    assert!(items[0].is_atom("case"));
    let id = items[1].atom().to_string();
    let cfg = find(&items[2..], "cfg");
    let geti = |name: &str, dflt: i64| -> i64 {
        let v = find(cfg, name);
        if v.len() == 1 { v[0].int() } else { dflt }
    };
    let nk = geti("nk", 1) as usize;
    let ni = geti("ni", 1) as usize;
    let tri = |name: &str| -> HashMap<(usize, usize), i64> {
        find(&items[2..], name)
            .iter()
            .map(|t| {
                let l = t.list();
                ((l[0].int() as usize, l[1].int() as usize), l[2].int())
            })
            .collect()
    };
    let mut nodes = HashMap::new();
    for n in find(&items[2..], "prog") {
        let l = n.list();
        nodes.insert((l[1].int() as u8, l[2].int() as usize), expr_of(&l[3]));
    }
    let mut hist = Vec::new();
    for o in find(&items[2..], "hist") {
        let l = o.list();
        hist.push(match l[0].atom() {
            "set" => Op::Set(
                l[1].int() as usize,
                l[2].int(),
                l[3].int() as u8,
                if l.len() > 4 { Some(l[4].int()) } else { None },
            ),
            "synth" => Op::Synth(l[1].int()),
            "get" => {
                let (f, k) = get_of(o);
                Op::Get(f, k)
            }
            "par" => Op::Par(
                l[1..]
                    .iter()
                    .map(|t| {
                        let tl = t.list();
                        assert!(tl[0].is_atom("T"));
                        tl[1..].iter().map(get_of).collect()
                    })
                    .collect(),
            ),
            other => panic!("harness: operation `{other}` is not available in par_harness"),
        });
    }
    Case { id, nk, ni, ival: tri("ival"), idur: tri("idur"), nodes, hist }
}

// ------------------------------------------------------------------ observation

#[derive(Default)]
struct Obs {
    /// WillExecute: (ingredient, key index, revision)
    execs: Vec<(u32, u32, usize)>,
    /// number of WillBlockOn events
    blocks: usize,
}

static OBS: Mutex<Obs> = Mutex::new(Obs { execs: Vec::new(), blocks: 0 });
/// current revision number (read back from the runtime after every write)
static REV: AtomicUsize = AtomicUsize::new(1);

#[derive(Clone, Copy, PartialEq, Eq, Debug)]
enum Res {
    V(u8),
    P(u32),
}

impl std::fmt::Display for Res {
    fn fmt(&self, f: &mut std::fmt::Formatter<'_>) -> std::fmt::Result {
        match self {
            Res::V(v) => write!(f, "{v}"),
            Res::P(c) => write!(f, "p{c}"),
        }
    }
}

struct IterObs {
    /// (operation index, [(who, results)])
    results: Vec<(usize, Vec<(String, Vec<Res>)>)>,
    execs: BTreeMap<(u8, u32, usize), usize>,
    blocks: usize,
    contended: usize,
    segments: Vec<Vec<String>>,
    hang: bool,
}

fn results_text(results: &[(usize, Vec<(String, Vec<Res>)>)]) -> String {
    let mut s = String::new();
    for (n, (idx, by)) in results.iter().enumerate() {
        if n > 0 {
            s.push(';');
        }
        s.push_str(&format!("{idx}:"));
        for (m, (who, rs)) in by.iter().enumerate() {
            if m > 0 {
                s.push('/');
            }
            let rs: Vec<String> = rs.iter().map(|r| r.to_string()).collect();
            s.push_str(&format!("{who}={}", rs.join(",")));
        }
    }
    if s.is_empty() { "-".into() } else { s }
}

fn guarded(f: impl FnOnce() -> u8) -> Res {
    match catch_unwind(AssertUnwindSafe(f)) {
        Ok(v) => Res::V(v),
        Err(p) => Res::P(panic_code(p.as_ref())),
    }
}

fn current_revision(db: &Db) -> usize {
    for line in salsa::verif::dump_state(db) {
        if let Some(rest) = line.strip_prefix("runtime ") {
            let pat = "revisions=";
            let st = rest.find(pat).expect("runtime line has revisions") + pat.len();
            let digits: String = rest[st..]
                .chars()
                .skip_while(|c| !c.is_ascii_digit())
                .take_while(|c| c.is_ascii_digit())
                .collect();
            return digits.parse().expect("revision number");
        }
    }
    panic!("harness: no runtime line in dump_state");
}

/// keys that two different threads tried to claim (claimed, or found claimed) in this segment
fn contended_keys(segment: &[String]) -> usize {
    let mut by_key: HashMap<&str, BTreeSet<&str>> = HashMap::new();
    for l in segment {
        let t: Vec<&str> = l.split(' ').collect();
        if t.len() >= 5 && (t[2] == "claim" || t[2] == "block") {
            by_key.entry(t[4]).or_default().insert(t[3]);
        }
    }
    by_key.values().filter(|s| s.len() >= 2).count()
}

/// Run the whole history of `case` on a fresh database.  `seq`: par groups are flattened (thread
/// after thread on the main handle).  `mode_seed`: OS-thread build only, draws the rendezvous mode.
fn run_history(case: &Case, seq: bool, mode_seed: u64) -> IterObs {
    {
        let mut o = OBS.lock().unwrap_or_else(|e| e.into_inner());
        o.execs.clear();
        o.blocks = 0;
    }
    REV.store(1, Ordering::SeqCst);
    let _ = salsa::verif_take_proto_trace();
    TID.with(|t| t.set(MAIN));
    let mut db = Db {
        storage: salsa::Storage::new(Some(Box::new(move |e: salsa::Event| match e.kind {
            salsa::EventKind::WillExecute { database_key } => {
                let (ing, kidx, _gen) = salsa::verif::key_parts(database_key);
                let rev = REV.load(Ordering::SeqCst);
                OBS.lock().unwrap_or_else(|e| e.into_inner()).execs.push((ing, kidx, rev));
            }
            salsa::EventKind::WillBlockOn { .. } => {
                OBS.lock().unwrap_or_else(|e| e.into_inner()).blocks += 1;
            }
            _ => {}
        }))),
    };
    let n_inputs = case.ni.max(case.nk);
    let mut inputs = Vec::new();
    for i in 0..n_inputs {
        let g = |f: usize| *case.ival.get(&(i, f)).unwrap_or(&0) as u8;
        let d = |f: usize| dur_of(*case.idur.get(&(i, f)).unwrap_or(&0));
        let inp = Inp::builder(g(0), g(1), g(2))
            .a_durability(d(0))
            .b_durability(d(1))
            .c_durability(d(2))
            .new(&db);
        assert_eq!(salsa::plumbing::AsId::as_id(&inp).index() as usize, i);
        inputs.push(inp);
    }
    let cd = Arc::new(CaseData { nk: case.nk, nodes: case.nodes.clone(), inputs });
    *CASE.write().unwrap() = Some(cd.clone());
    let mut fam_of: HashMap<u32, u8> = HashMap::new();
    for (idx, name) in salsa::verif::ingredient_names(&db) {
        match name {
            "plain" => {
                fam_of.insert(idx, FAM_PLAIN);
            }
            "noeq" => {
                fam_of.insert(idx, FAM_NOEQ);
            }
            _ => {}
        }
    }
    REV.store(current_revision(&db), Ordering::SeqCst);
    for (idx, fam) in &fam_of {
        note(&format!("ing {idx} {fam}"));
    }

    let mut out = IterObs {
        results: Vec::new(),
        execs: BTreeMap::new(),
        blocks: 0,
        contended: 0,
        segments: Vec::new(),
        hang: false,
    };
    let mut par_no = 0u64;
    for (idx, op) in case.hist.iter().enumerate() {
        match op {
            Op::Set(i, f, v, d) => {
                let inp = cd.inputs[*i];
                let r = catch_unwind(AssertUnwindSafe(|| {
                    macro_rules! doset {
                        ($setter:ident) => {{
                            let s = inp.$setter(&mut db);
                            match d {
                                Some(d) => s.with_durability(dur_of(*d)).to(*v),
                                None => s.to(*v),
                            }
                        }};
                    }
                    match f {
                        0 => doset!(set_a),
                        1 => doset!(set_b),
                        _ => doset!(set_c),
                    };
                }));
                if let Err(p) = r {
                    out.results.push((idx, vec![("m".into(), vec![Res::P(panic_code(p.as_ref()))])]));
                }
                REV.store(current_revision(&db), Ordering::SeqCst);
                note(&format!("set {i} {f} {v}"));
            }
            Op::Synth(d) => {
                let d = dur_of(*d);
                let r = catch_unwind(AssertUnwindSafe(|| db.synthetic_write(d)));
                if let Err(p) = r {
                    out.results.push((idx, vec![("m".into(), vec![Res::P(panic_code(p.as_ref()))])]));
                }
                REV.store(current_revision(&db), Ordering::SeqCst);
                note("synth");
            }
            Op::Get(f, k) => {
                note("who m");
                let r = noted_get(&db, &cd, *f, *k);
                out.results.push((idx, vec![("m".into(), vec![r])]));
            }
            Op::Par(groups) if seq => {
                let mut by = Vec::new();
                for (t, gets) in groups.iter().enumerate() {
                    let rs = gets.iter().map(|(f, k)| guarded(|| call_fam(&db, &cd, *f, *k))).collect();
                    by.push((t.to_string(), rs));
                }
                out.results.push((idx, by));
            }
            Op::Par(groups) => {
                par_no += 1;
                CTL.entered.store(0, Ordering::SeqCst);
                CTL.expect.store(groups.len(), Ordering::SeqCst);
                let mode = {
                    let mut x = mode_seed ^ par_no.wrapping_mul(0x9E37_79B9_7F4A_7C15);
                    x ^= x >> 31;
                    x = x.wrapping_mul(0xBF58_476D_1CE4_E5B9);
                    x ^= x >> 29;
                    (x % 3) as usize
                };
                CTL.mode.store(if cfg!(feature = "shuttle") { 0 } else { mode }, Ordering::SeqCst);
                match run_par(&db, &cd, groups, mode_seed ^ par_no) {
                    Some(by) => out.results.push((idx, by)),
                    None => {
                        out.hang = true;
                        out.results.push((idx, vec![("hang".into(), vec![])]));
                        break;
                    }
                }
                CTL.mode.store(0, Ordering::SeqCst);
                let seg = salsa::verif_take_proto_trace();
                out.contended += contended_keys(&seg);
                out.segments.push(seg);
            }
        }
    }
    if !out.hang {
        let seg = salsa::verif_take_proto_trace();
        if !seg.is_empty() {
            out.segments.push(seg);
        }
    }
    let o = OBS.lock().unwrap_or_else(|e| e.into_inner());
    for (ing, kidx, rev) in &o.execs {
        let fam = fam_of.get(ing).copied().unwrap_or(255);
        *out.execs.entry((fam, *kidx, *rev)).or_insert(0) += 1;
    }
    out.blocks = o.blocks;
    drop(o);
    if !out.hang {
        *CASE.write().unwrap() = None;
    }
    out
}

/// a marker in the H2/H10 protocol log (feature `fetchtrace`: needs hook H10's `verif_note`)
#[allow(unused_variables)]
fn note(text: &str) {
    #[cfg(feature = "fetchtrace")]
    salsa::verif_note(text);
}

/// one top-level request, bracketed by `get F K` / `ret R` notes
fn noted_get(db: &Db, cd: &CaseData, f: u8, k: usize) -> Res {
    note(&format!("get {f} {k}"));
    let r = guarded(|| call_fam(db, cd, f, k));
    note(&format!("ret {r}"));
    r
}

fn thread_body(t: usize, db: Db, cd: Arc<CaseData>, gets: Vec<(u8, usize)>, seed: u64) -> Vec<Res> {
    TID.with(|c| c.set(t));
    ENTERED_ONCE.with(|e| e.set(false));
    TRNG.with(|r| r.set((seed ^ ((t as u64 + 1) << 32)) | 1));
    note(&format!("who {t}"));
    let rs = gets.iter().map(|(f, k)| noted_get(&db, &cd, *f, *k)).collect();
    drop(db);
    rs
}

#[cfg(feature = "shuttle")]
fn run_par(db: &Db, cd: &Arc<CaseData>, groups: &[Vec<(u8, usize)>], seed: u64) -> Option<Vec<(String, Vec<Res>)>> {
    let hs: Vec<_> = groups
        .iter()
        .enumerate()
        .map(|(t, gets)| {
            let (d, c, g) = (db.clone(), cd.clone(), gets.clone());
            thread::spawn(move || thread_body(t, d, c, g, seed))
        })
        .collect();
    let mut by = Vec::new();
    for (t, h) in hs.into_iter().enumerate() {
        by.push((t.to_string(), h.join().expect("par thread does not panic (results are caught)")));
    }
    Some(by)
}

#[cfg(not(feature = "shuttle"))]
fn run_par(db: &Db, cd: &Arc<CaseData>, groups: &[Vec<(u8, usize)>], seed: u64) -> Option<Vec<(String, Vec<Res>)>> {
    let (tx, rx) = std::sync::mpsc::channel();
    let start = Arc::new(std::sync::Barrier::new(groups.len()));
    for (t, gets) in groups.iter().enumerate() {
        let (d, c, g, tx, start) = (db.clone(), cd.clone(), gets.clone(), tx.clone(), start.clone());
        thread::spawn(move || {
            start.wait();
            let rs = thread_body(t, d, c, g, seed);
            let _ = tx.send((t, rs));
        });
    }
    drop(tx);
    let mut by: Vec<Option<Vec<Res>>> = vec![None; groups.len()];
    for _ in 0..groups.len() {
        match rx.recv_timeout(std::time::Duration::from_secs(20)) {
            Ok((t, rs)) => by[t] = Some(rs),
            Err(_) => return None,
        }
    }
    Some(by.into_iter().enumerate().map(|(t, r)| (t.to_string(), r.unwrap())).collect())
}

// ------------------------------------------------------------------ driver

struct Args {
    file: String,
    iters: usize,
    sched: String,
    seed: u64,
    pct_depth: usize,
    max_steps: usize,
    trace_dir: Option<PathBuf>,
    trace_cap: usize,
    only: Option<String>,
    replay_schedule: Option<String>,
    selftest_deadlock: bool,
    /// switch hook H10's memo-table records and the harness notes on (feature `fetchtrace`)
    fetch_trace: bool,
}

fn parse_args() -> Args {
    let mut a = Args {
        file: String::new(),
        iters: 100,
        sched: "pct".into(),
        seed: 1,
        pct_depth: 3,
        max_steps: 200_000,
        trace_dir: None,
        trace_cap: 20,
        only: None,
        replay_schedule: None,
        selftest_deadlock: false,
        fetch_trace: false,
    };
    let mut it = std::env::args().skip(1);
    while let Some(k) = it.next() {
        let mut v = || it.next().unwrap_or_else(|| panic!("missing value for {k}"));
        match k.as_str() {
            "--iters" => a.iters = v().parse().expect("--iters N"),
            "--sched" => a.sched = v(),
            "--seed" => a.seed = v().parse().expect("--seed S"),
            "--pct-depth" => a.pct_depth = v().parse().expect("--pct-depth D"),
            "--max-steps" => a.max_steps = v().parse().expect("--max-steps M"),
            "--trace-dir" => a.trace_dir = Some(PathBuf::from(v())),
            "--trace-cap" => a.trace_cap = v().parse().expect("--trace-cap N"),
            "--only" => a.only = Some(v()),
            "--replay-schedule" => a.replay_schedule = Some(v()),
            "--selftest-deadlock" => a.selftest_deadlock = true,
            "--fetch-trace" => a.fetch_trace = true,
            other if !other.starts_with("--") && a.file.is_empty() => a.file = other.to_string(),
            other => panic!("unknown argument {other}"),
        }
    }
    a
}

fn fnv(s: &str) -> u64 {
    let mut h: u64 = 0xcbf2_9ce4_8422_2325;
    for b in s.bytes() {
        h ^= b as u64;
        h = h.wrapping_mul(0x0000_0100_0000_01b3);
    }
    h
}

/// failed shuttle executions in this process
static FAILURES: AtomicUsize = AtomicUsize::new(0);

struct Progress {
    iter: usize,
    traces_written: usize,
    failures: usize,
}

/// print the record of one finished iteration; keep its H2 trace if it is interesting
fn report(case: &Case, args: &Args, pg: &Mutex<Progress>, o: IterObs) {
    let mut pg = pg.lock().unwrap_or_else(|e| e.into_inner());
    let iter = pg.iter;
    pg.iter += 1;
    let total: usize = o.execs.values().sum();
    let maxe = o.execs.values().copied().max().unwrap_or(0);
    let mut tfile = String::from("-");
    if let Some(dir) = &args.trace_dir {
        // with the memo-table records on (H10) every schedule is replayed, not only those with a wait
        let interesting = o.blocks > 0 || iter < 2 || args.fetch_trace;
        if interesting && pg.traces_written < args.trace_cap {
            for (n, seg) in o.segments.iter().enumerate() {
                if seg.is_empty() {
                    continue;
                }
                let p = dir.join(format!("{}-{}-{:05}-{}.trace", case.id, args.sched, iter, n));
                let mut f = std::io::BufWriter::new(std::fs::File::create(&p).expect("create trace file"));
                for l in seg {
                    writeln!(f, "{l}").unwrap();
                }
            }
            tfile = format!("{}-{}-{:05}", case.id, args.sched, iter);
            pg.traces_written += 1;
        }
    }
    // identity of the explored schedule as far as the protocol can tell: hash of the H2 trace
    let mut h: u64 = 0xcbf2_9ce4_8422_2325;
    for seg in &o.segments {
        for l in seg {
            h ^= fnv(l);
            h = h.wrapping_mul(0x0000_0100_0000_01b3);
        }
        h = h.rotate_left(7);
    }
    let out = std::io::stdout();
    let mut out = out.lock();
    // cross-thread cycle answers (`block T K O -> cycle` with T != O) and propagated panics
    // (`receive T -> panicked`) in the H2 trace
    let (mut cross, mut prop) = (0usize, 0usize);
    for l in o.segments.iter().flatten() {
        let t: Vec<&str> = l.split(' ').collect();
        if t.len() >= 8 && t[2] == "block" && t[7] == "cycle" && t[3] != t[5] {
            cross += 1;
        }
        if t.len() >= 6 && t[2] == "receive" && t[5] == "panicked" {
            prop += 1;
        }
    }
    writeln!(
        out,
        "I {iter} b={} c={} x={total} m={maxe} y={cross} p={prop} h={h:016x} t={tfile} r={}",
        o.blocks,
        o.contended,
        results_text(&o.results)
    )
    .unwrap();
    if maxe > 1 {
        let twice: Vec<String> = o
            .execs
            .iter()
            .filter(|(_, n)| **n > 1)
            .map(|((f, k, r), n)| format!("{f}.{k}@{r}={n}"))
            .collect();
        writeln!(out, "X {iter} {}", twice.join(" ")).unwrap();
    }
    if o.hang {
        pg.failures += 1;
        writeln!(out, "F {iter} kind=hang sched=- msg=a par group did not finish within 20 s").unwrap();
    }
}

#[cfg(feature = "shuttle")]
fn shuttle_config(args: &Args) -> shuttle::Config {
    let mut config = shuttle::Config::default();
    config.stack_size = 1024 * 1024;
    config.max_steps = shuttle::MaxSteps::FailAfter(args.max_steps);
    config.failure_persistence = match &args.trace_dir {
        Some(d) => shuttle::FailurePersistence::File(Some(sched_dir(d))),
        None => shuttle::FailurePersistence::Print,
    };
    config
}

/// failing schedules persisted by shuttle: one directory per process (cases are sharded over
/// several processes that share the trace directory)
fn sched_dir(d: &std::path::Path) -> PathBuf {
    // a sibling of the trace directory: the trace directory holds nothing but *.trace files
    PathBuf::from(format!("{}.schedules/{}", d.display(), std::process::id()))
}

#[cfg(feature = "shuttle")]
fn schedule_files(args: &Args) -> BTreeSet<PathBuf> {
    let mut s = BTreeSet::new();
    if let Some(d) = &args.trace_dir {
        if let Ok(rd) = std::fs::read_dir(sched_dir(d)) {
            for e in rd.flatten() {
                s.insert(e.path());
            }
        }
    }
    s
}

/// a two-lock deadlock: checks that the harness sees shuttle's deadlock report
#[cfg(feature = "shuttle")]
fn selftest_body() {
    let a = Arc::new(shuttle::sync::Mutex::new(0u8));
    let b = Arc::new(shuttle::sync::Mutex::new(0u8));
    let (a2, b2) = (a.clone(), b.clone());
    let h = thread::spawn(move || {
        let _x = a2.lock().unwrap();
        thread::yield_now();
        let _y = b2.lock().unwrap();
    });
    {
        let _y = b.lock().unwrap();
        thread::yield_now();
        let _x = a.lock().unwrap();
    }
    h.join().unwrap();
}

#[cfg(feature = "shuttle")]
fn explore(case: Arc<Case>, args: Arc<Args>) {
    println!("CASE {}", case.id);
    // single-threaded reference, inside a (trivial) shuttle execution
    {
        let c = case.clone();
        let r: Arc<Mutex<Option<String>>> = Arc::new(Mutex::new(None));
        let r2 = r.clone();
        let s = shuttle::scheduler::RandomScheduler::new_from_seed(1, 1);
        shuttle::Runner::new(s, shuttle_config(&args)).run(move || {
            let o = run_history(&c, true, 0);
            *r2.lock().unwrap() = Some(results_text(&o.results));
        });
        println!("REF r={}", r.lock().unwrap().clone().unwrap_or_default());
    }
    let pg = Arc::new(Mutex::new(Progress { iter: 0, traces_written: 0, failures: 0 }));
    let mut attempt = 0u64;
    loop {
        let done = pg.lock().unwrap().iter;
        if done >= args.iters {
            break;
        }
        let remaining = args.iters - done;
        let seed = args.seed ^ fnv(&case.id).rotate_left(17) ^ attempt.wrapping_mul(0x9E37_79B9_7F4A_7C15);
        let before = schedule_files(&args);
        let (c, a, p) = (case.clone(), args.clone(), pg.clone());
        let selftest = args.selftest_deadlock;
        let body = move || {
            if selftest {
                selftest_body();
            }
            let o = run_history(&c, false, 0);
            report(&c, &a, &p, o);
        };
        let config = shuttle_config(&args);
        let r = catch_unwind(AssertUnwindSafe(|| match args.sched.as_str() {
            "random" => {
                let s = shuttle::scheduler::RandomScheduler::new_from_seed(seed, remaining);
                shuttle::Runner::new(s, config).run(body);
            }
            _ => {
                let s = shuttle::scheduler::PctScheduler::new_from_seed(seed, args.pct_depth, remaining);
                shuttle::Runner::new(s, config).run(body);
            }
        }));
        if let Err(p) = r {
            let msg = payload_text(p.as_ref()).replace('\n', " ");
            let kind = if msg.contains("deadlock") {
                "deadlock"
            } else if msg.contains("max_steps") {
                "maxsteps"
            } else {
                "panic"
            };
            let after = schedule_files(&args);
            let newf: Vec<String> = after.difference(&before).map(|p| p.display().to_string()).collect();
            let mut g = pg.lock().unwrap_or_else(|e| e.into_inner());
            let iter = g.iter;
            g.iter += 1;
            g.failures += 1;
            println!(
                "F {iter} kind={kind} sched={} attempt={attempt} runner_seed={seed} msg={}",
                if newf.is_empty() { "-".to_string() } else { newf.join(",") },
                &msg[..msg.len().min(600)]
            );
            *CASE.write().unwrap_or_else(|e| e.into_inner()) = None;
            attempt += 1;
            FAILURES.fetch_add(1, Ordering::SeqCst);
            // a failed shuttle execution leaks its task stacks: stop exploring this case after
            // three failures (they are reported; more of the same adds nothing)
            if g.failures >= 3 {
                break;
            }
        }
    }
    let g = pg.lock().unwrap();
    println!("END {} iters={} failures={}", case.id, g.iter, g.failures);
}

#[cfg(feature = "shuttle")]
fn replay_schedule(case: Arc<Case>, args: Arc<Args>, path: &str) {
    println!("CASE {}", case.id);
    // warm-up exactly as `explore` does (the single-threaded reference run): process-wide lazy
    // initialisation must not add scheduling points to the replayed execution
    {
        let c = case.clone();
        let s = shuttle::scheduler::RandomScheduler::new_from_seed(1, 1);
        shuttle::Runner::new(s, shuttle_config(&args)).run(move || {
            let o = run_history(&c, true, 0);
            println!("REF r={}", results_text(&o.results));
        });
    }
    let pg = Arc::new(Mutex::new(Progress { iter: 0, traces_written: 0, failures: 0 }));
    let (c, a, p) = (case.clone(), args.clone(), pg.clone());
    let s = shuttle::scheduler::ReplayScheduler::new_from_file(path).expect("could not load schedule");
    let r = catch_unwind(AssertUnwindSafe(|| {
        shuttle::Runner::new(s, shuttle_config(&args)).run(move || {
            let o = run_history(&c, false, 0);
            report(&c, &a, &p, o);
        })
    }));
    if let Err(p) = r {
        println!("F 0 kind=replayed sched={path} msg={}", payload_text(p.as_ref()).replace('\n', " "));
    }
    println!("END {} iters=1 failures={}", case.id, pg.lock().unwrap().failures);
}

#[cfg(not(feature = "shuttle"))]
fn explore(case: Arc<Case>, args: Arc<Args>) {
    println!("CASE {}", case.id);
    let o = run_history(&case, true, 0);
    println!("REF r={}", results_text(&o.results));
    let pg = Mutex::new(Progress { iter: 0, traces_written: 0, failures: 0 });
    for i in 0..args.iters {
        let seed = args.seed ^ fnv(&case.id).rotate_left(17) ^ (i as u64).wrapping_mul(0x9E37_79B9_7F4A_7C15);
        let o = run_history(&case, false, seed);
        let hang = o.hang;
        report(&case, &args, &pg, o);
        if hang {
            // the stuck threads cannot be reclaimed: stop the process, the caller sees the F line
            let g = pg.lock().unwrap();
            println!("END {} iters={} failures={}", case.id, g.iter, g.failures);
            std::io::stdout().flush().unwrap();
            std::process::exit(3);
        }
    }
    let g = pg.lock().unwrap();
    println!("END {} iters={} failures={}", case.id, g.iter, g.failures);
}

fn main() {
    // panics are expected outcomes (cycle errors) or are reported through F lines
    std::panic::set_hook(Box::new(|_| {}));
    let mut args = parse_args();
    if !cfg!(feature = "shuttle") {
        args.sched = "os".into();
    }
    if let Some(d) = &args.trace_dir {
        std::fs::create_dir_all(d).expect("create trace directory");
        std::fs::create_dir_all(sched_dir(d)).expect("create trace directory");
    }
    if args.fetch_trace {
        #[cfg(feature = "fetchtrace")]
        salsa::verif_fetch_trace(true);
        #[cfg(not(feature = "fetchtrace"))]
        panic!("--fetch-trace needs the `fetchtrace` feature (hook H10 in the salsa tree)");
    }
    let args = Arc::new(args);
    let text = std::fs::read_to_string(&args.file).expect("usage: par_harness CASEFILE [options]");
    for line in text.lines() {
        if !line.starts_with('(') {
            continue;
        }
        let case = match catch_unwind(|| parse_case(line)) {
            Ok(c) => Arc::new(c),
            Err(p) => {
                println!("ERROR {}", payload_text(p.as_ref()));
                continue;
            }
        };
        if args.only.as_deref().is_some_and(|o| o != case.id) {
            continue;
        }
        if FAILURES.load(Ordering::SeqCst) >= 15 {
            // too many failed executions in this process already (leaked stacks): the remaining
            // cases are not explored, and say so
            println!("CASE {}", case.id);
            println!("SKIPPED {}", case.id);
            continue;
        }
        #[cfg(feature = "shuttle")]
        if let Some(p) = &args.replay_schedule {
            replay_schedule(case, args.clone(), p);
            continue;
        }
        explore(case, args.clone());
    }
    std::io::stdout().flush().unwrap();
}

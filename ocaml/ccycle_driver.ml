(* ccycle_driver.ml — evaluates the multi-handle certificates of coq/CCycle/Model.v (extracted:
   mh_cert_fix, mh_below, mh_cert_fb, mh_results_eq, kleene, spec_fallback, mono_table) on the
   final states the parallel cycle harness (harness-par, bin cyc_par) read off the real crate.
   Glue only: parsing, int<->N conversion, printing.

   input, one s-expression per line:
     (cert ID (cfg (nk N) .. (nfam N) (spec kleene|fallback) ..) (prog (node F K E)..)
           (in (I F V)..) (sigma (F K V)..) (res (H F K V)..))
   output:
     CERT ID cert=0|1 below=0|1 eq=0|1 n=<settled memos> nres=<returned values> mono=0|1
   cert  = mh_cert_fix / mh_cert_fb  (the settled memos satisfy their equations — resp. hold the
           fallback on the cyclic nodes —, and every returned value is a settled memo's value)
   below = mh_below (kleene only; 1 for fallback)
   eq    = every returned value equals the specification (kleene / spec_fallback) *)
open Ccycle_model

let rec pos_of_int n =
  if n <= 1 then XH
  else if n land 1 = 0 then XO (pos_of_int (n lsr 1))
  else XI (pos_of_int (n lsr 1))
let n_of_int n = if n <= 0 then N0 else Npos (pos_of_int n)

type sx = A of string | L of sx list

let parse (s : string) : sx =
  let n = String.length s in
  let pos = ref 0 in
  let rec skip () = if !pos < n && (s.[!pos] = ' ' || s.[!pos] = '\t' || s.[!pos] = '\n') then (incr pos; skip ()) in
  let rec item () =
    skip ();
    if !pos >= n then failwith "eof"
    else if s.[!pos] = '(' then begin
      incr pos;
      let items = ref [] in
      let rec loop () =
        skip ();
        if !pos >= n then failwith "unclosed"
        else if s.[!pos] = ')' then incr pos
        else (items := item () :: !items; loop ()) in
      loop (); L (Stdlib.List.rev !items)
    end else begin
      let st = !pos in
      while !pos < n && s.[!pos] <> ' ' && s.[!pos] <> '(' && s.[!pos] <> ')' && s.[!pos] <> '\n' do incr pos done;
      A (String.sub s st (!pos - st))
    end in
  item ()

let int_of = function A s -> int_of_string s | L _ -> failwith "int expected"
let nn x = n_of_int (int_of x)

let binop_of = function
  | "add" -> BAdd | "sub" -> BSub | "min" -> BMin | "max" -> BMax
  | "and" -> BAnd | "or" -> BOr | "eq" -> BEq | "lt" -> BLt | "shr" -> BShr
  | s -> failwith ("binop " ^ s)

let rec expr_of (x : sx) : expr =
  match x with
  | L [A "lit"; v] -> ELit (nn v)
  | L [A "in"; i; f] -> EInp (nn i, nn f)
  | L [A "call"; fam; k] -> ECall (nn fam, expr_of k)
  | L [A "op"; A o; a; b] -> EOp (binop_of o, expr_of a, expr_of b)
  | L [A "if"; c; a; b] -> EIf (expr_of c, expr_of a, expr_of b)
  | _ -> failwith "expr"

let find_section name items =
  let rec go = function
    | [] -> []
    | L (A n :: rest) :: _ when n = name -> rest
    | _ :: tl -> go tl in
  go items

let fallback_value = 0xA5
let fb (fam, _) = if fam = n_of_int 3 then n_of_int fallback_value else N0

let run_line (line : string) =
  match parse line with
  | L (A "cert" :: A id :: items) ->
    let cfg = find_section "cfg" items in
    let geti name dflt = match find_section name cfg with [v] -> int_of v | _ -> dflt in
    let gets name dflt = match find_section name cfg with [A v] -> v | _ -> dflt in
    let nk = geti "nk" 1 and nfam = geti "nfam" 5 in
    let spec = gets "spec" "kleene" in
    let nodes = Stdlib.List.map (function
        | L [A "node"; fam; k; e] -> ((nn fam, nn k), expr_of e)
        | _ -> failwith "node") (find_section "prog" items) in
    let prog = prog_of (n_of_int nk) nodes in
    let inv = Stdlib.List.filter_map (function L [i; f; v] -> Some ((int_of i, int_of f), int_of v) | _ -> None)
        (find_section "in" items) in
    let rec int_of_pos = function XH -> 1 | XO p -> 2 * int_of_pos p | XI p -> 2 * int_of_pos p + 1 in
    let int_of_n = function N0 -> 0 | Npos p -> int_of_pos p in
    let sn = { sn_in = (fun (i, f) -> n_of_int (try Stdlib.List.assoc (int_of_n i, int_of_n f) inv with Not_found -> 0));
               sn_cell = (fun _ -> N0) } in
    let sigl = Stdlib.List.filter_map (function L [f; k; v] -> Some ((int_of f, int_of k), int_of v) | _ -> None)
        (find_section "sigma" items) in
    let sigma (f, k) = match Stdlib.List.assoc_opt (int_of_n f, int_of_n k) sigl with
      | Some v -> Some (n_of_int v) | None -> None in
    let res = Stdlib.List.filter_map (function
        | L [h; f; k; v] -> Some ((nn h, (nn f, nn k)), nn v) | _ -> None) (find_section "res" items) in
    let st = { mh_snap = sn; mh_sigma = sigma; mh_results = res } in
    let all_nodes =
      Stdlib.List.concat (Stdlib.List.init nfam (fun fam ->
          Stdlib.List.init nk (fun k -> (n_of_int fam, n_of_int k)))) in
    let b x = if x then 1 else 0 in
    (match spec with
     | "kleene" ->
       Printf.printf "CERT %s cert=%d below=%d eq=%d n=%d nres=%d mono=%d\n" id
         (b (mh_cert_fix prog all_nodes st)) (b (mh_below prog all_nodes st))
         (b (mh_results_eq (kleene prog sn all_nodes) st))
         (Stdlib.List.length sigl) (Stdlib.List.length res) (b (mono_table nodes))
     | "fallback" ->
       Printf.printf "CERT %s cert=%d below=1 eq=%d n=%d nres=%d mono=0\n" id
         (b (mh_cert_fb prog fb all_nodes st))
         (b (mh_results_eq (spec_fallback prog sn fb all_nodes) st))
         (Stdlib.List.length sigl) (Stdlib.List.length res)
     | s -> failwith ("spec " ^ s))
  | _ -> failwith "cert expected"

let () =
  let ic = if Array.length Sys.argv > 1 then open_in Sys.argv.(1) else stdin in
  (try
     while true do
       let line = input_line ic in
       if String.length line > 0 && line.[0] = '(' then
         (try run_line line with Failure m -> Printf.printf "ERROR %s\n" m)
     done
   with End_of_file -> ());
  flush stdout

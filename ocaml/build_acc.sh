#!/bin/sh
# Extract the Acc model and build the OCaml driver into /verif/.build/ocaml-acc
# (VERIF_COQ overrides the directory holding the compiled .vo files; default /verif/coq)
set -e
ROOT=$(cd "$(dirname "$0")/.." && pwd)
COQD=${VERIF_COQ:-$ROOT/coq}
B=$ROOT/.build/ocaml-acc
mkdir -p "$B"
cd "$B"
rm -f *.ml *.mli *.cm* *.o
timeout 600 coqc -Q "$COQD" Salsa -o "$B/ExtractAcc.vo" "$COQD/ExtractAcc.v" > extract.log 2>&1
cp "$ROOT/ocaml/acc_driver.ml" .
ocamlfind ocamlopt -w -a -o acc_driver $(ocamlfind ocamldep -sort *.mli *.ml)

(* structs_driver.ml — runs the extracted Structs model (and the from-scratch specification)
   on cases read from a file, one s-expression per line, and prints one observation record
   per operation, in the same format as harness/src/structs_harness.rs.
   Glue only: parsing, int<->N conversion, printing. *)
open BinNums

let rec pos_of_int n =
  if n <= 1 then Coq_xH
  else if n land 1 = 0 then Coq_xO (pos_of_int (n lsr 1))
  else Coq_xI (pos_of_int (n lsr 1))
let n_of_int n = if n <= 0 then N0 else Npos (pos_of_int n)
let rec int_of_pos = function
  | Coq_xH -> 1 | Coq_xO p -> 2 * int_of_pos p | Coq_xI p -> 2 * int_of_pos p + 1
let int_of_n = function N0 -> 0 | Npos p -> int_of_pos p
let rec nat_of_int n = if n <= 0 then Datatypes.O else Datatypes.S (nat_of_int (n - 1))

(* ---- s-expressions ---- *)
type sx = A of string | L of sx list

let parse (s : string) : sx =
  let n = String.length s in
  let pos = ref 0 in
  let rec skip () = if !pos < n && (s.[!pos] = ' ' || s.[!pos] = '\t' || s.[!pos] = '\n') then (incr pos; skip ()) in
  let rec item () =
    skip ();
    if !pos >= n then failwith "eof"
    else if s.[!pos] = '(' then begin
      incr pos;
      let items = ref [] in
      let rec loop () =
        skip ();
        if !pos >= n then failwith "unclosed"
        else if s.[!pos] = ')' then incr pos
        else (items := item () :: !items; loop ()) in
      loop (); L (Stdlib.List.rev !items)
    end else begin
      let st = !pos in
      while !pos < n && s.[!pos] <> ' ' && s.[!pos] <> '(' && s.[!pos] <> ')' && s.[!pos] <> '\n' do incr pos done;
      A (String.sub s st (!pos - st))
    end in
  item ()

let int_of = function A s -> int_of_string s | L _ -> failwith "int expected"
let nn x = n_of_int (int_of x)

let binop_of = function
  | "add" -> Dsl.BAdd | "sub" -> Dsl.BSub | "min" -> Dsl.BMin | "max" -> Dsl.BMax
  | "and" -> Dsl.BAnd | "or" -> Dsl.BOr | "eq" -> Dsl.BEq | "lt" -> Dsl.BLt | "shr" -> Dsl.BShr
  | s -> failwith ("binop " ^ s)

let rec expr_of (x : sx) : Dsl.expr =
  match x with
  | L [A "lit"; v] -> Dsl.ELit (nn v)
  | L [A "in"; i; f] -> Dsl.EInp (nn i, nn f)
  | L [A "call"; fam; k] -> Dsl.ECall (nn fam, expr_of k)
  | L [A "cell"; c] -> Dsl.ECell (nn c)
  | L [A "touch"] -> Dsl.ETouch
  | L [A "op"; A o; a; b] -> Dsl.EOp (binop_of o, expr_of a, expr_of b)
  | L [A "if"; c; a; b] -> Dsl.EIf (expr_of c, expr_of a, expr_of b)
  | L [A "let"; x; h; b; e] -> Dsl.ELet (nn x, hexpr_of h, expr_of b, expr_of e)
  | L [A "field"; x; f] -> Dsl.EField (nn x, nn f)
  | L [A "idfield"; x] -> Dsl.EIdField (nn x)
  | L [A "calls"; fam; x] -> Dsl.ECallS (nn fam, nn x)
  | L [A "specify"; fam; x; v] -> Dsl.ESpecify (nn fam, nn x, expr_of v)
  | L [A "reth"; x] -> Dsl.ERetH (nn x)
  | _ -> failwith "expr"
and hexpr_of (x : sx) : Dsl.hexpr =
  match x with
  | L [A "new"; a; b; c] -> Dsl.HNew (expr_of a, expr_of b, expr_of c)
  | L [A "nth"; fam; k; i] -> Dsl.HNth (nn fam, expr_of k, nn i)
  | L [A "nths"; fam; x; i] -> Dsl.HNthS (nn fam, nn x, nn i)
  | L [A "self"] -> Dsl.HSelf
  | L [A "var"; x] -> Dsl.HVar (nn x)
  | _ -> failwith "hexpr"

let qk fam k = (nn fam, (nn k, N0))

let op_of (x : sx) : Model.op =
  match x with
  | L [A "set"; i; f; v] -> Model.OSet ((nn i, nn f), nn v, None)
  | L [A "set"; i; f; v; d] -> Model.OSet ((nn i, nn f), nn v, Some (nn d))
  | L [A "synth"; d] -> Model.OSynth (nn d)
  | L [A "setcell"; c; v] -> Model.OSetCell (nn c, nn v)
  | L [A "get"; fam; k] -> Model.OGet (qk fam k)
  | L [A "gets"; fam; qf; k; i] -> Model.OGetS (nn fam, qk qf k, nn i)
  | L [A "entries"] -> Model.OEntries
  | _ -> failwith "op"

let find_section name items =
  let rec go = function
    | [] -> []
    | L (A n :: rest) :: _ when n = name -> rest
    | _ :: tl -> go tl in
  go items

let si = string_of_int
let str_h (i, g) = Printf.sprintf "%d.%d" (int_of_n i) (int_of_n g)
let str_q (fam, h) = Printf.sprintf "%d.%s" (int_of_n fam) (str_h h)
let str_edge = function
  | Model.EIn (i, f) -> Printf.sprintf "i.%d.%d" (int_of_n i) (int_of_n f)
  | Model.EQ q -> "q." ^ str_q q
  | Model.EFld (h, f) -> Printf.sprintf "f.%s.%d" (str_h h) (int_of_n f)
  | Model.EOut q -> "o." ^ str_q q

let rec str_cname = function
  | Model.CN (f, k, v, o) ->
    Printf.sprintf "c%d:%s:%d:%d" (int_of_n f)
      (match k with Model.KIn i -> "i" ^ si (int_of_n i) | Model.KSt c -> "(" ^ str_cname c ^ ")")
      (int_of_n v) (int_of_n o)
let str_oname = function Some c -> str_cname c | None -> "?"

let str_memo (m : Model.memo) =
  Printf.sprintf "%d:%d:%d:%d:%s:[%s]:{%s}"
    (match m.Model.m_val with Some _ -> 1 | None -> 0)
    (int_of_n m.Model.m_verified) (int_of_n m.Model.m_changed) (int_of_n m.Model.m_dur)
    (match m.Model.m_origin with
     | Model.ODerived -> "d" | Model.OUntracked -> "u" | Model.OAssigned q -> "a" ^ str_q q)
    (String.concat "," (Stdlib.List.map str_edge m.Model.m_edges))
    (String.concat "," (Stdlib.List.sort compare
                          (Stdlib.List.map (fun (_, h) -> str_h h) m.Model.m_structs)))

let rec take n l = if n <= 0 then [] else match l with [] -> [] | x :: t -> x :: take (n - 1) t

let run_case (line : string) =
  match parse line with
  | L (A "case" :: A id :: items) ->
    let cfg = find_section "cfg" items in
    let geti name dflt =
      match find_section name cfg with [v] -> int_of v | _ -> dflt in
    let nk = geti "nk" 1 and ni = geti "ni" 1 and nf = geti "nf" 3 in
    let hashmod = geti "hashmod" 2 in
    let nfam = 5 in
    let skind fam = let f = int_of_n fam in f = 2 || f = 3 in
    let sfams = Stdlib.List.map n_of_int
        (match find_section "sfams" cfg with [] -> [2; 3] | l -> Stdlib.List.map int_of l) in
    let idhash v = if hashmod = 0 then v else n_of_int (int_of_n v mod hashmod) in
    let tri = Stdlib.List.filter_map (function L [i; f; v] -> Some ((int_of i, int_of f), int_of v) | _ -> None) in
    let ival = tri (find_section "ival" items) and idur = tri (find_section "idur" items) in
    let nodes = Stdlib.List.map (function
        | L [A "node"; fam; k; e] -> ((nn fam, nn k), expr_of e)
        | _ -> failwith "node") (find_section "prog" items) in
    let ops = Stdlib.List.map op_of (find_section "hist" items) in
    let prog = Dsl.prog_of (n_of_int nk) skind nodes in
    let lookup tbl k = try Stdlib.List.assoc k tbl with Not_found -> 0 in
    let iv (i, f) = n_of_int (lookup ival (int_of_n i, int_of_n f)) in
    let idr (i, f) = n_of_int (lookup idur (int_of_n i, int_of_n f)) in
    let fuel = nat_of_int 40 in
    let s = ref (Model.init iv idr) in
    Printf.printf "CASE %s\n" id;
    Stdlib.List.iteri (fun idx o ->
        let loglen = Stdlib.List.length !s.Model.d_log in
        let (s', r) = Model.step prog skind sfams idhash fuel !s o in
        s := s';
        (match r with
         | Model.SOk (v, hs) ->
           Printf.printf "R %d ret %d [%s]\n" idx (int_of_n v) (String.concat "," (Stdlib.List.map str_h hs));
           Printf.printf "C %d ret %d [%s]\n" idx (int_of_n v)
             (String.concat "," (Stdlib.List.map str_oname (Spec.model_names s' hs)))
         | Model.SPanic p ->
           Printf.printf "R %d panic %d\n" idx (int_of_n (Model.spanic_code p));
           Printf.printf "C %d panic %d\n" idx (int_of_n (Model.spanic_code p))
         | Model.SFuel -> Printf.printf "R %d fuel\nC %d fuel\n" idx idx);
        (* events of this op, oldest first *)
        let newlen = Stdlib.List.length s'.Model.d_log in
        let evs = Stdlib.List.rev (take (newlen - loglen) s'.Model.d_log) in
        Printf.printf "E %d%s\n" idx
          (String.concat "" (Stdlib.List.map (function
               | Model.EvExec q -> " x:" ^ str_q q
               | Model.EvValidate q -> " v:" ^ str_q q
               | Model.EvDiscardS h -> " d:s." ^ str_h h
               | Model.EvDiscardM q -> " d:" ^ str_q q
               | Model.EvWillDiscard (q, h) -> " w:" ^ str_q q ^ ">s." ^ str_h h
               | Model.EvWillDiscardO (q, o) -> " w:" ^ str_q q ^ ">" ^ str_q o) evs));
        (* specification column *)
        let pr_spec = function
          | Model.SOk (v, ns) ->
            Printf.printf "V %d ret %d [%s]\n" idx (int_of_n v) (String.concat "," (Stdlib.List.map str_oname ns))
          | Model.SPanic p -> Printf.printf "V %d panic %d\n" idx (int_of_n (Model.spanic_code p))
          | Model.SFuel -> Printf.printf "V %d panic 2\n" idx in
        let pr_ign n = if int_of_n n > 0 then Printf.printf "I %d %d\n" idx (int_of_n n) in
        (match o with
         | Model.OGet q ->
           pr_spec (Spec.spec_get prog skind (Spec.snap_of s') fuel q);
           pr_ign (Spec.spec_ignored prog skind (Spec.snap_of s') fuel q None)
         | Model.OGetS (fam, q, i) ->
           pr_spec (Spec.spec_gets prog skind (Spec.snap_of s') fuel fam q i);
           pr_ign (Spec.spec_ignored prog skind (Spec.snap_of s') fuel q (Some (fam, i)))
         | _ -> ());
        (* entries *)
        let nslots = int_of_n s'.Model.d_nslots in
        (match o with
         | Model.OEntries ->
           let b = Buffer.create 64 in
           for i = 0 to nslots - 1 do
             match s'.Model.d_slots (n_of_int i) with
             | Some sl when sl.Model.sl_updated <> None ->
               Buffer.add_string b (Printf.sprintf " %d:%d:%d:%d" i (int_of_n sl.Model.sl_idv)
                                      (int_of_n sl.Model.sl_f0) (int_of_n sl.Model.sl_f1))
             | _ -> ()
           done;
           Printf.printf "N %d%s\n" idx (Buffer.contents b)
         | _ -> ());
        (* state *)
        let r = s'.Model.d_revs in
        let b = Buffer.create 256 in
        Buffer.add_string b (Printf.sprintf "S %d revs=%d,%d,%d cc=%d in=" idx
                               (int_of_n r.CoreK.r_cur) (int_of_n r.CoreK.r_med) (int_of_n r.CoreK.r_high)
                               (int_of_n s'.Model.d_ccount));
        for i = 0 to ni - 1 do for f = 0 to nf - 1 do
            let fl = s'.Model.d_in (n_of_int i, n_of_int f) in
            Buffer.add_string b (Printf.sprintf "%d.%d:%d:%d:%d;" i f (int_of_n fl.Model.f_val)
                                   (int_of_n fl.Model.f_changed) (int_of_n fl.Model.f_dur))
          done done;
        Buffer.add_string b " memo=";
        let memos = ref [] in
        for fam = 0 to nfam - 1 do
          if not (skind (n_of_int fam)) then
            for k = 0 to (max ni nk) - 1 do
              match s'.Model.d_memo (n_of_int fam, n_of_int k) with
              | None -> ()
              | Some m -> memos := (fam, k, str_memo m) :: !memos
            done
          else
            for i = 0 to nslots - 1 do
              match s'.Model.d_slots (n_of_int i) with
              | Some sl ->
                (match sl.Model.sl_memos (n_of_int fam) with
                 | Some m -> memos := (fam, i, str_memo m) :: !memos
                 | None -> ())
              | None -> ()
            done
        done;
        Stdlib.List.iter (fun (fam, k, m) -> Buffer.add_string b (Printf.sprintf "%d.%d:%s;" fam k m))
          (Stdlib.List.sort compare !memos);
        Buffer.add_string b " slots=";
        for i = 0 to nslots - 1 do
          match s'.Model.d_slots (n_of_int i) with
          | Some sl ->
            (match sl.Model.sl_updated with
             | Some u ->
               Buffer.add_string b (Printf.sprintf "%d:%d:%d:%d:%d:%d:%d:%d;" i (int_of_n u)
                                      (int_of_n sl.Model.sl_dur) (int_of_n sl.Model.sl_rev0) (int_of_n sl.Model.sl_rev1)
                                      (int_of_n sl.Model.sl_idv) (int_of_n sl.Model.sl_f0) (int_of_n sl.Model.sl_f1))
             | None ->
               Buffer.add_string b (Printf.sprintf "%d:-:%d:%d:%d;" i
                                      (int_of_n sl.Model.sl_dur) (int_of_n sl.Model.sl_rev0) (int_of_n sl.Model.sl_rev1)))
          | None -> ()
        done;
        Buffer.add_string b (Printf.sprintf " free=[%s]"
                               (String.concat "," (Stdlib.List.map str_h s'.Model.d_free)));
        print_endline (Buffer.contents b))
      ops
  | _ -> failwith "case expected"

let () =
  let ic = if Array.length Sys.argv > 1 then open_in Sys.argv.(1) else stdin in
  (try
     while true do
       let line = input_line ic in
       if String.length line > 0 && line.[0] = '(' then
         (try run_case line with Failure m -> Printf.printf "ERROR %s\n" m)
     done
   with End_of_file -> ());
  flush stdout

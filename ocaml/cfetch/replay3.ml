(* replay3.ml — replays the H2+H10 traces of harness-par (one totally ordered log per
   iteration: protocol records of hook H2, memo-table records of hook H10, harness notes)
   through the Coq-extracted CFetchD model (CFetchD/Model.v -> cfetchd_model.ml): dynamic call
   lists (bodies are resumable computations compiled from the case's expressions: computed
   keys, `if`, repeated callees), bodies that read nothing, durabilities and the durability
   short-cut.

   Every recorded shared-memory step must be an ENABLED step of the named handle in the model
   with the recorded outcome:
     load    the pointer of the key's memo was loaded (the model's memo is remembered);
     probe   the handle's top frame is at the hot probe (DStart; reached, if need be, by the
             thread-local steps "start the verify walk" / "run the body to its next call") or at
             the re-check after the claim (DClaimed); the model's memo for the key has exactly
             the recorded verified_at / changed_at (or is absent for `none`); the model then
             hits, takes the durability short-cut (a `mark` must follow) or goes cold exactly as
             recorded;
     claim / block+block_on / receive / remove / unblock
             the model's own Proto step has the recorded outcome;
     mark    either the pending store of a short-cut, or the end of a verify walk in which the
             model's COMPUTED walk (input stamps, returned changed_at) found nothing changed;
             the model's memo then carries the recorded verified_at;
     exec    the handle holds the claim; when the real code executes out of a verify walk the
             model's walk must have found a changed edge too;
     publish the body, run on the values the model's callee frames returned, has returned; the
             model's memo then has the recorded verified_at, changed_at and value digest;
     note    who / get / ret (the returned value equals the model's) / set / synth (GBump).

   usage: replay3 [--verbose] CASEFILE TRACEDIR...
   Prints per iteration "OK <steps> <name> [shortcut]" or "MISMATCH <name> seg <n> line <l>:
   <reason>", COVERAGE lines, and
   "TOTAL3 files=<f> ok=<k> mismatch=<m> skipped=<x> steps=<s> ok_without_shortcut=<a> ok_with_shortcut=<b>";
   exit status 1 on any mismatch.  An iteration "without shortcut" is a run of the model with
   the short-cut switched off (sc = false): the class the value theorems are proved for. *)

open Cfetchd_model

let rec pos_of_int (i : int) : positive =
  if i <= 1 then XH else if i land 1 = 0 then XO (pos_of_int (i lsr 1)) else XI (pos_of_int (i lsr 1))
let n_of_int (i : int) : n = if i <= 0 then N0 else Npos (pos_of_int i)
let rec int_of_pos = function XH -> 1 | XO p -> 2 * int_of_pos p | XI p -> 2 * int_of_pos p + 1
let int_of_n = function N0 -> 0 | Npos p -> int_of_pos p
let rec nat_of_int (i : int) : nat = if i <= 0 then O else S (nat_of_int (i - 1))

(* ---- s-expressions ---- *)
type sx = A of string | L of sx list
let parse (s : string) : sx =
  let n = String.length s in
  let pos = ref 0 in
  let rec skip () = if !pos < n && (s.[!pos] = ' ' || s.[!pos] = '\t' || s.[!pos] = '\n') then (incr pos; skip ()) in
  let rec item () =
    skip ();
    if !pos >= n then failwith "eof"
    else if s.[!pos] = '(' then begin
      incr pos;
      let items = ref [] in
      let rec loop () =
        skip ();
        if !pos >= n then failwith "unclosed"
        else if s.[!pos] = ')' then incr pos
        else (items := item () :: !items; loop ()) in
      loop (); L (List.rev !items)
    end else begin
      let st = !pos in
      while !pos < n && s.[!pos] <> ' ' && s.[!pos] <> '(' && s.[!pos] <> ')' && s.[!pos] <> '\n' do incr pos done;
      A (String.sub s st (!pos - st))
    end in
  item ()
let int_of = function A s -> int_of_string s | L _ -> failwith "int expected"
let find_section name items =
  let rec go = function [] -> [] | L (A n :: rest) :: _ when n = name -> rest | _ :: tl -> go tl in
  go items

(* ---- the program of a case as a progD ---- *)
type expr = Lit of int | In of int * int | Call of int * expr | Op of string * expr * expr
          | If of expr * expr * expr

let rec expr_of = function
  | L [A "lit"; v] -> Lit (int_of v)
  | L [A "in"; i; f] -> In (int_of i, int_of f)
  | L [A "call"; fam; k] -> Call (int_of fam, expr_of k)
  | L [A "op"; A o; a; b] -> Op (o, expr_of a, expr_of b)
  | L [A "if"; c; a; b] -> If (expr_of c, expr_of a, expr_of b)
  | _ -> failwith "expression outside the fragment (cell / unknown form)"

let kid fam k = fam * 16 + k + 1
let iid i f = i * 3 + f

let u8 x = x land 255
let apply_op o x y = match o with
  | "add" -> u8 (x + y) | "sub" -> u8 (x - y) | "min" -> min x y | "max" -> max x y
  | "and" -> x land y | "or" -> x lor y | "eq" -> if x = y then 1 else 0
  | "lt" -> if x < y then 1 else 0 | "shr" -> x lsr (y mod 8)
  | _ -> failwith ("op " ^ o)

(* the body as a resumable computation, in the harness' evaluation order (eval in main.rs) *)
let rec compile nk (e : expr) (kont : int -> body) : body = match e with
  | Lit v -> kont (u8 v)
  | In (i, f) -> BIn (n_of_int (iid i f), fun v -> kont (int_of_n v))
  | Call (fam, ke) -> compile nk ke (fun kv -> BCall (n_of_int (kid fam (kv mod nk)), fun v -> kont (int_of_n v)))
  | Op (o, a, b) -> compile nk a (fun x -> compile nk b (fun y -> kont (apply_op o x y)))
  | If (c, a, b) -> compile nk c (fun cv -> if cv <> 0 then compile nk a kont else compile nk b kont)

type case = {
  id : string; nk : int; prog : progD;
  nodes : (int, expr) Hashtbl.t;
}

let build_case (line : string) : case =
  match parse line with
  | L (A "case" :: A id :: items) ->
    let cfg = find_section "cfg" items in
    let geti name dflt = match find_section name cfg with [v] -> int_of v | _ -> dflt in
    let nk = geti "nk" 1 in
    let nodes = Hashtbl.create 16 in
    List.iter (function
        | L [A "node"; fam; k; e] -> Hashtbl.replace nodes (kid (int_of fam) (int_of k)) (expr_of e)
        | _ -> failwith "node") (find_section "prog" items);
    (* input values, stamps, durabilities and Runtime::revisions per revision; revision 1 = after creation *)
    let cur_val = Hashtbl.create 16 and cur_stamp = Hashtbl.create 16 and cur_dur = Hashtbl.create 16 in
    let lc = Array.make 3 1 in
    List.iter (function L [i; f; v] -> Hashtbl.replace cur_val (iid (int_of i) (int_of f)) (int_of v) | _ -> ())
      (find_section "ival" items);
    List.iter (function L [i; f; d] -> Hashtbl.replace cur_dur (iid (int_of i) (int_of f)) (int_of d) | _ -> ())
      (find_section "idur" items);
    let hist_v = Hashtbl.create 64 and hist_s = Hashtbl.create 64 and hist_d = Hashtbl.create 64
    and hist_lc = Hashtbl.create 64 in
    let snapshot r =
      Hashtbl.replace hist_v r (Hashtbl.copy cur_val); Hashtbl.replace hist_s r (Hashtbl.copy cur_stamp);
      Hashtbl.replace hist_d r (Hashtbl.copy cur_dur); Hashtbl.replace hist_lc r (Array.copy lc) in
    let rev = ref 1 in
    snapshot 1;
    (* Runtime::report_tracked_write(d): revisions[1..=d] := current *)
    let tracked_write d = for l = 1 to min d 2 do lc.(l) <- !rev done in
    List.iter (function
        | L (A "set" :: i :: f :: v :: rest) ->
          let x = iid (int_of i) (int_of f) in
          let old = try Hashtbl.find cur_dur x with Not_found -> 0 in
          if old >= 3 then failwith "write to a NEVER_CHANGE input (panics)";
          incr rev; lc.(0) <- !rev;
          if old <> 0 then tracked_write old;
          (match rest with [d] -> Hashtbl.replace cur_dur x (int_of d) | _ -> ());
          Hashtbl.replace cur_val x (int_of v);
          Hashtbl.replace cur_stamp x !rev;
          snapshot !rev
        | L [A "synth"; d] ->
          if int_of d >= 3 then failwith "synthetic write at NEVER_CHANGE (panics)";
          incr rev; lc.(0) <- !rev; tracked_write (int_of d); snapshot !rev
        | _ -> ()) (find_section "hist" items);
    let last = !rev in
    let clamp r = let r = int_of_n r in if r < 1 then 1 else if r > last then last else r in
    let at tbl dflt r i =
      match Hashtbl.find_opt (Hashtbl.find tbl (clamp r)) (int_of_n i) with Some v -> v | None -> dflt in
    let prog = {
      d_body = (fun k ->
          match Hashtbl.find_opt nodes (int_of_n k) with
          | Some e -> compile nk e (fun v -> BRet (n_of_int v))
          | None -> BRet N0);
      d_eq = (fun k -> (int_of_n k - 1) / 16 <> 2);
      d_in = (fun r i -> n_of_int (at hist_v 0 r i));
      d_stamp = (fun r i -> n_of_int (at hist_s 1 r i));
      d_idur = (fun r i -> n_of_int (at hist_d 0 r i));
      (* NEVER_CHANGE has no slot: never_changed_revision() = Revision::start *)
      d_lc = (fun r d -> let d = int_of_n d in
               if d >= 3 then n_of_int 1 else n_of_int (Hashtbl.find hist_lc (clamp r)).(d));
    } in
    { id; nk; prog; nodes }
  | _ -> failwith "case expected"

(* ---- digest: FNV-1a over the one byte of a u8 ---- *)
let digest (v : int) : string =
  let h = Int64.logxor 0xcbf29ce484222325L (Int64.of_int (v land 255)) in
  Printf.sprintf "%016Lx" (Int64.mul h 0x100000001b3L)

(* ---- replay ---- *)
exception Mismatch of string
let fail fmt = Printf.ksprintf (fun s -> raise (Mismatch s)) fmt

let cov : (string, int) Hashtbl.t = Hashtbl.create 32
let bump k = Hashtbl.replace cov k (1 + (try Hashtbl.find cov k with Not_found -> 0))

let fuel = nat_of_int 64

let phase_name = function
  | DStart -> "DStart" | DCold -> "DCold" | DWait -> "DWait" | DClaimed -> "DClaimed"
  | DMark (cl, _) -> Printf.sprintf "DMark(%b)" cl
  | DVerify (l, ok) -> Printf.sprintf "DVerify(%d,%b)" (List.length l) ok
  | DExec (_, a) -> Printf.sprintf "DExec(%d edges)" (List.length a.a_tr)
  | DPend (d, _, _) -> Printf.sprintf "DPend(%d)" (int_of_n d)
  | DRelease _ -> "DRelease" | DUnblock _ -> "DUnblock"

type st = { mutable s : cstateD; c : case; ing : (int, int) Hashtbl.t; mutable steps : int;
            mutable shortcuts : int;
            snap : (n, int * memoD option) Hashtbl.t (* per handle: the memo of the key at its last pointer load *) }

let top st tid = match (st.s.cD_thr tid).thD_stack with
  | f :: _ -> Some (int_of_n f.h_key, f.h_phase) | [] -> None
let depth st tid = List.length (st.s.cD_thr tid).thD_stack
let top_str st tid = match top st tid with
  | Some (k, ph) -> Printf.sprintf "(%d,%s)" k (phase_name ph) | None -> "(idle)"

let step st tid c what =
  match tstepD fuel st.c.prog true st.s tid c with
  | Some s' -> st.s <- s'; st.steps <- st.steps + 1
  | None -> fail "%s: the model has no step for handle %d at %s" what (int_of_n tid) (top_str st tid)

let gstep st o what =
  match gstepD fuel st.c.prog true st.s o with
  | Some s' -> st.s <- s'
  | None -> fail "%s: not enabled" what

(* key text "ING.IDX.GEN" -> model key *)
let key_of st (k : string) : int =
  match String.split_on_char '.' k with
  | [ing; idx; _] ->
    (match Hashtbl.find_opt st.ing (int_of_string ing) with
     | Some fam -> kid fam (int_of_string idx)
     | None -> fail "record about ingredient %s, which is not a tracked function of the harness" ing)
  | _ -> fail "bad key %s" k

(* thread-local steps that bring the handle to the hot probe of [k]: start the verify walk,
   walk to the next call edge, run the body to its next call *)
let rec ensure_probe st tid k =
  match top st tid with
  | Some (k', DStart) when k' = k -> ()
  | Some (_, DClaimed) -> step st tid true "start of the verify walk"; bump "local:to_verify";
    (match top st tid with Some (_, DVerify _) -> ensure_probe st tid k
                         | _ -> fail "key %d is probed as a dependency, but the model does not walk (%s)" k (top_str st tid))
  | Some (_, DVerify (_, true)) ->
    let at = top_str st tid in
    step st tid true "call (verify)"; bump "local:call_v";
    (match top st tid with Some (k', DStart) when k' = k -> ()
                         | _ -> fail "probe of key %d out of the walk at %s, but the model's walk goes to %s" k at (top_str st tid))
  | Some (_, DExec _) ->
    let at = top_str st tid in
    step st tid true "call (execute)"; bump "local:call_x";
    (match top st tid with Some (k', DStart) when k' = k -> ()
                         | _ -> fail "probe of key %d out of the body at %s, but the model's body goes to %s" k at (top_str st tid))
  | _ -> fail "probe of key %d, but handle %d is at %s" k (int_of_n tid) (top_str st tid)

let memo st k = st.s.cD_memo (n_of_int k)

let last_ret st tid =
  let rec go = function
    | ERet (t, k, _, v) :: _ when t = tid -> Some (int_of_n k, int_of_n v)
    | _ :: tl -> go tl | [] -> None in
  go st.s.cD_log

let record st (tmap : (string, n) Hashtbl.t) (pending_block : (n, int) Hashtbl.t) (toks : string list) =
  let tid_of x = match Hashtbl.find_opt tmap x with
    | Some t -> t | None -> fail "record of thread %s before its `who` note" x in
  match toks with
  | "note" :: x :: "ing" :: i :: fam :: _ -> ignore x; Hashtbl.replace st.ing (int_of_string i) (int_of_string fam)
  | "note" :: x :: "who" :: w :: _ ->
    Hashtbl.replace tmap x (if w = "m" then N0 else n_of_int (1 + int_of_string w))
  | "note" :: x :: "get" :: f :: k :: _ ->
    let tid = tid_of x in
    let k = kid (int_of_string f) (int_of_string k) in
    gstep st (GSpawn (tid, [n_of_int k])) "spawn";
    step st tid true "begin"; bump "note:get"
  | "note" :: x :: "ret" :: r :: _ ->
    let tid = tid_of x in
    if depth st tid <> 0 then fail "request returned, but handle %d is still at %s" (int_of_n tid) (top_str st tid);
    (match last_ret st tid with
     | Some (_, v) -> if string_of_int v <> r then fail "returned %s, the model returns %d" r v
     | None -> fail "returned %s, the model returned nothing" r);
    bump "note:ret"
  | "note" :: _ :: ("set" | "synth") :: _ -> gstep st GBump "write (all handles idle)"; bump "note:write"
  | "note" :: _ -> ()
  | "probe" :: x :: k :: "none" :: _ ->
    let tid = tid_of x and k = key_of st k in
    if memo st k <> None then fail "probe of key %d saw no memo, the model has one" k;
    (match top st tid with
     | Some (k', DClaimed) when k' = k -> bump "probe:recheck-none"
     | _ -> ensure_probe st tid k; step st tid true "probe none";
       (match top st tid with Some (_, DCold) -> bump "probe:hot-none"
                            | _ -> fail "probe none: the model is at %s" (top_str st tid)))
  | "load" :: x :: k :: _ ->
    let tid = tid_of x and k = key_of st k in
    Hashtbl.replace st.snap tid (k, memo st k)
  | "probe" :: x :: k :: ver :: chg :: cur :: _ ->
    let tid = tid_of x and k = key_of st k in
    let ver = int_of_string ver and chg = int_of_string chg and cur = int_of_string cur in
    if int_of_n st.s.cD_cur <> cur then fail "probe in revision %d, the model is in %d" cur (int_of_n st.s.cD_cur);
    let check () = match memo st k with
      | None -> fail "probe of key %d saw a memo (verified_at %d), the model has none" k ver
      | Some m ->
        if int_of_n m.o_ver <> ver || int_of_n m.o_chg <> chg then
          fail "probe of key %d saw verified_at %d changed_at %d, the model has %d / %d" k ver chg
            (int_of_n m.o_ver) (int_of_n m.o_chg) in
    (match top st tid with
     | Some (k', DClaimed) when k' = k ->
       check ();
       if ver = cur then begin
         step st tid true "re-check hit";
         (match top st tid with Some (_, DRelease _) -> bump "probe:recheck-verified"
                              | _ -> fail "re-check hit: the model is at %s" (top_str st tid))
       end else begin
         match memo st k with
         | Some m when shortcut st.c.prog true st.s.cD_cur m ->
           step st tid true "re-check: durability short-cut"; st.shortcuts <- st.shortcuts + 1;
           (match top st tid with Some (_, DMark (true, _)) -> bump "probe:recheck-shortcut"
                                | _ -> fail "re-check short-cut: the model is at %s" (top_str st tid))
         | _ -> bump "probe:recheck-stale"
       end
     | _ ->
       ensure_probe st tid k;
       let matches m = int_of_n m.o_ver = ver && int_of_n m.o_chg = chg in
       (match memo st k, Hashtbl.find_opt st.snap tid with
        | Some m, _ when matches m -> ()
        | _, Some (k', Some m0) when k' = k && matches m0 && ver <> cur ->
          (* the real read is two loads: the memo POINTER (`load` record), then verified_at of
             that object (`probe` record).  The object was superseded by a publish in between:
             the read linearises at the pointer load.  Going cold (or deciding on the short-cut
             for the old object, whose later store does not touch the new memo) has no shared
             effect, so the model step is taken now on the memo table as it was at the load. *)
          let orig = st.s.cD_memo in
          let s_mod = { st.s with cD_memo = (fun k'' -> if int_of_n k'' = k then Some m0 else orig k'') } in
          (match tstepD fuel st.c.prog true s_mod tid true with
           | Some s' -> st.s <- { s' with cD_memo = orig }; st.steps <- st.steps + 1
           | None -> fail "hot probe of a superseded memo: no step");
          (match top st tid with
           | Some (_, DCold) -> bump "probe:hot-stale-superseded-object"
           | Some (_, DMark (false, _)) -> st.shortcuts <- st.shortcuts + 1; bump "probe:hot-shortcut-superseded-object"
           | _ -> fail "hot miss (superseded memo): the model is at %s" (top_str st tid));
          Hashtbl.remove st.snap tid;
          raise Exit
        | _ -> check ());
       Hashtbl.remove st.snap tid;
       let d0 = depth st tid in
       step st tid true "hot probe";
       if ver = cur then begin
         if depth st tid <> d0 - 1 then fail "hot hit: the model is at %s" (top_str st tid);
         bump "probe:hot-verified"
       end else
         (match top st tid with
          | Some (_, DCold) -> bump "probe:hot-stale"
          | Some (_, DMark (false, _)) -> st.shortcuts <- st.shortcuts + 1; bump "probe:hot-shortcut"
          | _ -> fail "hot miss: the model is at %s" (top_str st tid)))
  | "claim" :: x :: k :: _ :: "->" :: "claimed" :: _ ->
    let tid = tid_of x and k = key_of st k in
    (match top st tid with
     | Some (k', DCold) when k' = k -> step st tid true "claim";
       (match top st tid with Some (_, DClaimed) -> bump "claim:claimed"
                            | _ -> fail "claim succeeded, the model is at %s" (top_str st tid))
     | _ -> fail "claim of key %d, but handle %d is at %s" k (int_of_n tid) (top_str st tid))
  | "block" :: x :: k :: _ :: "->" :: "running" :: _ ->
    Hashtbl.replace pending_block (tid_of x) (key_of st k)
  | "block_on" :: x :: k :: _ ->
    let tid = tid_of x and k = key_of st k in
    if Hashtbl.find_opt pending_block tid <> Some k then fail "block_on without a preceding block";
    Hashtbl.remove pending_block tid;
    (match top st tid with
     | Some (k', DCold) when k' = k -> step st tid true "block";
       (match top st tid with Some (_, DWait) -> bump "claim:blocked"
                            | _ -> fail "blocked, the model is at %s" (top_str st tid))
     | _ -> fail "block on key %d, but handle %d is at %s" k (int_of_n tid) (top_str st tid))
  | "wake" :: _ -> ()
  | "receive" :: x :: "->" :: r :: _ ->
    let tid = tid_of x in
    if r <> "completed" then fail "wait result %s in an acyclic read-only workload" r;
    (match top st tid with
     | Some (_, DWait) -> step st tid true "receive";
       (match top st tid with Some (_, DStart) -> bump "receive"
                            | _ -> fail "woken, the model is at %s" (top_str st tid))
     | _ -> fail "receive, but handle %d is at %s" (int_of_n tid) (top_str st tid))
  | "mark" :: x :: k :: cur :: _ ->
    let tid = tid_of x and k = key_of st k in
    (match top st tid with
     | Some (k', DMark (claimed, _)) when k' = k ->
       let d0 = depth st tid in
       step st tid true "mark_verified (short-cut)";
       (match memo st k with
        | Some m when int_of_n m.o_ver = int_of_string cur -> ()
        | Some m -> fail "short-cut mark of key %d: the model's memo is verified at %d" k (int_of_n m.o_ver)
        | None -> fail "short-cut mark of key %d: the model has no memo" k);
       if claimed then
         (match top st tid with Some (_, DRelease _) -> bump "mark:shortcut-claimed"
                              | _ -> fail "short-cut mark: the model is at %s" (top_str st tid))
       else begin
         if depth st tid <> d0 - 1 then fail "short-cut mark (hot): the model is at %s" (top_str st tid);
         bump "mark:shortcut-hot"
       end
     | _ ->
       (match top st tid with
        | Some (k', DClaimed) when k' = k -> step st tid true "start of the verify walk"; bump "local:to_verify"
        | _ -> ());
       (match top st tid with
        | Some (k', DVerify (_, true)) when k' = k ->
          step st tid true "mark_verified";
          (match top st tid, memo st k with
           | Some (k'', DRelease _), Some m when k'' = k && int_of_n m.o_ver = int_of_string cur -> bump "mark"
           | _ -> fail "mark_verified of key %d: the model's computed walk does not end here (it is at %s)" k (top_str st tid))
        | _ -> fail "mark_verified of key %d, but handle %d is at %s (walk flagged changed, or no walk)" k
                 (int_of_n tid) (top_str st tid)))
  | "exec" :: x :: k :: _ ->
    let tid = tid_of x and k = key_of st k in
    (match top st tid with
     | Some (k', DClaimed) when k' = k -> bump "exec:from-recheck"
     | Some (k', DVerify _) when k' = k -> bump "exec:from-walk"
     | _ -> fail "execution of key %d, but handle %d is at %s" k (int_of_n tid) (top_str st tid));
    let at = top_str st tid in
    step st tid false "execute";
    (match top st tid, st.s.cD_log with
     | Some (k', DExec _), EExec (t, _, _) :: _ when k' = k && t = tid -> ()
     | _ -> fail "key %d is executed at %s, where the model sees no reason to (it goes to %s)" k at (top_str st tid))
  | "publish" :: x :: k :: ver :: chg :: dig :: _ ->
    let tid = tid_of x and k = key_of st k in
    (match top st tid with
     | Some (k', DExec _) when k' = k ->
       step st tid true "publish";
       (match top st tid with
        | Some (k'', DRelease _) when k'' = k -> ()
        | _ -> fail "publish of key %d, but the model's body is not finished (it goes to %s)" k (top_str st tid));
       (match memo st k with
        | Some m ->
          if int_of_n m.o_ver <> int_of_string ver then fail "publish of key %d: verified_at %s, model %d" k ver (int_of_n m.o_ver);
          if int_of_n m.o_chg <> int_of_string chg then fail "publish of key %d: changed_at %s, model %d" k chg (int_of_n m.o_chg);
          if digest (int_of_n m.o_val) <> dig then
            fail "publish of key %d: value digest %s, the model's value %d has %s" k dig (int_of_n m.o_val) (digest (int_of_n m.o_val));
          bump "publish"
        | None -> fail "publish: no memo in the model")
     | _ -> fail "publish of key %d, but handle %d is at %s" k (int_of_n tid) (top_str st tid))
  | "remove" :: x :: k :: "default" :: "completed" :: "->" :: w :: _ ->
    let tid = tid_of x and k = key_of st k in
    (match top st tid with
     | Some (k', DRelease _) when k' = k ->
       let d0 = depth st tid in
       step st tid true "release";
       if w = "0" then begin
         if depth st tid <> d0 - 1 then fail "quiet release, the model is at %s" (top_str st tid); bump "release:quiet"
       end else
         (match top st tid with Some (_, DUnblock _) -> bump "release:waiters"
                              | _ -> fail "release with waiters, the model is at %s" (top_str st tid))
     | _ -> fail "release of key %d, but handle %d is at %s" k (int_of_n tid) (top_str st tid))
  | "unblock" :: x :: k :: "completed" :: _ ->
    let tid = tid_of x and k = key_of st k in
    (match top st tid with
     | Some (k', DUnblock _) when k' = k ->
       let d0 = depth st tid in
       step st tid true "unblock";
       if depth st tid <> d0 - 1 then fail "unblock, the model is at %s" (top_str st tid); bump "unblock"
     | _ -> fail "unblock of key %d, but handle %d is at %s" k (int_of_n tid) (top_str st tid))
  | op :: _ -> fail "record `%s` has no counterpart in the acyclic read-only fragment" op
  | [] -> ()

let read_lines path =
  let ic = open_in path in
  let rec go acc = match input_line ic with l -> go (l :: acc) | exception End_of_file -> close_in ic; List.rev acc in
  go []

let replay_iteration verbose (c : case) (name : string) (segs : (int * string) list) : (int * int, string) result =
  let st = { s = cinitD; c; ing = Hashtbl.create 8; steps = 0; shortcuts = 0; snap = Hashtbl.create 8 } in
  try
    List.iter (fun (segno, path) ->
        let tmap = Hashtbl.create 8 and pending = Hashtbl.create 4 in
        List.iteri (fun i line ->
            match String.split_on_char ' ' line with
            | _seq :: _logger :: toks ->
              if verbose then Printf.printf "  %s\n" line;
              (try (try record st tmap pending toks with Exit -> ())
               with Mismatch m -> raise (Mismatch (Printf.sprintf "seg %d line %d: %s   [%s]" segno (i + 1) m line))
                  | Failure m -> raise (Mismatch (Printf.sprintf "seg %d line %d: %s   [%s]" segno (i + 1) m line)))
            | _ -> ()) (read_lines path);
        (* a segment ends with every handle idle *)
        List.iter (fun t -> if (st.s.cD_thr t).thD_stack <> [] then
                      raise (Mismatch (Printf.sprintf "seg %d: handle %d is not idle at the end" segno (int_of_n t))))
          st.s.cD_tids) segs;
    ignore name; Ok (st.steps, st.shortcuts)
  with Mismatch m -> Error m

let () =
  let verbose = ref false and files = ref [] in
  List.iter (function "--verbose" -> verbose := true | f -> files := f :: !files) (List.tl (Array.to_list Sys.argv));
  match List.rev !files with
  | [] -> prerr_endline "usage: replay3 [--verbose] CASEFILE TRACEDIR..."; exit 2
  | casefile :: dirs ->
    let cases = Hashtbl.create 64 and bad_cases = Hashtbl.create 8 in
    List.iter (fun l -> if String.length l > 0 && l.[0] = '(' then
                  (match parse l with
                   | L (A "case" :: A id :: _) ->
                     (try Hashtbl.replace cases id (build_case l)
                      with Failure m -> Hashtbl.replace bad_cases id m)
                   | _ -> ())) (read_lines casefile);
    (* group trace files: name = <case>-<sched>-<iter>, segment number *)
    let groups = Hashtbl.create 256 in
    List.iter (fun d ->
        Array.iter (fun f ->
            if Filename.check_suffix f ".trace" then begin
              let base = Filename.chop_suffix f ".trace" in
              match String.rindex_opt base '-' with
              | Some i ->
                let name = String.sub base 0 i in
                let seg = int_of_string (String.sub base (i + 1) (String.length base - i - 1)) in
                let key = Filename.concat d name in
                Hashtbl.replace groups key ((seg, Filename.concat d f) :: (try Hashtbl.find groups key with Not_found -> []))
              | None -> ()
            end) (let a = Sys.readdir d in Array.sort compare a; a)) dirs;
    let names = List.sort compare (Hashtbl.fold (fun k _ acc -> k :: acc) groups []) in
    let nfiles = ref 0 and ok = ref 0 and mism = ref 0 and steps = ref 0 and skipped = ref 0 and oksc = ref 0 in
    List.iter (fun key ->
        let segs = List.sort compare (Hashtbl.find groups key) in
        let name = Filename.basename key in
        (* case id = name without the trailing -<sched>-<iter> *)
        let cid = match List.rev (String.split_on_char '-' name) with
          | _iter :: _sched :: rest -> String.concat "-" (List.rev rest) | _ -> name in
        incr nfiles;
        match Hashtbl.find_opt cases cid with
        | None ->
          incr skipped;
          Printf.printf "SKIPPED %s: %s\n" name
            (match Hashtbl.find_opt bad_cases cid with Some m -> m | None -> "case not in the case file")
        | Some c ->
          (match replay_iteration !verbose c name segs with
           | Ok (n, sc) -> incr ok; steps := !steps + n; if sc > 0 then incr oksc;
             Printf.printf "OK %d %s%s\n" n name (if sc > 0 then " shortcut" else "")
           | Error m -> incr mism; Printf.printf "MISMATCH %s %s\n" key m)) names;
    Hashtbl.iter (fun k v -> Printf.printf "COVERAGE %s %d\n" k v) cov;
    Printf.printf "TOTAL3 files=%d ok=%d mismatch=%d skipped=%d steps=%d ok_without_shortcut=%d ok_with_shortcut=%d\n"
      !nfiles !ok !mism !skipped !steps (!ok - !oksc) !oksc;
    exit (if !mism > 0 then 1 else 0)

#!/bin/sh
# Extracts the CFetch2 model (coq/CFetch2/Extract.v; needs coq/CFetch2/Model.vo from the main build,
# COQROOT overrides the Coq tree) and builds the H2+H10 trace replayer.
# Output: /verif/.build/ocaml-cfetch/replay2
set -eu
here=$(cd "$(dirname "$0")" && pwd)
root=$(cd "$here/../.." && pwd)
coqroot=${COQROOT:-$root/coq}
out=$root/.build/ocaml-cfetch
mkdir -p "$out"
cd "$out"
rm -f cfetch2_model.ml cfetch2_model.mli *.cm* *.o
cp "$coqroot/CFetch2/Extract.v" Extract.v
timeout 600 coqc -Q "$coqroot" Salsa -o "$out/Extract.vo" Extract.v > extract.log 2>&1
cp "$here/replay2.ml" .
ocamlfind ocamlopt -w -a -c cfetch2_model.mli
ocamlfind ocamlopt -w -a -c cfetch2_model.ml
ocamlfind ocamlopt -w -a -c replay2.ml
ocamlfind ocamlopt -o replay2 cfetch2_model.cmx replay2.cmx
echo "built $out/replay2"

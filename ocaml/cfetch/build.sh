#!/bin/sh
# Extracts the CFetch2 / CFetchD models (coq/CFetch2/Extract.v, coq/CFetchD/Extract.v; they need
# the .vo of their Model.v from the main build; COQROOT overrides the Coq tree) and builds the
# H2+H10 trace replayers.
# Output: /verif/.build/ocaml-cfetch/replay2 (static call lists), replay3 (dynamic call lists,
# durabilities, the durability short-cut)
set -eu
here=$(cd "$(dirname "$0")" && pwd)
root=$(cd "$here/../.." && pwd)
coqroot=${COQROOT:-$root/coq}
out=$root/.build/ocaml-cfetch
mkdir -p "$out"
one() {   # model-dir  ml-name  replayer
  d=$out/$3.d
  rm -rf "$d"; mkdir -p "$d"; cd "$d"
  cp "$coqroot/$1/Extract.v" Extract.v
  timeout 600 coqc -Q "$coqroot" Salsa -o "$d/Extract.vo" Extract.v > extract.log 2>&1
  cp "$here/$3.ml" .
  ocamlfind ocamlopt -w -a -c $2.mli
  ocamlfind ocamlopt -w -a -c $2.ml
  ocamlfind ocamlopt -w -a -c $3.ml
  ocamlfind ocamlopt -o "$out/$3" $2.cmx $3.cmx
  echo "built $out/$3"
}
[ -f "$coqroot/CFetch2/Extract.v" ] && one CFetch2 cfetch2_model replay2
if [ -f "$coqroot/CFetchD/Extract.v" ]; then one CFetchD cfetchd_model replay3; fi

#!/bin/sh
# Builds the Intern replay driver into /verif/.build/ocaml-intern/ :
#   1. compiles Base.v, Intern/RetK.v, Intern/Model.v, Intern/Extract.v in a scratch copy
#      (so it never runs coqc/make inside /verif/coq),
#   2. the extraction lands in <scratch>/ocaml/intern/intern_model.ml(i),
#   3. ocamlfind ocamlopt links it with replay.ml -> /verif/.build/ocaml-intern/replay.
# Usage: ocaml/intern/build.sh [VERIF_ROOT]   (default /verif)
set -e
ROOT="${1:-/verif}"
B="$ROOT/.build/ocaml-intern"
mkdir -p "$B/coq/Intern" "$B/ocaml/intern"
cp "$ROOT/coq/Base.v" "$B/coq/"
cp "$ROOT/coq/Intern/RetK.v" "$ROOT/coq/Intern/Model.v" "$ROOT/coq/Intern/Extract.v" "$B/coq/Intern/"
cd "$B/coq"
timeout 300 coqc -Q . Salsa Base.v
timeout 300 coqc -Q . Salsa Intern/RetK.v
timeout 300 coqc -Q . Salsa Intern/Model.v
timeout 300 coqc -Q . Salsa Intern/Extract.v
cd "$B/ocaml/intern"
cp "$ROOT/ocaml/intern/replay.ml" .
timeout 300 ocamlfind ocamlopt -w -a -package str intern_model.mli intern_model.ml replay.ml -o "$B/replay"
echo "built $B/replay"

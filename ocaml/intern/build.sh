#!/bin/sh
# Builds the Intern replay driver into /verif/.build/ocaml-intern/ :
#   1. compiles Base.v, Intern/RetK.v, Intern/Model.v, Intern/Extract.v in a scratch copy
#      (so it never runs coqc/make inside /verif/coq),
#   2. the extraction lands in <scratch>/ocaml/intern/intern_model.ml(i),
#   3. ocamlfind ocamlopt links it with replay.ml -> /verif/.build/ocaml-intern/replay.
# Concurrent checks may call this at the same time: every call works in its own scratch
# directory and installs the binary with an atomic rename; nothing is rebuilt when the inputs
# (the four .v files and replay.ml) are the ones the installed binary was built from.
# Usage: ocaml/intern/build.sh [VERIF_ROOT]   (default /verif)
set -e
ROOT="${1:-/verif}"
B="$ROOT/.build/ocaml-intern"
mkdir -p "$B"
STAMP=$(cat "$ROOT/coq/Base.v" "$ROOT/coq/Intern/RetK.v" "$ROOT/coq/Intern/Model.v" \
            "$ROOT/coq/Intern/Extract.v" "$ROOT/ocaml/intern/replay.ml" | sha256sum | cut -d' ' -f1)
if [ -x "$B/replay" ] && [ "$(cat "$B/replay.stamp" 2>/dev/null)" = "$STAMP" ]; then
  echo "up to date $B/replay"
  exit 0
fi
W="$B/work.$$"
rm -rf "$W"
mkdir -p "$W/coq/Intern" "$W/ocaml/intern"
trap 'rm -rf "$W"' EXIT
cp "$ROOT/coq/Base.v" "$W/coq/"
cp "$ROOT/coq/Intern/RetK.v" "$ROOT/coq/Intern/Model.v" "$ROOT/coq/Intern/Extract.v" "$W/coq/Intern/"
cd "$W/coq"
timeout 300 coqc -Q . Salsa Base.v
timeout 300 coqc -Q . Salsa Intern/RetK.v
timeout 300 coqc -Q . Salsa Intern/Model.v
timeout 300 coqc -Q . Salsa Intern/Extract.v
cd "$W/ocaml/intern"
cp "$ROOT/ocaml/intern/replay.ml" .
timeout 300 ocamlfind ocamlopt -w -a -package str intern_model.mli intern_model.ml replay.ml -o "$W/replay"
mv -f "$W/replay" "$B/replay"
echo "$STAMP" > "$B/replay.stamp"
echo "built $B/replay"

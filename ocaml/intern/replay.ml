(* ocaml/intern/replay.ml — feeds a recorded linearisation of the real interned
   ingredient(s) (hook H5, preprocessed by checks/intern_diff.py) through the extracted
   Coq model (Intern_model, from coq/Intern/Extract.v) and compares after every record.

   Input (stdin), one record per line, all numbers decimal:
     G <k> <revisions|0=immortal>
         declare model instance k (one per interned ingredient)
     I <k> <rev> <val> <shard> <stamp> <fresh> <path> <idx> <gen> <lia> <dur> Q <q..> L <lru..> E
         intern_id: val = value id, shard = real shard index (the shard_of oracle),
         stamp = -1 outside a query | durability 0..3, fresh = slot index the allocator
         returned; expected: path 0 fast 1 cold 2 reuse, id, slot stamps after (lia -1 =
         Revision::max()), revision queue, LRU of the shard (front first)
     M <k> <rev> <idx> <gen_in> <changed> <gen> <lia> <dur> Q <q..> L <shard> <lru..> E
         maybe_changed_after
     R <k> <rev> <idx> <val>
         field read through a handle: expected value id
     U <k> <rev> <val> <shard> <stamp> <fresh> <path> <idx> <gen> <lia> <dur> Q <q..> L <lru..> E
         an intern_id that unwound out of the user's event callback after its commit point
         (hook H5b `commit` / `touch` record without a final record): the model step is
         Model.intern_cut .. CutCallback; same expectations as `I`, read at the commit point
     A <k> <rev> Q <q..> E
         an intern_id that unwound before any write but revision_queue.record (hook H5b
         `abort` record): Model.intern_cut .. CutEarly
     C <k> <rev> <idx> <gen> <lia> <dur> Q <q..> L <shard> <lru..> E
         confirmation: the final record of a call whose commit record was already replayed;
         no model step, the slot / queue / LRU must still be what the record says
   Output: one line per record, `OK n <events>` or `MISMATCH n <what>`; events are
   `intern:idx:gen:rev` `reuse:..` `validate:..` `clear:idx:oldgen` `leak:idx`. *)
open Intern_model

(* ---- conversions ---- *)
let rec pos_of_int (i : int) : positive =
  if i = 1 then XH
  else if i land 1 = 0 then XO (pos_of_int (i lsr 1))
  else XI (pos_of_int (i lsr 1))

let n_of_int (i : int) : n = if i = 0 then N0 else Npos (pos_of_int i)

(* decimal string of an N of any size (REV_MAX does not fit an OCaml int) *)
let n_to_string (x : n) : string =
  (* little-endian decimal digits *)
  let double_plus (ds : int list) (c0 : int) : int list =
    let rec go ds c =
      match ds with
      | [] -> if c = 0 then [] else [c]
      | d :: r -> let v = 2 * d + c in (v mod 10) :: go r (v / 10)
    in
    go ds c0
  in
  let rec pos = function
    | XH -> [1]
    | XO p -> double_plus (pos p) 0
    | XI p -> double_plus (pos p) 1
  in
  match x with
  | N0 -> "0"
  | Npos p -> String.concat "" (List.rev_map string_of_int (pos p))

let rev_max_s = n_to_string rEV_MAX

let s_of_lia_tok (t : string) : string = if t = "-1" then rev_max_s else t

(* ---- instances ---- *)
type inst = { cfg : cfg; mutable st : st; shards : (int, int) Hashtbl.t }

let insts : (int, inst) Hashtbl.t = Hashtbl.create 16

let n_to_int_small (x : n) : int = int_of_string (n_to_string x)

let shard_of (i : inst) : n -> n =
 fun v ->
  match Hashtbl.find_opt i.shards (n_to_int_small v) with
  | Some s -> n_of_int s
  | None -> n_of_int 0

let get k =
  match Hashtbl.find_opt insts k with
  | Some i -> i
  | None -> failwith (Printf.sprintf "instance %d not declared" k)

let cur_s (i : inst) = n_to_string (st_cur i.st)

(* advance the model's revision counter to `rev` (new_revision is global in salsa) *)
let advance (i : inst) (rev : string) =
  let guard = ref 0 in
  while cur_s i <> rev && !guard < 100000 do
    let (p, _) = step (shard_of i) i.cfg i.st ONewRev in
    i.st <- fst p;
    incr guard
  done;
  cur_s i = rev

let ev_to_string = function
  | EvIntern (i, g, r) ->
      Printf.sprintf "intern:%s:%s:%s" (n_to_string i) (n_to_string g) (n_to_string r)
  | EvReuse (i, g, r) ->
      Printf.sprintf "reuse:%s:%s:%s" (n_to_string i) (n_to_string g) (n_to_string r)
  | EvValidate (i, g, r) ->
      Printf.sprintf "validate:%s:%s:%s" (n_to_string i) (n_to_string g) (n_to_string r)
  | EvClearMemos (i, g) -> Printf.sprintf "clear:%s:%s" (n_to_string i) (n_to_string g)
  | EvLeak i -> Printf.sprintf "leak:%s" (n_to_string i)
  | EvEdge (i, g, d) ->
      Printf.sprintf "edge:%s:%s:%s" (n_to_string i) (n_to_string g) (n_to_string d)

let list_s (l : n list) = String.concat "," (List.map n_to_string l)

(* split tokens after a marker up to the next marker *)
let rec take_until (stop : string list) (l : string list) : string list * string list =
  match l with
  | [] -> ([], [])
  | x :: r when List.mem x stop -> ([], x :: r)
  | x :: r ->
      let a, b = take_until stop r in
      (x :: a, b)

let check (errs : string list ref) (what : string) (exp : string) (got : string) =
  if exp <> got then errs := Printf.sprintf "%s expected %s got %s" what exp got :: !errs

let slot_fields (i : inst) (idx : int) =
  match st_slots i.st (n_of_int idx) with
  | None -> None
  | Some sl ->
      Some (n_to_string sl.s_val, n_to_string sl.s_gen, n_to_string sl.s_lia,
            n_to_string sl.s_dur)

let () =
  let n = ref 0 in
  let bad = ref 0 in
  (try
     while true do
       let line = input_line stdin in
       let toks = List.filter (fun s -> s <> "") (String.split_on_char ' ' line) in
       match toks with
       | [] -> ()
       | "G" :: k :: revs :: _ ->
           let r = int_of_string revs in
           let c = rust_cfg (if r = 0 then None else Some (n_of_int r)) in
           Hashtbl.replace insts (int_of_string k)
             { cfg = c; st = init c; shards = Hashtbl.create 64 }
       | (("I" | "U") as kind) :: k :: rev :: v :: shard :: stamp :: fresh :: path :: idx :: gen
         :: lia :: dur :: "Q" :: rest ->
           incr n;
           let i = get (int_of_string k) in
           let q, rest = take_until [ "L" ] rest in
           let lru, _ = take_until [ "E" ] (List.tl rest) in
           Hashtbl.replace i.shards (int_of_string v) (int_of_string shard);
           let errs = ref [] in
           if not (advance i rev) then errs := "cannot reach revision" :: !errs;
           let sp =
             if stamp = "-1" then Outside else InQuery (n_of_int (int_of_string stamp))
           in
           let (p, evs) =
             if kind = "I" then
               step (shard_of i) i.cfg i.st
                 (OIntern (N0, n_of_int (int_of_string v), sp, n_of_int (int_of_string fresh)))
             else
               intern_cut (shard_of i) i.cfg i.st (n_of_int (int_of_string v)) sp
                 (n_of_int (int_of_string fresh)) CutCallback
           in
           let (st', out) = p in
           i.st <- st';
           (match out with
            | RIntern (mi, mg, mp) ->
                let ps = match mp with PFast -> "0" | PCold -> "1" | PReuse -> "2" in
                check errs "path" path ps;
                check errs "idx" idx (n_to_string mi);
                check errs "gen" gen (n_to_string mg)
            | _ -> errs := "model outcome is not RIntern" :: !errs);
           (match slot_fields i (int_of_string idx) with
            | None -> errs := "model has no such slot" :: !errs
            | Some (sv, _, sl, sd) ->
                check errs "slot value" v sv;
                check errs "lia_after" (s_of_lia_tok lia) sl;
                check errs "dur_after" dur sd);
           check errs "queue" (String.concat "," q) (list_s (st_queue i.st));
           check errs "lru" (String.concat "," lru)
             (list_s (st_lru i.st (n_of_int (int_of_string shard))));
           if st_ub i.st then errs := "model flagged an unlinked removal" :: !errs;
           let evs_s = String.concat " " (List.map ev_to_string evs) in
           if !errs = [] then Printf.printf "OK %d %s\n" !n evs_s
           else (
             incr bad;
             Printf.printf "MISMATCH %d %s | %s\n" !n (String.concat "; " (List.rev !errs)) evs_s)
       | "M" :: k :: rev :: idx :: gen_in :: changed :: gen :: lia :: dur :: "Q" :: rest ->
           incr n;
           let i = get (int_of_string k) in
           let q, rest = take_until [ "L" ] rest in
           let shard, lru =
             match rest with
             | "L" :: sh :: r -> (sh, fst (take_until [ "E" ] r))
             | _ -> ("0", [])
           in
           let errs = ref [] in
           if not (advance i rev) then errs := "cannot reach revision" :: !errs;
           let (p, evs) =
             step (shard_of i) i.cfg i.st
               (OMca (N0, n_of_int (int_of_string idx), n_of_int (int_of_string gen_in), N0))
           in
           let (st', out) = p in
           i.st <- st';
           (match out with
            | RMca b -> check errs "changed" changed (if b then "1" else "0")
            | _ -> errs := "model outcome is not RMca" :: !errs);
           (match slot_fields i (int_of_string idx) with
            | None -> errs := "model has no such slot" :: !errs
            | Some (_, sg, sl, sd) ->
                check errs "gen" gen sg;
                check errs "lia_after" (s_of_lia_tok lia) sl;
                check errs "dur" dur sd);
           check errs "queue" (String.concat "," q) (list_s (st_queue i.st));
           check errs "lru" (String.concat "," lru)
             (list_s (st_lru i.st (n_of_int (int_of_string shard))));
           let evs_s = String.concat " " (List.map ev_to_string evs) in
           if !errs = [] then Printf.printf "OK %d %s\n" !n evs_s
           else (
             incr bad;
             Printf.printf "MISMATCH %d %s | %s\n" !n (String.concat "; " (List.rev !errs)) evs_s)
       | "A" :: k :: rev :: "Q" :: rest ->
           incr n;
           let i = get (int_of_string k) in
           let q, _ = take_until [ "E" ] rest in
           let errs = ref [] in
           if not (advance i rev) then errs := "cannot reach revision" :: !errs;
           let (p, _) = intern_cut (shard_of i) i.cfg i.st N0 Outside N0 CutEarly in
           i.st <- fst p;
           check errs "queue" (String.concat "," q) (list_s (st_queue i.st));
           if !errs = [] then Printf.printf "OK %d\n" !n
           else (
             incr bad;
             Printf.printf "MISMATCH %d %s\n" !n (String.concat "; " (List.rev !errs)))
       | "C" :: k :: rev :: idx :: gen :: lia :: dur :: "Q" :: rest ->
           incr n;
           let i = get (int_of_string k) in
           let q, rest = take_until [ "L" ] rest in
           let shard, lru =
             match rest with
             | "L" :: sh :: r -> (sh, fst (take_until [ "E" ] r))
             | _ -> ("0", [])
           in
           let errs = ref [] in
           if not (advance i rev) then errs := "cannot reach revision" :: !errs;
           (match slot_fields i (int_of_string idx) with
            | None -> errs := "model has no such slot" :: !errs
            | Some (_, sg, sl, sd) ->
                check errs "gen" gen sg;
                check errs "lia_after" (s_of_lia_tok lia) sl;
                check errs "dur_after" dur sd);
           check errs "queue" (String.concat "," q) (list_s (st_queue i.st));
           check errs "lru" (String.concat "," lru)
             (list_s (st_lru i.st (n_of_int (int_of_string shard))));
           if !errs = [] then Printf.printf "OK %d\n" !n
           else (
             incr bad;
             Printf.printf "MISMATCH %d confirmation: %s\n" !n
               (String.concat "; " (List.rev !errs)))
       | "R" :: k :: rev :: idx :: v :: _ ->
           incr n;
           let i = get (int_of_string k) in
           let errs = ref [] in
           if not (advance i rev) then errs := "cannot reach revision" :: !errs;
           let (p, _) = step (shard_of i) i.cfg i.st (ORead (N0, n_of_int (int_of_string idx))) in
           (match snd p with
            | RRead (mv, ok) ->
                check errs "read value" v (n_to_string mv);
                check errs "debug_assert" "true" (string_of_bool ok)
            | _ -> errs := "model outcome is not RRead" :: !errs);
           if !errs = [] then Printf.printf "OK %d\n" !n
           else (
             incr bad;
             Printf.printf "MISMATCH %d %s\n" !n (String.concat "; " (List.rev !errs)))
       | _ -> Printf.printf "MISMATCH 0 unparsable line: %s\n" line
     done
   with End_of_file -> ());
  Printf.printf "DONE records=%d mismatches=%d\n" !n !bad


(** val negb : bool -> bool **)

let negb = function
| true -> false
| false -> true

type nat =
| O
| S of nat

(** val option_map : ('a1 -> 'a2) -> 'a1 option -> 'a2 option **)

let option_map f = function
| Some a -> Some (f a)
| None -> None

(** val fst : ('a1 * 'a2) -> 'a1 **)

let fst = function
| (x, _) -> x

(** val snd : ('a1 * 'a2) -> 'a2 **)

let snd = function
| (_, y) -> y

(** val app : 'a1 list -> 'a1 list -> 'a1 list **)

let rec app l m =
  match l with
  | [] -> m
  | a :: l1 -> a :: (app l1 m)

(** val nth_error : 'a1 list -> nat -> 'a1 option **)

let rec nth_error l = function
| O -> (match l with
        | [] -> None
        | x :: _ -> Some x)
| S n1 -> (match l with
           | [] -> None
           | _ :: l0 -> nth_error l0 n1)

(** val last : 'a1 list -> 'a1 -> 'a1 **)

let rec last l d =
  match l with
  | [] -> d
  | a :: l0 -> (match l0 with
                | [] -> a
                | _ :: _ -> last l0 d)

(** val removelast : 'a1 list -> 'a1 list **)

let rec removelast = function
| [] -> []
| a :: l0 -> (match l0 with
              | [] -> []
              | _ :: _ -> a :: (removelast l0))

type positive =
| XI of positive
| XO of positive
| XH

type n =
| N0
| Npos of positive

module Pos =
 struct
  (** val eqb : positive -> positive -> bool **)

  let rec eqb p q =
    match p with
    | XI p0 -> (match q with
                | XI q0 -> eqb p0 q0
                | _ -> false)
    | XO p0 -> (match q with
                | XO q0 -> eqb p0 q0
                | _ -> false)
    | XH -> (match q with
             | XH -> true
             | _ -> false)
 end

module N =
 struct
  (** val eqb : n -> n -> bool **)

  let eqb n0 m =
    match n0 with
    | N0 -> (match m with
             | N0 -> true
             | Npos _ -> false)
    | Npos p -> (match m with
                 | N0 -> false
                 | Npos q -> Pos.eqb p q)
 end

(** val updN : (n -> 'a1) -> n -> 'a1 -> n -> 'a1 **)

let updN m k v k' =
  if N.eqb k k' then v else m k'

type thread = n

type key = n

type wait_result =
| Completed
| Panicked
| Cancelled

type sync_owner =
| OThread of thread
| OTransferred

type sync_state = { ss_id : sync_owner; ss_waiting : bool; ss_target : 
                    bool; ss_twice : bool }

(** val ss_id : sync_state -> sync_owner **)

let ss_id s =
  s.ss_id

(** val ss_waiting : sync_state -> bool **)

let ss_waiting s =
  s.ss_waiting

(** val ss_target : sync_state -> bool **)

let ss_target s =
  s.ss_target

(** val ss_twice : sync_state -> bool **)

let ss_twice s =
  s.ss_twice

type dgraph = { edges : (thread -> (thread * key) option);
                qdeps : (key -> thread list);
                wres : (thread -> wait_result option);
                transferred : (key -> (thread * key) option);
                tdeps : (key -> key list option);
                notified : (thread * wait_result) list }

(** val edges : dgraph -> thread -> (thread * key) option **)

let edges d =
  d.edges

(** val qdeps : dgraph -> key -> thread list **)

let qdeps d =
  d.qdeps

(** val wres : dgraph -> thread -> wait_result option **)

let wres d =
  d.wres

(** val transferred : dgraph -> key -> (thread * key) option **)

let transferred d =
  d.transferred

(** val tdeps : dgraph -> key -> key list option **)

let tdeps d =
  d.tdeps

(** val notified : dgraph -> (thread * wait_result) list **)

let notified d =
  d.notified

type state = { sync : (key -> sync_state option); dg : dgraph }

(** val sync : state -> key -> sync_state option **)

let sync s =
  s.sync

(** val dg : state -> dgraph **)

let dg s =
  s.dg

(** val dg_init : dgraph **)

let dg_init =
  { edges = (fun _ -> None); qdeps = (fun _ -> []); wres = (fun _ -> None);
    transferred = (fun _ -> None); tdeps = (fun _ -> None); notified = [] }

(** val init : state **)

let init =
  { sync = (fun _ -> None); dg = dg_init }

type err =
| EFuel
| ESameThread
| EAlreadyBlocked
| EWouldCycle
| ENotBlocked
| ENoDependents
| ENoEdge
| EEdgeCycle
| ENewOwnerNotBlocked
| ENewOwnerNotDependent
| EDuplicateDependent
| EStillBlocked
| EKeyNotClaimed
| EClaimedTwice

type 'a r =
| ROk of 'a
| RErr of err

(** val bind : 'a1 r -> ('a1 -> 'a2 r) -> 'a2 r **)

let bind m f =
  match m with
  | ROk a -> f a
  | RErr e -> RErr e

(** val foldM : ('a2 -> 'a1 -> 'a2 r) -> 'a1 list -> 'a2 -> 'a2 r **)

let rec foldM f l s =
  match l with
  | [] -> ROk s
  | a :: l' -> bind (f s a) (fun s' -> foldM f l' s')

(** val find_mapM : ('a1 -> 'a2 option r) -> 'a1 list -> 'a2 option r **)

let rec find_mapM f = function
| [] -> ROk None
| a :: l' ->
  bind (f a) (fun r0 ->
    match r0 with
    | Some b -> ROk (Some b)
    | None -> find_mapM f l')

(** val set_edges : dgraph -> (thread -> (thread * key) option) -> dgraph **)

let set_edges g v =
  { edges = v; qdeps = g.qdeps; wres = g.wres; transferred = g.transferred;
    tdeps = g.tdeps; notified = g.notified }

(** val set_qdeps : dgraph -> (key -> thread list) -> dgraph **)

let set_qdeps g v =
  { edges = g.edges; qdeps = v; wres = g.wres; transferred = g.transferred;
    tdeps = g.tdeps; notified = g.notified }

(** val set_wres : dgraph -> (thread -> wait_result option) -> dgraph **)

let set_wres g v =
  { edges = g.edges; qdeps = g.qdeps; wres = v; transferred = g.transferred;
    tdeps = g.tdeps; notified = g.notified }

(** val set_transferred :
    dgraph -> (key -> (thread * key) option) -> dgraph **)

let set_transferred g v =
  { edges = g.edges; qdeps = g.qdeps; wres = g.wres; transferred = v; tdeps =
    g.tdeps; notified = g.notified }

(** val set_tdeps : dgraph -> (key -> key list option) -> dgraph **)

let set_tdeps g v =
  { edges = g.edges; qdeps = g.qdeps; wres = g.wres; transferred =
    g.transferred; tdeps = v; notified = g.notified }

(** val set_notified : dgraph -> (thread * wait_result) list -> dgraph **)

let set_notified g v =
  { edges = g.edges; qdeps = g.qdeps; wres = g.wres; transferred =
    g.transferred; tdeps = g.tdeps; notified = v }

(** val set_sync : state -> (key -> sync_state option) -> state **)

let set_sync s v =
  { sync = v; dg = s.dg }

(** val set_dg : state -> dgraph -> state **)

let set_dg s g =
  { sync = s.sync; dg = g }

(** val mem : n -> n list -> bool **)

let rec mem x = function
| [] -> false
| y :: l' -> (||) (N.eqb x y) (mem x l')

(** val position : n -> n list -> nat option **)

let rec position x = function
| [] -> None
| y :: l' ->
  if N.eqb x y then Some O else option_map (fun x0 -> S x0) (position x l')

(** val swap_remove_at : nat -> n list -> n list **)

let rec swap_remove_at i = function
| [] -> []
| x :: tl ->
  (match i with
   | O -> (match tl with
           | [] -> []
           | y :: _ -> (last tl y) :: (removelast tl))
   | S i' -> x :: (swap_remove_at i' tl))

(** val set_remove : n -> n list -> n list **)

let set_remove x l =
  match position x l with
  | Some i -> swap_remove_at i l
  | None -> l

(** val depends_on_loop :
    nat -> (thread -> (thread * key) option) -> thread -> thread -> bool r **)

let rec depends_on_loop fuel e p to_id =
  match fuel with
  | O -> RErr EFuel
  | S f ->
    (match e p with
     | Some p0 ->
       let (q, _) = p0 in
       if N.eqb q to_id then ROk true else depends_on_loop f e q to_id
     | None -> ROk (N.eqb p to_id))

(** val depends_on : nat -> dgraph -> thread -> thread -> bool r **)

let depends_on fuel g from_id to_id =
  depends_on_loop fuel g.edges from_id to_id

(** val add_edge : nat -> dgraph -> thread -> key -> thread -> dgraph r **)

let add_edge fuel g from_id k to_id =
  if N.eqb from_id to_id
  then RErr ESameThread
  else (match g.edges from_id with
        | Some _ -> RErr EAlreadyBlocked
        | None ->
          bind (depends_on fuel g to_id from_id) (fun b ->
            if b
            then RErr EWouldCycle
            else let g1 = set_edges g (updN g.edges from_id (Some (to_id, k)))
                 in
                 ROk
                 (set_qdeps g1
                   (updN g1.qdeps k (app (g1.qdeps k) (from_id :: []))))))

(** val unblock_runtime : dgraph -> thread -> wait_result -> dgraph r **)

let unblock_runtime g id r0 =
  match g.edges id with
  | Some _ ->
    let g1 = set_edges g (updN g.edges id None) in
    let g2 = set_wres g1 (updN g1.wres id (Some r0)) in
    ROk (set_notified g2 ((id, r0) :: g2.notified))
  | None -> RErr ENotBlocked

(** val unblock_runtimes_blocked_on :
    dgraph -> key -> wait_result -> dgraph r **)

let unblock_runtimes_blocked_on g k r0 =
  let dependents = g.qdeps k in
  let g1 = set_qdeps g (updN g.qdeps k []) in
  foldM (fun g' from_id -> unblock_runtime g' from_id r0) dependents g1

(** val tdeps_remove : dgraph -> key -> key -> dgraph r **)

let tdeps_remove g owner k =
  match g.tdeps owner with
  | Some l -> ROk (set_tdeps g (updN g.tdeps owner (Some (set_remove k l))))
  | None -> RErr ENoDependents

(** val unblock_recursive :
    nat -> dgraph -> key -> wait_result -> dgraph r **)

let rec unblock_recursive fuel g query r0 =
  match fuel with
  | O -> RErr EFuel
  | S f ->
    let g1 = set_transferred g (updN g.transferred query None) in
    let l = match g1.tdeps query with
            | Some l -> l
            | None -> [] in
    let g2 = set_tdeps g1 (updN g1.tdeps query None) in
    foldM (fun g' q ->
      bind (unblock_runtimes_blocked_on g' q r0) (fun g'' ->
        unblock_recursive f g'' q r0)) l g2

(** val undo_transfer_lock : dgraph -> key -> dgraph r **)

let undo_transfer_lock g k =
  match g.transferred k with
  | Some p ->
    let (_, owner) = p in
    let g1 = set_transferred g (updN g.transferred k None) in
    tdeps_remove g1 owner k
  | None -> ROk g

(** val unblock_transferred_queries_owned_by :
    nat -> dgraph -> key -> wait_result -> dgraph r **)

let unblock_transferred_queries_owned_by fuel g k r0 =
  bind (undo_transfer_lock g k) (fun g1 -> unblock_recursive fuel g1 k r0)

(** val resolve_loop :
    nat -> (key -> (thread * key) option) -> key option -> key -> thread ->
    thread r **)

let rec resolve_loop fuel tr skip_over current_owner resolved =
  match fuel with
  | O -> RErr EFuel
  | S f ->
    (match tr current_owner with
     | Some p ->
       let (next_thread, next_key) = p in
       let skip =
         match skip_over with
         | Some s -> N.eqb next_key s
         | None -> false
       in
       if skip
       then resolve_loop f tr skip_over next_key resolved
       else resolve_loop f tr skip_over next_key next_thread
     | None -> ROk resolved)

(** val thread_id_of_transferred_query :
    nat -> dgraph -> key -> key option -> thread option r **)

let thread_id_of_transferred_query fuel g k skip_over =
  match g.transferred k with
  | Some p ->
    let (resolved, owner) = p in
    bind (resolve_loop fuel g.transferred skip_over owner resolved) (fun t ->
      ROk (Some t))
  | None -> ROk None

(** val tdeps_push : dgraph -> key -> key -> dgraph r **)

let tdeps_push g owner k =
  match g.tdeps owner with
  | Some l ->
    if mem k l
    then RErr EDuplicateDependent
    else ROk (set_tdeps g (updN g.tdeps owner (Some (app l (k :: [])))))
  | None -> RErr ENoDependents

(** val reroot :
    nat -> dgraph -> key -> key -> thread -> key -> key -> dgraph r **)

let rec reroot fuel g query new_owner old_owner_thread old_owner source =
  match fuel with
  | O -> RErr EFuel
  | S f ->
    (match g.transferred source with
     | Some p ->
       let (_, next_target) = p in
       if N.eqb next_target query
       then bind (tdeps_remove g query source) (fun g1 ->
              if N.eqb old_owner new_owner
              then ROk (set_transferred g1 (updN g1.transferred source None))
              else let g2 =
                     set_transferred g1
                       (updN g1.transferred source (Some (old_owner_thread,
                         old_owner)))
                   in
                   tdeps_push g2 old_owner source)
       else reroot f g query new_owner old_owner_thread old_owner next_target
     | None -> ROk g)

(** val find_index :
    nat -> dgraph -> thread -> thread list -> nat -> nat option r **)

let rec find_index fuel g new_owner_id l i =
  match l with
  | [] -> ROk None
  | id :: l' ->
    if N.eqb id new_owner_id
    then ROk (Some i)
    else bind (depends_on fuel g new_owner_id id) (fun b ->
           if b then ROk (Some i) else find_index fuel g new_owner_id l' (S i))

(** val find_blocked_thread :
    nat -> dgraph -> key -> thread -> (key * nat) option r **)

let rec find_blocked_thread fuel g query new_owner_id =
  match fuel with
  | O -> RErr EFuel
  | S f ->
    bind (find_index fuel g new_owner_id (g.qdeps query) O) (fun r0 ->
      match r0 with
      | Some i -> ROk (Some (query, i))
      | None ->
        find_mapM (fun dependent ->
          find_blocked_thread f g dependent new_owner_id)
          (match g.tdeps query with
           | Some l -> l
           | None -> []))

(** val unblock_transfer_target :
    nat -> dgraph -> key -> thread -> dgraph r **)

let unblock_transfer_target fuel g source_query new_owner_id =
  bind (find_blocked_thread fuel g source_query new_owner_id) (fun r0 ->
    match r0 with
    | Some p ->
      let (query, i) = p in
      let blocked = g.qdeps query in
      (match nth_error blocked i with
       | Some thread_id ->
         let g1 = set_qdeps g (updN g.qdeps query (swap_remove_at i blocked))
         in
         unblock_runtime g1 thread_id Completed
       | None -> RErr ENotBlocked)
    | None -> ROk g)

(** val rewrite_edge : nat -> thread -> dgraph -> thread -> dgraph r **)

let rewrite_edge fuel new_owner_thread g dependent =
  match g.edges dependent with
  | Some p ->
    let (_, k) = p in
    let g1 = set_edges g (updN g.edges dependent (Some (new_owner_thread, k)))
    in
    bind (depends_on fuel g1 new_owner_thread dependent) (fun b ->
      if b then RErr EEdgeCycle else ROk g1)
  | None -> RErr ENoEdge

(** val update_transferred_edges :
    nat -> dgraph -> key -> thread -> dgraph r **)

let rec update_transferred_edges fuel g query new_owner_thread =
  match fuel with
  | O -> RErr EFuel
  | S f ->
    bind (foldM (rewrite_edge fuel new_owner_thread) (g.qdeps query) g)
      (fun g1 ->
      foldM (fun g' dependent ->
        update_transferred_edges f g' dependent new_owner_thread)
        (match g1.tdeps query with
         | Some l -> l
         | None -> []) g1)

(** val transfer_finish :
    nat -> dgraph -> key -> thread -> key -> thread -> bool ->
    (dgraph * bool) r **)

let transfer_finish fuel g query current_thread new_owner new_owner_thread thread_changed =
  let g0 =
    match g.tdeps new_owner with
    | Some _ -> g
    | None -> set_tdeps g (updN g.tdeps new_owner (Some []))
  in
  if mem new_owner (match g0.tdeps new_owner with
                    | Some l -> l
                    | None -> [])
  then RErr EDuplicateDependent
  else bind (tdeps_push g0 new_owner query) (fun g1 ->
         if thread_changed
         then bind (unblock_transfer_target fuel g1 query new_owner_thread)
                (fun g2 ->
                bind
                  (update_transferred_edges fuel g2 query new_owner_thread)
                  (fun g3 ->
                  bind (depends_on fuel g3 new_owner_thread current_thread)
                    (fun dep2 ->
                    if (&&) (negb (N.eqb current_thread new_owner_thread))
                         (negb dep2)
                    then bind
                           (add_edge fuel g3 current_thread new_owner
                             new_owner_thread) (fun g4 -> ROk (g4, true))
                    else ROk (g3, false))))
         else ROk (g1, false))

(** val new_owner_thread_of :
    nat -> dgraph -> key -> key -> sync_owner -> thread r **)

let new_owner_thread_of fuel g query new_owner = function
| OThread t -> ROk t
| OTransferred ->
  bind (thread_id_of_transferred_query fuel g new_owner (Some query))
    (fun o -> match o with
              | Some t -> ROk t
              | None -> RErr ENewOwnerNotBlocked)

(** val transfer_lock :
    nat -> dgraph -> key -> thread -> key -> sync_owner -> (dgraph * bool) r **)

let transfer_lock fuel g query current_thread new_owner new_owner_id =
  bind (new_owner_thread_of fuel g query new_owner new_owner_id)
    (fun new_owner_thread ->
    bind (depends_on fuel g new_owner_thread current_thread) (fun dep ->
      if negb ((||) (N.eqb new_owner_thread current_thread) dep)
      then RErr ENewOwnerNotDependent
      else (match g.transferred query with
            | Some p ->
              let (old_owner_thread, old_owner) = p in
              if (&&) (N.eqb old_owner_thread new_owner_thread)
                   (N.eqb old_owner new_owner)
              then ROk (g, false)
              else bind (tdeps_remove g old_owner query) (fun g1 ->
                     let g2 =
                       set_transferred g1
                         (updN g1.transferred query (Some (new_owner_thread,
                           new_owner)))
                     in
                     bind
                       (reroot fuel g2 query new_owner old_owner_thread
                         old_owner new_owner) (fun g3 ->
                       transfer_finish fuel g3 query current_thread new_owner
                         new_owner_thread true))
            | None ->
              let g1 =
                set_transferred g
                  (updN g.transferred query (Some (new_owner_thread,
                    new_owner)))
              in
              transfer_finish fuel g1 query current_thread new_owner
                new_owner_thread
                (negb (N.eqb current_thread new_owner_thread)))))

type block_result =
| BBlocked
| BCycle

(** val block_on :
    nat -> dgraph -> thread -> key -> thread -> (dgraph * block_result) r **)

let block_on fuel g thread_id k other_id =
  if N.eqb thread_id other_id
  then ROk (g, BCycle)
  else bind (depends_on fuel g other_id thread_id) (fun b ->
         if b
         then ROk (g, BCycle)
         else bind (add_edge fuel g thread_id k other_id) (fun g1 -> ROk (g1,
                BBlocked)))

(** val receive : dgraph -> thread -> (dgraph * wait_result option) r **)

let receive g from_id =
  match g.wres from_id with
  | Some r0 ->
    (match g.edges from_id with
     | Some _ -> RErr EStillBlocked
     | None -> ROk ((set_wres g (updN g.wres from_id None)), (Some r0)))
  | None -> ROk (g, None)

type release_mode =
| MDefault
| MSelfOnly

type claim_result =
| CClaimed of release_mode
| CRunning of thread
| CCycle of bool

(** val fresh_sync : thread -> sync_state **)

let fresh_sync t =
  { ss_id = (OThread t); ss_waiting = false; ss_target = false; ss_twice =
    false }

(** val set_waiting : sync_state -> sync_state **)

let set_waiting st =
  { ss_id = st.ss_id; ss_waiting = true; ss_target = st.ss_target; ss_twice =
    st.ss_twice }

(** val runtime_block :
    nat -> dgraph -> thread -> thread -> claim_result r **)

let runtime_block fuel g thread_id other_id =
  if N.eqb thread_id other_id
  then ROk (CCycle false)
  else bind (depends_on fuel g other_id thread_id) (fun b ->
         if b then ROk (CCycle false) else ROk (CRunning other_id))

type block_transferred_result =
| BTImTheOwner
| BTOwnedBy of thread
| BTReleased

(** val block_transferred :
    nat -> dgraph -> key -> thread -> block_transferred_result r **)

let block_transferred fuel g query current_id =
  bind (thread_id_of_transferred_query fuel g query None) (fun o ->
    match o with
    | Some owner_thread_id ->
      bind (depends_on fuel g owner_thread_id current_id) (fun b ->
        if (||) (N.eqb owner_thread_id current_id) b
        then ROk BTImTheOwner
        else ROk (BTOwnedBy owner_thread_id))
    | None -> ROk BTReleased)

(** val try_claim :
    nat -> bool -> state -> thread -> key -> bool -> (state * claim_result) r **)

let try_claim fuel claim s t k allow =
  match s.sync k with
  | Some st ->
    (match st.ss_id with
     | OThread id ->
       let s1 = set_sync s (updN s.sync k (Some (set_waiting st))) in
       bind (runtime_block fuel s1.dg t id) (fun r0 -> ROk (s1, r0))
     | OTransferred ->
       bind (block_transferred fuel s.dg k t) (fun bt ->
         match bt with
         | BTImTheOwner ->
           if allow
           then if claim
                then if st.ss_twice
                     then RErr EClaimedTwice
                     else ROk
                            ((set_sync s
                               (updN s.sync k (Some { ss_id = (OThread t);
                                 ss_waiting = st.ss_waiting; ss_target =
                                 st.ss_target; ss_twice = true }))),
                            (CClaimed MSelfOnly))
                else ROk (s, (CClaimed MSelfOnly))
           else ROk (s, (CCycle true))
         | BTOwnedBy other ->
           let s1 = set_sync s (updN s.sync k (Some (set_waiting st))) in
           bind (runtime_block fuel s1.dg t other) (fun r0 -> ROk (s1, r0))
         | BTReleased ->
           if claim
           then ROk ((set_sync s (updN s.sync k (Some (fresh_sync t)))),
                  (CClaimed MDefault))
           else ROk (s, (CClaimed MDefault))))
  | None ->
    if claim
    then ROk ((set_sync s (updN s.sync k (Some (fresh_sync t)))), (CClaimed
           MDefault))
    else ROk (s, (CClaimed MDefault))

(** val mark_as_transfer_target :
    state -> key -> state * sync_owner option **)

let mark_as_transfer_target s k =
  match s.sync k with
  | Some st ->
    ((set_sync s
       (updN s.sync k (Some { ss_id = st.ss_id; ss_waiting = true;
         ss_target = true; ss_twice = st.ss_twice }))), (Some st.ss_id))
  | None -> (s, None)

(** val sync_remove : state -> key -> (state * sync_state) r **)

let sync_remove s k =
  match s.sync k with
  | Some st -> ROk ((set_sync s (updN s.sync k None)), st)
  | None -> RErr EKeyNotClaimed

(** val release_self : state -> key -> (state * sync_state option) r **)

let release_self s k =
  match s.sync k with
  | Some st ->
    if st.ss_twice
    then ROk
           ((set_sync s
              (updN s.sync k (Some { ss_id = OTransferred; ss_waiting =
                st.ss_waiting; ss_target = st.ss_target; ss_twice = false }))),
           None)
    else ROk ((set_sync s (updN s.sync k None)), (Some st))
  | None -> RErr EKeyNotClaimed

(** val transfer :
    nat -> state -> thread -> key -> key -> sync_owner -> (state * bool) r **)

let transfer fuel s t k new_owner new_owner_id =
  match s.sync k with
  | Some st ->
    let s1 =
      set_sync s
        (updN s.sync k (Some { ss_id = OTransferred; ss_waiting =
          st.ss_waiting; ss_target = st.ss_target; ss_twice = false }))
    in
    bind (transfer_lock fuel s1.dg k t new_owner new_owner_id) (fun r0 -> ROk
      ((set_dg s1 (fst r0)), (snd r0)))
  | None -> RErr EKeyNotClaimed

type op =
| OClaim of thread * key * bool
| OPeek of thread * key * bool
| OBlockOn of thread * key * thread
| OReceive of thread
| ORemove of thread * key
| OReleaseSelf of thread * key
| OMarkTarget of thread * key
| OTransfer of thread * key * key * sync_owner
| OUndoTransfer of thread * key
| OUnblock of thread * key * wait_result
| OUnblockTransferred of thread * key * wait_result

type outcome =
| XClaim of claim_result
| XBlock of block_result
| XReceive of wait_result option
| XRemoved of sync_state
| XSelfKept
| XMarked of sync_owner option
| XTransfer of bool
| XUnit

(** val step : nat -> state -> op -> (state * outcome) r **)

let step fuel s = function
| OClaim (t, k, allow) ->
  bind (try_claim fuel true s t k allow) (fun r0 -> ROk ((fst r0), (XClaim
    (snd r0))))
| OPeek (t, k, allow) ->
  bind (try_claim fuel false s t k allow) (fun r0 -> ROk ((fst r0), (XClaim
    (snd r0))))
| OBlockOn (t, k, other) ->
  bind (block_on fuel s.dg t k other) (fun r0 -> ROk ((set_dg s (fst r0)),
    (XBlock (snd r0))))
| OReceive t ->
  bind (receive s.dg t) (fun r0 -> ROk ((set_dg s (fst r0)), (XReceive
    (snd r0))))
| ORemove (_, k) ->
  bind (sync_remove s k) (fun r0 -> ROk ((fst r0), (XRemoved (snd r0))))
| OReleaseSelf (_, k) ->
  bind (release_self s k) (fun r0 -> ROk ((fst r0),
    (match snd r0 with
     | Some st -> XRemoved st
     | None -> XSelfKept)))
| OMarkTarget (_, k) ->
  let r0 = mark_as_transfer_target s k in ROk ((fst r0), (XMarked (snd r0)))
| OTransfer (t, k, new_owner, id) ->
  bind (transfer fuel s t k new_owner id) (fun r0 -> ROk ((fst r0),
    (XTransfer (snd r0))))
| OUndoTransfer (_, k) ->
  bind (undo_transfer_lock s.dg k) (fun g -> ROk ((set_dg s g), XUnit))
| OUnblock (_, k, r0) ->
  bind (unblock_runtimes_blocked_on s.dg k r0) (fun g -> ROk ((set_dg s g),
    XUnit))
| OUnblockTransferred (_, k, r0) ->
  bind (unblock_transferred_queries_owned_by fuel s.dg k r0) (fun g -> ROk
    ((set_dg s g), XUnit))

(** val release_script :
    thread -> key -> sync_state -> wait_result -> op list **)

let release_script t k st r0 =
  if st.ss_waiting
  then app (if st.ss_twice then (OUndoTransfer (t, k)) :: [] else [])
         (app ((OUnblock (t, k, r0)) :: [])
           (if st.ss_target
            then (OUnblockTransferred (t, k, r0)) :: []
            else []))
  else []

(** val run : nat -> op list -> state -> state r **)

let rec run fuel l s =
  match l with
  | [] -> ROk s
  | o :: l' -> bind (step fuel s o) (fun r0 -> run fuel l' (fst r0))

(** val runningb : dgraph -> thread -> bool **)

let runningb g t =
  match g.edges t with
  | Some _ -> false
  | None -> (match g.wres t with
             | Some _ -> false
             | None -> true)

(** val owned_byb : state -> key -> thread -> bool **)

let owned_byb s k t =
  match s.sync k with
  | Some st ->
    (match st.ss_id with
     | OThread t' -> N.eqb t t'
     | OTransferred -> false)
  | None -> false

(** val treaches :
    nat -> (key -> (thread * key) option) -> key -> key -> bool r **)

let rec treaches fuel tr k target =
  match fuel with
  | O -> RErr EFuel
  | S f ->
    if N.eqb k target
    then ROk true
    else (match tr k with
          | Some p -> let (_, k') = p in treaches f tr k' target
          | None -> ROk false)

(** val preb : nat -> state -> op -> bool **)

let preb fuel s = function
| OClaim (t, _, _) -> runningb s.dg t
| OPeek (t, _, _) -> runningb s.dg t
| OBlockOn (t, _, _) -> runningb s.dg t
| OReceive _ -> true
| ORemove (t, k) -> (&&) (runningb s.dg t) (owned_byb s k t)
| OReleaseSelf (t, k) -> (&&) (runningb s.dg t) (owned_byb s k t)
| OMarkTarget (t, _) -> runningb s.dg t
| OTransfer (t, k, new_owner, _) ->
  (&&)
    ((&&) ((&&) (runningb s.dg t) (owned_byb s k t))
      (negb (N.eqb k new_owner)))
    (match s.dg.transferred k with
     | Some _ -> true
     | None ->
       (match treaches fuel s.dg.transferred new_owner k with
        | ROk b -> negb b
        | RErr _ -> false))
| OUndoTransfer (t, _) -> runningb s.dg t
| OUnblock (t, _, _) -> runningb s.dg t
| OUnblockTransferred (t, _, _) -> runningb s.dg t

(* replay.ml — replays H2 protocol traces (hook /verif/hooks/H2-proto-trace.patch) through the
   Coq-extracted protocol model (Proto/Model.v -> proto_model.ml).

   For every logged operation the driver checks that
     * the documented client preconditions hold in the model state   ([Model.preb]),
     * the operation is enabled, i.e. the model step does not fail   ([Model.step] = ROk),
     * the model produces the logged outcome, including the exact sequence of wake-ups
       ([Edge::notify] calls) performed inside the critical section.

   usage: replay [--fuel N] [--verbose] FILE...        (FILE may be a directory)
   Prints, per file,  "OK <n> <file>"  or  "MISMATCH line <l> <file>: <reason>",
   then a summary line "TOTAL files=<f> ok=<k> mismatch=<m> steps=<s>"; exit status 1 on any
   mismatch.

   Trace record grammar (one per line; <seq> <logger> are added by the hook):
     claim T K allow|deny -> claimed default | claimed selfonly | cycle inner
     peek  T K allow|deny -> claimed | cycle inner
     block T K O -> running | cycle          (Runtime::block / BlockOnTransferredOwner::block;
                                              the try_claim/peek_claim paths that end there)
     block_on T K O                          (DependencyGraph::block_on after add_edge)
     wake D R                                (unblock_runtime; belongs to the next unblock /
                                              unblock_transferred / transfer record of the logger)
     receive T -> R
     remove T K default|panicking R -> W TT TW thread N | transferred -
     release_self T K -> kept | removed W TT TW thread N | transferred -
     mark T K -> thread N | transferred - | none -
     transfer T K K' thread N | transferred - -> 0|1
     undo_transfer T K
     unblock T K R
     unblock_transferred T K R *)

open Proto_model

(* ---- conversions ---- *)
let rec pos_of_int (i : int) : positive =
  if i <= 1 then XH
  else if i land 1 = 0 then XO (pos_of_int (i lsr 1))
  else XI (pos_of_int (i lsr 1))

let n_of_int (i : int) : n = if i = 0 then N0 else Npos (pos_of_int i)

let rec int_of_pos = function
  | XH -> 1
  | XO p -> 2 * int_of_pos p
  | XI p -> 2 * int_of_pos p + 1

let int_of_n = function N0 -> 0 | Npos p -> int_of_pos p

let rec nat_of_int (i : int) : nat = if i <= 0 then O else S (nat_of_int (i - 1))

let string_of_wr = function
  | Completed -> "completed"
  | Panicked -> "panicked"
  | Cancelled -> "cancelled"

let wr_of_string = function
  | "completed" -> Completed
  | "panicked" -> Panicked
  | "cancelled" -> Cancelled
  | s -> failwith ("bad wait result " ^ s)

let string_of_err = function
  | EFuel -> "EFuel"
  | ESameThread -> "ESameThread"
  | EAlreadyBlocked -> "EAlreadyBlocked"
  | EWouldCycle -> "EWouldCycle"
  | ENotBlocked -> "ENotBlocked"
  | ENoDependents -> "ENoDependents"
  | ENoEdge -> "ENoEdge"
  | EEdgeCycle -> "EEdgeCycle"
  | ENewOwnerNotBlocked -> "ENewOwnerNotBlocked"
  | ENewOwnerNotDependent -> "ENewOwnerNotDependent"
  | EDuplicateDependent -> "EDuplicateDependent"
  | EStillBlocked -> "EStillBlocked"
  | EKeyNotClaimed -> "EKeyNotClaimed"
  | EClaimedTwice -> "EClaimedTwice"

let string_of_owner = function
  | OThread t -> Printf.sprintf "thread %d" (int_of_n t)
  | OTransferred -> "transferred -"

let string_of_outcome = function
  | XClaim (CClaimed MDefault) -> "claimed default"
  | XClaim (CClaimed MSelfOnly) -> "claimed selfonly"
  | XClaim (CRunning o) -> Printf.sprintf "running %d" (int_of_n o)
  | XClaim (CCycle true) -> "cycle inner"
  | XClaim (CCycle false) -> "cycle"
  | XBlock BBlocked -> "blocked"
  | XBlock BCycle -> "block-cycle"
  | XReceive None -> "not-ready"
  | XReceive (Some r) -> string_of_wr r
  | XRemoved st ->
    Printf.sprintf "removed %d %d %d %s"
      (Bool.to_int st.ss_waiting) (Bool.to_int st.ss_target) (Bool.to_int st.ss_twice)
      (string_of_owner st.ss_id)
  | XSelfKept -> "kept"
  | XMarked None -> "none -"
  | XMarked (Some o) -> string_of_owner o
  | XTransfer b -> string_of_int (Bool.to_int b)
  | XUnit -> "()"

exception Mismatch of string

(* coverage counters over all replayed files *)
let cov : (string, int) Hashtbl.t = Hashtbl.create 32
let pending_sync : (string, (n * bool * bool * bool)) Hashtbl.t = Hashtbl.create 8
let hit name = Hashtbl.replace cov name (1 + Option.value ~default:0 (Hashtbl.find_opt cov name))

let fail fmt = Printf.ksprintf (fun s -> raise (Mismatch s)) fmt

(* ---- one trace ---- *)
type ctx = {
  mutable st : state;
  keys : (string, int) Hashtbl.t;
  (* wake records not yet attributed to an operation, per logging thread, oldest first *)
  pending : (int, (int * wait_result) list) Hashtbl.t;
  (* threads whose last transfer returned "blocked": their next block_on record is the add_edge
     that the model already performed inside OTransfer *)
  self_blocked : (int, unit) Hashtbl.t;
  mutable steps : int;
}

let key_of ctx (s : string) : n =
  match Hashtbl.find_opt ctx.keys s with
  | Some i -> n_of_int i
  | None ->
    let i = Hashtbl.length ctx.keys + 1 in
    Hashtbl.add ctx.keys s i;
    n_of_int i

let thread_of (s : string) : n =
  match int_of_string_opt s with
  | Some i -> n_of_int (i + 1)     (* thread ids start at 1 in the model, 0 in the log *)
  | None -> failwith ("bad thread " ^ s)

let log_thread (t : n) = int_of_n t - 1

let owner_of a b =
  match a with
  | "thread" -> OThread (thread_of b)
  | "transferred" -> OTransferred
  | _ -> failwith ("bad owner " ^ a)

let bool_of = function "1" -> true | "0" -> false | s -> failwith ("bad flag " ^ s)

(* run one model step, checking precondition and enabledness *)
let do_step fuel ctx (o : op) : outcome * (int * wait_result) list =
  if not (preb fuel ctx.st o) then fail "client precondition violated";
  let before = List.length (ctx.st.dg.notified) in
  match step fuel ctx.st o with
  | RErr e -> fail "operation not enabled in the model: %s" (string_of_err e)
  | ROk (s', out) ->
    let after = s'.dg.notified in
    let rec take k l = if k <= 0 then [] else match l with [] -> [] | x :: r -> x :: take (k - 1) r in
    let delta = List.rev (take (List.length after - before) after) in
    ctx.st <- s';
    ctx.steps <- ctx.steps + 1;
    hit ("outcome:" ^ (match o with
        | OClaim _ -> "claim" | OPeek _ -> "peek" | OBlockOn _ -> "block_on" | OReceive _ -> "receive"
        | ORemove _ -> "remove" | OReleaseSelf _ -> "release_self" | OMarkTarget _ -> "mark"
        | OTransfer _ -> "transfer" | OUndoTransfer _ -> "undo_transfer" | OUnblock _ -> "unblock"
        | OUnblockTransferred _ -> "unblock_transferred") ^ ":" ^
        (match out with XRemoved _ -> "removed" | XClaim (CRunning _) -> "running"
                      | XMarked (Some (OThread _)) -> "thread" | _ -> string_of_outcome out));
    (out, List.map (fun (t, r) -> (log_thread t, r)) delta)

let expect_outcome out (expected : string) =
  let got = string_of_outcome out in
  if got <> expected then fail "outcome: model %S, trace %S" got expected

let check_wakes ctx logger (model : (int * wait_result) list) =
  let logged = Option.value ~default:[] (Hashtbl.find_opt ctx.pending logger) in
  Hashtbl.remove ctx.pending logger;
  let show l =
    String.concat "," (List.map (fun (t, r) -> Printf.sprintf "%d:%s" t (string_of_wr r)) l) in
  if logged <> model then fail "wake-ups: model [%s], trace [%s]" (show model) (show logged)

let no_wakes model =
  if model <> [] then fail "model woke threads in an operation that cannot wake"

let process fuel ctx (line : string) =
  let toks = List.filter (fun s -> s <> "") (String.split_on_char ' ' line) in
  match toks with
  | [] -> ()
  | _seq :: logger :: rest ->
    let logger = int_of_string logger in
    begin match rest with
    | [ "claim"; t; k; a; "->"; "claimed"; m ] ->
      let out, w = do_step fuel ctx (OClaim (thread_of t, key_of ctx k, a = "allow")) in
      no_wakes w; expect_outcome out ("claimed " ^ m)
    | [ "claim"; t; k; a; "->"; "cycle"; "inner" ] ->
      let out, w = do_step fuel ctx (OClaim (thread_of t, key_of ctx k, a = "allow")) in
      no_wakes w; expect_outcome out "cycle inner"
    | [ "peek"; t; k; a; "->"; "claimed" ] ->
      let out, w = do_step fuel ctx (OPeek (thread_of t, key_of ctx k, a = "allow")) in
      no_wakes w;
      (match out with XClaim (CClaimed _) -> () | _ -> expect_outcome out "claimed")
    | [ "peek"; t; k; a; "->"; "cycle"; "inner" ] ->
      let out, w = do_step fuel ctx (OPeek (thread_of t, key_of ctx k, a = "allow")) in
      no_wakes w; expect_outcome out "cycle inner"
    | [ "block"; t; k; o; "->"; res ] ->
      (* the tail of try_claim / peek_claim for a key owned by another claim; identical for
         both and independent of the reentrancy flag *)
      let out, w = do_step fuel ctx (OPeek (thread_of t, key_of ctx k, false)) in
      no_wakes w;
      (match res with
       | "running" -> expect_outcome out (Printf.sprintf "running %d" (int_of_n (thread_of o)))
       | "cycle" -> expect_outcome out "cycle"
       | _ -> failwith ("bad block result " ^ res))
    | [ "block_on"; t; k; o ] ->
      let tn = thread_of t in
      if Hashtbl.mem ctx.self_blocked (log_thread tn) then begin
        Hashtbl.remove ctx.self_blocked (log_thread tn);
        match ctx.st.dg.edges tn with
        | Some (o', k') when o' = thread_of o && k' = key_of ctx k -> ()
        | _ -> fail "transfer self-block: model edge differs from the logged block_on"
      end else begin
        let out, w = do_step fuel ctx (OBlockOn (tn, key_of ctx k, thread_of o)) in
        no_wakes w; expect_outcome out "blocked"
      end
    | [ "wake"; d; r ] ->
      let l = Option.value ~default:[] (Hashtbl.find_opt ctx.pending logger) in
      Hashtbl.replace ctx.pending logger (l @ [ (log_thread (thread_of d), wr_of_string r) ])
    | [ "receive"; t; "->"; r ] ->
      let out, w = do_step fuel ctx (OReceive (thread_of t)) in
      no_wakes w; expect_outcome out r
    | [ "remove"; t; k; _mode; _r; "->"; w1; tt; tw; o1; o2 ] ->
      let out, w = do_step fuel ctx (ORemove (thread_of t, key_of ctx k)) in
      no_wakes w;
      expect_outcome out
        (string_of_outcome
           (XRemoved { ss_id = owner_of o1 o2; ss_waiting = bool_of w1; ss_target = bool_of tt;
                       ss_twice = bool_of tw }))
    | [ "release_self"; t; k; "->"; "kept" ] ->
      let out, w = do_step fuel ctx (OReleaseSelf (thread_of t, key_of ctx k)) in
      no_wakes w; expect_outcome out "kept"
    | [ "release_self"; t; k; "->"; "removed"; w1; tt; tw; o1; o2 ] ->
      let out, w = do_step fuel ctx (OReleaseSelf (thread_of t, key_of ctx k)) in
      no_wakes w;
      expect_outcome out
        (string_of_outcome
           (XRemoved { ss_id = owner_of o1 o2; ss_waiting = bool_of w1; ss_target = bool_of tt;
                       ss_twice = bool_of tw }))
    | [ "mark"; t; k; "->"; o1; o2 ] ->
      let out, w = do_step fuel ctx (OMarkTarget (thread_of t, key_of ctx k)) in
      no_wakes w; expect_outcome out (o1 ^ " " ^ (if o1 = "thread" then string_of_int (int_of_n (thread_of o2)) else o2))
    | [ "syncstate"; t; k; w1; tt; tw ] ->
      (* the sync entry as left by ClaimGuard::transfer; compared after the model's OTransfer *)
      Hashtbl.replace pending_sync t (key_of ctx k, bool_of w1, bool_of tt, bool_of tw)
    | [ "transfer"; t; k; k'; o1; o2; "->"; b ] ->
      let tn = thread_of t in
      let kn = key_of ctx k and kn' = key_of ctx k' in
      let before = ctx.st.dg in
      let nkeys = Hashtbl.length ctx.keys in
      let out, w = do_step fuel ctx (OTransfer (tn, kn, kn', owner_of o1 o2)) in
      (match Hashtbl.find_opt pending_sync t with
       | Some (pk, pw, pt, ptw) when pk = kn ->
         Hashtbl.remove pending_sync t;
         (match ctx.st.sync kn with
          | Some st ->
            if st.ss_waiting <> pw || st.ss_target <> pt || st.ss_twice <> ptw then
              fail "transfer: sync entry differs: logged waiting=%b target=%b twice=%b, model waiting=%b target=%b twice=%b"
                pw pt ptw st.ss_waiting st.ss_target st.ss_twice
          | None -> fail "transfer: model has no sync entry for the transferred key")
       | _ -> ());
      (* which branch of transfer_lock was that? *)
      (match before.transferred kn with
       | None -> hit "transfer:vacant"
       | Some (_, old) ->
         if old = kn' && before.transferred kn = ctx.st.dg.transferred kn then hit "transfer:occupied-same"
         else begin
           hit "transfer:occupied";
           let rerooted = ref false in
           for i = 1 to nkeys do
             let x = n_of_int i in
             if x <> kn && before.transferred x <> ctx.st.dg.transferred x then rerooted := true
           done;
           if !rerooted then hit "transfer:occupied-rerooted"
         end);
      if w <> [] then hit "transfer:woke-new-owner";
      if b = "1" then hit "transfer:self-block";
      check_wakes ctx logger w; expect_outcome out b;
      if b = "1" then Hashtbl.replace ctx.self_blocked (log_thread tn) ()
    | [ "undo_transfer"; t; k ] ->
      let out, w = do_step fuel ctx (OUndoTransfer (thread_of t, key_of ctx k)) in
      check_wakes ctx logger w; expect_outcome out "()"
    | [ "unblock"; t; k; r ] ->
      let out, w = do_step fuel ctx (OUnblock (thread_of t, key_of ctx k, wr_of_string r)) in
      check_wakes ctx logger w; expect_outcome out "()"
    | [ "unblock_transferred"; t; k; r ] ->
      let out, w =
        do_step fuel ctx (OUnblockTransferred (thread_of t, key_of ctx k, wr_of_string r)) in
      check_wakes ctx logger w; expect_outcome out "()"
    | _ -> fail "unparsable record"
    end
  | _ -> fail "unparsable record"

let replay_file fuel verbose (path : string) : (int, int * string) result =
  Hashtbl.reset pending_sync;
  let ctx = { st = init; keys = Hashtbl.create 16; pending = Hashtbl.create 8;
              self_blocked = Hashtbl.create 8; steps = 0 } in
  let ic = open_in path in
  let lineno = ref 0 in
  let res =
    try
      (try
         while true do
           let line = input_line ic in
           incr lineno;
           if verbose then prerr_endline line;
           process fuel ctx line
         done
       with End_of_file -> ());
      if Hashtbl.length ctx.pending > 0 then begin
        incr lineno; raise (Mismatch "wake records without an operation at end of trace")
      end;
      Ok ctx.steps
    with
    | Mismatch m -> Error (!lineno, m)
    | Failure m -> Error (!lineno, "parse error: " ^ m)
  in
  close_in ic;
  res

let rec collect path acc =
  if Sys.is_directory path then
    Array.fold_left (fun acc f -> collect (Filename.concat path f) acc) acc
      (let a = Sys.readdir path in Array.sort compare a; a)
  else path :: acc

let () =
  let fuel = ref 100000 and verbose = ref false and files = ref [] in
  let rec args = function
    | "--fuel" :: n :: r -> fuel := int_of_string n; args r
    | "--verbose" :: r -> verbose := true; args r
    | f :: r -> files := f :: !files; args r
    | [] -> ()
  in
  args (List.tl (Array.to_list Sys.argv));
  let files = List.rev (List.fold_left (fun acc f -> collect f acc) [] (List.rev !files)) in
  if files = [] then begin prerr_endline "usage: replay [--fuel N] [--verbose] FILE|DIR..."; exit 2 end;
  let fuel = nat_of_int !fuel in
  let ok = ref 0 and bad = ref 0 and steps = ref 0 in
  List.iter
    (fun f ->
       match replay_file fuel !verbose f with
       | Ok n -> incr ok; steps := !steps + n; Printf.printf "OK %d %s\n" n f
       | Error (l, m) -> incr bad; Printf.printf "MISMATCH line %d %s: %s\n" l f m)
    files;
  Printf.printf "TOTAL files=%d ok=%d mismatch=%d steps=%d\n" (List.length files) !ok !bad !steps;
  let l = Hashtbl.fold (fun k v acc -> (k, v) :: acc) cov [] in
  List.iter (fun (k, v) -> Printf.printf "COVERAGE %s %d\n" k v) (List.sort compare l);
  exit (if !bad > 0 then 1 else 0)


val negb : bool -> bool

type nat =
| O
| S of nat

val option_map : ('a1 -> 'a2) -> 'a1 option -> 'a2 option

val fst : ('a1 * 'a2) -> 'a1

val snd : ('a1 * 'a2) -> 'a2

val app : 'a1 list -> 'a1 list -> 'a1 list

val nth_error : 'a1 list -> nat -> 'a1 option

val last : 'a1 list -> 'a1 -> 'a1

val removelast : 'a1 list -> 'a1 list

type positive =
| XI of positive
| XO of positive
| XH

type n =
| N0
| Npos of positive

module Pos :
 sig
  val eqb : positive -> positive -> bool
 end

module N :
 sig
  val eqb : n -> n -> bool
 end

val updN : (n -> 'a1) -> n -> 'a1 -> n -> 'a1

type thread = n

type key = n

type wait_result =
| Completed
| Panicked
| Cancelled

type sync_owner =
| OThread of thread
| OTransferred

type sync_state = { ss_id : sync_owner; ss_waiting : bool; ss_target : 
                    bool; ss_twice : bool }

val ss_id : sync_state -> sync_owner

val ss_waiting : sync_state -> bool

val ss_target : sync_state -> bool

val ss_twice : sync_state -> bool

type dgraph = { edges : (thread -> (thread * key) option);
                qdeps : (key -> thread list);
                wres : (thread -> wait_result option);
                transferred : (key -> (thread * key) option);
                tdeps : (key -> key list option);
                notified : (thread * wait_result) list }

val edges : dgraph -> thread -> (thread * key) option

val qdeps : dgraph -> key -> thread list

val wres : dgraph -> thread -> wait_result option

val transferred : dgraph -> key -> (thread * key) option

val tdeps : dgraph -> key -> key list option

val notified : dgraph -> (thread * wait_result) list

type state = { sync : (key -> sync_state option); dg : dgraph }

val sync : state -> key -> sync_state option

val dg : state -> dgraph

val dg_init : dgraph

val init : state

type err =
| EFuel
| ESameThread
| EAlreadyBlocked
| EWouldCycle
| ENotBlocked
| ENoDependents
| ENoEdge
| EEdgeCycle
| ENewOwnerNotBlocked
| ENewOwnerNotDependent
| EDuplicateDependent
| EStillBlocked
| EKeyNotClaimed
| EClaimedTwice

type 'a r =
| ROk of 'a
| RErr of err

val bind : 'a1 r -> ('a1 -> 'a2 r) -> 'a2 r

val foldM : ('a2 -> 'a1 -> 'a2 r) -> 'a1 list -> 'a2 -> 'a2 r

val find_mapM : ('a1 -> 'a2 option r) -> 'a1 list -> 'a2 option r

val set_edges : dgraph -> (thread -> (thread * key) option) -> dgraph

val set_qdeps : dgraph -> (key -> thread list) -> dgraph

val set_wres : dgraph -> (thread -> wait_result option) -> dgraph

val set_transferred : dgraph -> (key -> (thread * key) option) -> dgraph

val set_tdeps : dgraph -> (key -> key list option) -> dgraph

val set_notified : dgraph -> (thread * wait_result) list -> dgraph

val set_sync : state -> (key -> sync_state option) -> state

val set_dg : state -> dgraph -> state

val mem : n -> n list -> bool

val position : n -> n list -> nat option

val swap_remove_at : nat -> n list -> n list

val set_remove : n -> n list -> n list

val depends_on_loop :
  nat -> (thread -> (thread * key) option) -> thread -> thread -> bool r

val depends_on : nat -> dgraph -> thread -> thread -> bool r

val add_edge : nat -> dgraph -> thread -> key -> thread -> dgraph r

val unblock_runtime : dgraph -> thread -> wait_result -> dgraph r

val unblock_runtimes_blocked_on : dgraph -> key -> wait_result -> dgraph r

val tdeps_remove : dgraph -> key -> key -> dgraph r

val unblock_recursive : nat -> dgraph -> key -> wait_result -> dgraph r

val undo_transfer_lock : dgraph -> key -> dgraph r

val unblock_transferred_queries_owned_by :
  nat -> dgraph -> key -> wait_result -> dgraph r

val resolve_loop :
  nat -> (key -> (thread * key) option) -> key option -> key -> thread ->
  thread r

val thread_id_of_transferred_query :
  nat -> dgraph -> key -> key option -> thread option r

val tdeps_push : dgraph -> key -> key -> dgraph r

val reroot : nat -> dgraph -> key -> key -> thread -> key -> key -> dgraph r

val find_index : nat -> dgraph -> thread -> thread list -> nat -> nat option r

val find_blocked_thread :
  nat -> dgraph -> key -> thread -> (key * nat) option r

val unblock_transfer_target : nat -> dgraph -> key -> thread -> dgraph r

val rewrite_edge : nat -> thread -> dgraph -> thread -> dgraph r

val update_transferred_edges : nat -> dgraph -> key -> thread -> dgraph r

val transfer_finish :
  nat -> dgraph -> key -> thread -> key -> thread -> bool -> (dgraph * bool) r

val new_owner_thread_of :
  nat -> dgraph -> key -> key -> sync_owner -> thread r

val transfer_lock :
  nat -> dgraph -> key -> thread -> key -> sync_owner -> (dgraph * bool) r

type block_result =
| BBlocked
| BCycle

val block_on :
  nat -> dgraph -> thread -> key -> thread -> (dgraph * block_result) r

val receive : dgraph -> thread -> (dgraph * wait_result option) r

type release_mode =
| MDefault
| MSelfOnly

type claim_result =
| CClaimed of release_mode
| CRunning of thread
| CCycle of bool

val fresh_sync : thread -> sync_state

val set_waiting : sync_state -> sync_state

val runtime_block : nat -> dgraph -> thread -> thread -> claim_result r

type block_transferred_result =
| BTImTheOwner
| BTOwnedBy of thread
| BTReleased

val block_transferred :
  nat -> dgraph -> key -> thread -> block_transferred_result r

val try_claim :
  nat -> bool -> state -> thread -> key -> bool -> (state * claim_result) r

val mark_as_transfer_target : state -> key -> state * sync_owner option

val sync_remove : state -> key -> (state * sync_state) r

val release_self : state -> key -> (state * sync_state option) r

val transfer :
  nat -> state -> thread -> key -> key -> sync_owner -> (state * bool) r

type op =
| OClaim of thread * key * bool
| OPeek of thread * key * bool
| OBlockOn of thread * key * thread
| OReceive of thread
| ORemove of thread * key
| OReleaseSelf of thread * key
| OMarkTarget of thread * key
| OTransfer of thread * key * key * sync_owner
| OUndoTransfer of thread * key
| OUnblock of thread * key * wait_result
| OUnblockTransferred of thread * key * wait_result

type outcome =
| XClaim of claim_result
| XBlock of block_result
| XReceive of wait_result option
| XRemoved of sync_state
| XSelfKept
| XMarked of sync_owner option
| XTransfer of bool
| XUnit

val step : nat -> state -> op -> (state * outcome) r

val release_script : thread -> key -> sync_state -> wait_result -> op list

val run : nat -> op list -> state -> state r

val runningb : dgraph -> thread -> bool

val owned_byb : state -> key -> thread -> bool

val treaches : nat -> (key -> (thread * key) option) -> key -> key -> bool r

val preb : nat -> state -> op -> bool

#!/bin/sh
# Builds the trace replay driver from the Coq-extracted model.
#   proto_model.ml(i) are produced by coq/Proto/Extract.v (part of the normal Coq build).
# Output: /verif/.build/ocaml-proto/replay
set -eu
here=$(cd "$(dirname "$0")" && pwd)
out=${1:-/verif/.build/ocaml-proto}
mkdir -p "$out"
cp "$here/proto_model.mli" "$here/proto_model.ml" "$here/replay.ml" "$out/"
cd "$out"
ocamlfind ocamlopt -O2 -w -a -c proto_model.mli 2>/dev/null || ocamlfind ocamlopt -w -a -c proto_model.mli
ocamlfind ocamlopt -w -a -c proto_model.ml
ocamlfind ocamlopt -w +a-4-9-40-41-42-44-45-70 -c replay.ml
ocamlfind ocamlopt -o replay proto_model.cmx replay.cmx
echo "built $out/replay"

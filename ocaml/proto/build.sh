#!/bin/sh
# Re-extracts the Proto model (coq/Proto/Extract.v, needs coq/Proto/Model.vo from the main
# build) and builds the trace replay driver.  Output: /verif/.build/ocaml-proto/replay
set -eu
here=$(cd "$(dirname "$0")" && pwd)
root=$(cd "$here/../.." && pwd)
out=$root/.build/ocaml-proto
mkdir -p "$out"
cd "$out"
rm -f proto_model.ml proto_model.mli *.cm* *.o
sed 's#"/verif/ocaml/proto/proto_model.ml"#"proto_model.ml"#' "$root/coq/Proto/Extract.v" > Extract.v
timeout 600 coqc -Q "$root/coq" Salsa -o "$out/Extract.vo" Extract.v > extract.log 2>&1
cp "$here/replay.ml" .
ocamlfind ocamlopt -w -a -c proto_model.mli
ocamlfind ocamlopt -w -a -c proto_model.ml
ocamlfind ocamlopt -w -a -c replay.ml
ocamlfind ocamlopt -o replay proto_model.cmx replay.cmx
echo "built $out/replay"

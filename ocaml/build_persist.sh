#!/bin/sh
# Extract the Persist model and build the OCaml driver into /verif/.build/ocaml-persist
# (VERIF_COQ overrides the directory holding the compiled .vo files; default /verif/coq)
set -e
ROOT=$(cd "$(dirname "$0")/.." && pwd)
COQD=${VERIF_COQ:-$ROOT/coq}
B=$ROOT/.build/ocaml-persist
mkdir -p "$B"
cd "$B"
rm -f *.ml *.mli *.cm* *.o
timeout 600 coqc -Q "$COQD" Salsa -o "$B/ExtractPersist.vo" "$COQD/ExtractPersist.v" > extract.log 2>&1
cp "$ROOT/ocaml/persist_driver.ml" .
ocamlfind ocamlopt -w -a -o persist_driver $(ocamlfind ocamldep -sort *.mli *.ml)

(* persist_driver.ml — runs the extracted Persist model (persist-mode Core + snapshot/restore)
   and the from-scratch specification
   on cases read from a file, one s-expression per line, and prints one observation
   record per operation.  Glue only: parsing, int<->N conversion, printing. *)
open BinNums

let rec pos_of_int n =
  if n <= 1 then Coq_xH
  else if n land 1 = 0 then Coq_xO (pos_of_int (n lsr 1))
  else Coq_xI (pos_of_int (n lsr 1))
let n_of_int n = if n <= 0 then N0 else Npos (pos_of_int n)
let rec int_of_pos = function
  | Coq_xH -> 1 | Coq_xO p -> 2 * int_of_pos p | Coq_xI p -> 2 * int_of_pos p + 1
let int_of_n = function N0 -> 0 | Npos p -> int_of_pos p
let rec nat_of_int n = if n <= 0 then Datatypes.O else Datatypes.S (nat_of_int (n - 1))

(* ---- s-expressions ---- *)
type sx = A of string | L of sx list

let parse (s : string) : sx =
  let n = String.length s in
  let pos = ref 0 in
  let rec skip () = if !pos < n && (s.[!pos] = ' ' || s.[!pos] = '\t' || s.[!pos] = '\n') then (incr pos; skip ()) in
  let rec item () =
    skip ();
    if !pos >= n then failwith "eof"
    else if s.[!pos] = '(' then begin
      incr pos;
      let items = ref [] in
      let rec loop () =
        skip ();
        if !pos >= n then failwith "unclosed"
        else if s.[!pos] = ')' then incr pos
        else (items := item () :: !items; loop ()) in
      loop (); L (Stdlib.List.rev !items)
    end else begin
      let st = !pos in
      while !pos < n && s.[!pos] <> ' ' && s.[!pos] <> '(' && s.[!pos] <> ')' && s.[!pos] <> '\n' do incr pos done;
      A (String.sub s st (!pos - st))
    end in
  item ()

let atom = function A s -> s | L _ -> failwith "atom expected"
let int_of = function A s -> int_of_string s | L _ -> failwith "int expected"
let nn x = n_of_int (int_of x)

let binop_of = function
  | "add" -> Dsl.BAdd | "sub" -> Dsl.BSub | "min" -> Dsl.BMin | "max" -> Dsl.BMax
  | "and" -> Dsl.BAnd | "or" -> Dsl.BOr | "eq" -> Dsl.BEq | "lt" -> Dsl.BLt | "shr" -> Dsl.BShr
  | s -> failwith ("binop " ^ s)

let rec expr_of (x : sx) : Dsl.expr =
  match x with
  | L [A "lit"; v] -> Dsl.ELit (nn v)
  | L [A "in"; i; f] -> Dsl.EInp (nn i, nn f)
  | L [A "call"; fam; k] -> Dsl.ECall (nn fam, expr_of k)
  | L [A "cell"; c] -> Dsl.ECell (nn c)
  | L [A "touch"] -> Dsl.ETouch
  | L [A "panicif"; c] -> Dsl.EPanicIf (nn c)
  | L [A "op"; A o; a; b] -> Dsl.EOp (binop_of o, expr_of a, expr_of b)
  | L [A "if"; c; a; b] -> Dsl.EIf (expr_of c, expr_of a, expr_of b)
  | _ -> failwith "expr"

let op_of (x : sx) : Model.op =
  match x with
  | L [A "set"; i; f; v] -> Model.OSet ((nn i, nn f), nn v, None)
  | L [A "set"; i; f; v; d] -> Model.OSet ((nn i, nn f), nn v, Some (nn d))
  | L [A "synth"; d] -> Model.OSynth (nn d)
  | L [A "setcell"; c; v] -> Model.OSetCell (nn c, nn v)
  | L [A "setpanic"; c; v] -> Model.OSetPanic (nn c, nn v)
  | L [A "get"; fam; k] -> Model.OGet (nn fam, nn k)
  | L [A "setlru"; fam; n] -> Model.OSetLru (nn fam, nn n)
  | L [A "evict"] -> Model.OEvict
  | L [A "snapshot"] -> Model.OSnapshot
  | L [A "restore"] -> Model.ORestore
  | _ -> failwith "op"

let find_section name items =
  let rec go = function
    | [] -> []
    | L (A n :: rest) :: _ when n = name -> rest
    | _ :: tl -> go tl in
  go items

let str_edge = function
  | Model.EIn (i, f) -> Printf.sprintf "i.%d.%d" (int_of_n i) (int_of_n f)
  | Model.EQ (fam, k) -> Printf.sprintf "q.%d.%d" (int_of_n fam) (int_of_n k)

let run_case (line : string) =
  match parse line with
  | L (A "case" :: A id :: items) ->
    let cfg = find_section "cfg" items in
    let geti name dflt =
      match find_section name cfg with [v] -> int_of v | _ -> dflt in
    let nk = geti "nk" 1 and ni = geti "ni" 1 and nf = geti "nf" 3 and ncell = geti "ncell" 2 in
    let nfam = geti "nfam" 3 in
    let lru_decl = Stdlib.List.filter_map (function L [A "lru"; fam; cap] -> Some (int_of fam, int_of cap) | _ -> None) cfg in
    let tri = Stdlib.List.filter_map (function L [i; f; v] -> Some ((int_of i, int_of f), int_of v) | _ -> None) in
    let ival = tri (find_section "ival" items) and idur = tri (find_section "idur" items) in
    let nodes = Stdlib.List.map (function
        | L [A "node"; fam; k; e] -> ((nn fam, nn k), expr_of e)
        | _ -> failwith "node") (find_section "prog" items) in
    let ops = Stdlib.List.map op_of (find_section "hist" items) in
    let prog = Dsl.prog_of (n_of_int nk) nodes in
    let noeq (fam, _) = int_of_n fam = 2 in
    let pfam fam = int_of_n fam < 2 in                   (* families 0 (plain) and 1 (lru) are `persist` *)
    let fams = Stdlib.List.map (fun (f, _) -> n_of_int f) lru_decl in
    let lookup tbl k = try Stdlib.List.assoc k tbl with Not_found -> 0 in
    let iv (i, f) = n_of_int (lookup ival (int_of_n i, int_of_n f)) in
    let idr (i, f) = n_of_int (lookup idur (int_of_n i, int_of_n f)) in
    let lru0 fam =
      match Stdlib.List.assoc_opt (int_of_n fam) lru_decl with
      | Some c -> Model.lru_set_capacity { Model.lru_cap = None; Model.lru_set = [] } (n_of_int c)
      | None -> { Model.lru_cap = None; Model.lru_set = [] } in
    let fuel = nat_of_int (nfam * nk + 3) in
    let sfuel = nat_of_int (nfam * (nk + 1) + 3) in
    let s = ref (Model.pinit iv idr lru0) in
    Printf.printf "CASE %s\n" id;
    Stdlib.List.iteri (fun idx o ->
        let loglen = Stdlib.List.length !s.Model.ps_db.Model.d_log in
        let (p', r) = Model.step prog noeq pfam fams lru0 sfuel fuel !s o in
        (* glue: the serialised memo table is a closure over the whole state it was taken from;
           tabulate it over the finite key range of the case so that chains of snapshot/restore
           do not nest closures (keys outside the range never have memos) *)
        let p' = match o, p'.Model.ps_img with
          | Model.OSnapshot, Some img ->
            let tbl = Hashtbl.create 64 in
            for fam = 0 to nfam - 1 do for k = 0 to nk do
                match img.Model.i_memo (n_of_int fam, n_of_int k) with
                | Some m -> Hashtbl.replace tbl (fam, k) m
                | None -> ()
              done done;
            let g (fam, k) = Hashtbl.find_opt tbl (int_of_n fam, int_of_n k) in
            { p' with Model.ps_img = Some { img with Model.i_memo = g } }
          | _ -> p' in
        s := p';
        let s' = p'.Model.ps_db in
        (match r with
         | Model.POk v -> Printf.printf "R %d ret %d\n" idx (int_of_n v)
         | Model.PPanic p -> Printf.printf "R %d panic %d\n" idx (int_of_n (Model.ppanic_code p))
         | Model.PFuel -> Printf.printf "R %d fuel\n" idx);
        (* persisted memos whose flattening expanded a dependency with untracked reads (serialised as
           untracked since /repo e43c20c); informational, not compared *)
        (match o with
         | Model.OSnapshot ->
           let lost = ref [] in
           for fam = 0 to nfam - 1 do for k = 0 to nk do
               let q = (n_of_int fam, n_of_int k) in
               match s'.Model.d_memo q with
               | Some m when pfam (n_of_int fam) && m.Model.m_val <> None ->
                 if Model.lost_untracked pfam s'.Model.d_memo sfuel m.Model.m_edges then
                   lost := Printf.sprintf "%d.%d" fam k :: !lost
               | _ -> ()
             done done;
           Printf.printf "L %d lost=%s\n" idx (String.concat "," (Stdlib.List.rev !lost))
         | _ -> ());
        (* events of this op, oldest first *)
        let newlen = Stdlib.List.length s'.Model.d_log in
        let rec take n l = if n <= 0 then [] else match l with [] -> [] | x :: t -> x :: take (n - 1) t in
        let evs = Stdlib.List.rev (take (newlen - loglen) s'.Model.d_log) in
        Printf.printf "E %d%s\n" idx
          (String.concat "" (Stdlib.List.map (function
               | Model.EvExec (f, k) -> Printf.sprintf " x:%d.%d" (int_of_n f) (int_of_n k)
               | Model.EvValidate (f, k) -> Printf.sprintf " v:%d.%d" (int_of_n f) (int_of_n k)) evs));
        (* specification column for reads *)
        (match o with
         | Model.OGet q ->
           (match Spec.evalo prog fuel (Spec.snap_of s') q with
            | Some v -> Printf.printf "V %d ret %d\n" idx (int_of_n v)
            | None -> Printf.printf "V %d cycle\n" idx)
         | _ -> ());
        (* state *)
        let r = s'.Model.d_revs in
        let b = Buffer.create 256 in
        Buffer.add_string b (Printf.sprintf "S %d revs=%d,%d,%d cc=%d in=" idx
                               (int_of_n r.CoreK.r_cur) (int_of_n r.CoreK.r_med) (int_of_n r.CoreK.r_high)
                               (int_of_n s'.Model.d_ccount));
        for i = 0 to ni - 1 do for f = 0 to nf - 1 do
            let fl = s'.Model.d_in (n_of_int i, n_of_int f) in
            Buffer.add_string b (Printf.sprintf "%d.%d:%d:%d:%d;" i f (int_of_n fl.Model.f_val)
                                   (int_of_n fl.Model.f_changed) (int_of_n fl.Model.f_dur))
          done done;
        Buffer.add_string b " memo=";
        for fam = 0 to nfam - 1 do for k = 0 to nk do
            match s'.Model.d_memo (n_of_int fam, n_of_int k) with
            | None -> ()
            | Some m ->
              Buffer.add_string b (Printf.sprintf "%d.%d:%d:%d:%d:%d:%d:[%s];" fam k
                                     (match m.Model.m_val with Some _ -> 1 | None -> 0)
                                     (int_of_n m.Model.m_verified) (int_of_n m.Model.m_changed)
                                     (int_of_n m.Model.m_dur) (if m.Model.m_untracked then 1 else 0)
                                     (String.concat "," (Stdlib.List.map str_edge m.Model.m_edges)))
          done done;
        Buffer.add_string b " lru=";
        Stdlib.List.iter (fun (fam, _) ->
            let l = s'.Model.d_lru (n_of_int fam) in
            Buffer.add_string b (Printf.sprintf "%d:%d:[%s];" fam
                                   (match l.Model.lru_cap with Some c -> int_of_n c | None -> 0)
                                   (String.concat "," (Stdlib.List.map (fun k -> string_of_int (int_of_n k)) l.Model.lru_set))))
          lru_decl;
        ignore ncell;
        print_endline (Buffer.contents b))
      ops
  | _ -> failwith "case expected"

let () =
  let ic = if Array.length Sys.argv > 1 then open_in Sys.argv.(1) else stdin in
  (try
     while true do
       let line = input_line ic in
       if String.length line > 0 && line.[0] = '(' then
         (try run_case line with Failure m -> Printf.printf "ERROR %s\n" m)
     done
   with End_of_file -> ());
  flush stdout

(* cycle_driver.ml — runs the extracted Cycle model (and the specifications kleene /
   spec_fallback / evalo, and the per-run certificates) on cases read from a file, one
   s-expression per line, and prints one observation record per operation in the format of
   harness/src/cycle_harness.rs.  Glue only: parsing, int<->N conversion, printing.

   R i ret V | panic CODE | fuel      result of the operation
   E i x:F.K v:F.K i:F.K@IT f:F.K@IT  events (WillExecute, DidValidate, WillIterateCycle, DidFinalizeCycle)
   V i ret V | cycle                  specification column (only for reads, per (spec ..) of the case)
   C i 0|1                            per-run certificate on the model's state (spec kleene / fallback)
   B i N                              ghost: largest number of executions of one body in this operation
   M i F.K=V;...                      ghost: values held by the model's memos
   Y i F.K,...                        spec fallback: the nodes on a cycle of the input-determined call graph
   H 0|1                              spec kleene, once per case: the program is in the class mono_table
   S i ...                            state *)
open Cycle_model

let rec pos_of_int n =
  if n <= 1 then XH
  else if n land 1 = 0 then XO (pos_of_int (n lsr 1))
  else XI (pos_of_int (n lsr 1))
let n_of_int n = if n <= 0 then N0 else Npos (pos_of_int n)
let rec int_of_pos = function
  | XH -> 1 | XO p -> 2 * int_of_pos p | XI p -> 2 * int_of_pos p + 1
let int_of_n = function N0 -> 0 | Npos p -> int_of_pos p
let rec nat_of_int n = if n <= 0 then O else S (nat_of_int (n - 1))

(* ---- s-expressions ---- *)
type sx = A of string | L of sx list

let parse (s : string) : sx =
  let n = String.length s in
  let pos = ref 0 in
  let rec skip () = if !pos < n && (s.[!pos] = ' ' || s.[!pos] = '\t' || s.[!pos] = '\n') then (incr pos; skip ()) in
  let rec item () =
    skip ();
    if !pos >= n then failwith "eof"
    else if s.[!pos] = '(' then begin
      incr pos;
      let items = ref [] in
      let rec loop () =
        skip ();
        if !pos >= n then failwith "unclosed"
        else if s.[!pos] = ')' then incr pos
        else (items := item () :: !items; loop ()) in
      loop (); L (Stdlib.List.rev !items)
    end else begin
      let st = !pos in
      while !pos < n && s.[!pos] <> ' ' && s.[!pos] <> '(' && s.[!pos] <> ')' && s.[!pos] <> '\n' do incr pos done;
      A (String.sub s st (!pos - st))
    end in
  item ()

let int_of = function A s -> int_of_string s | L _ -> failwith "int expected"
let nn x = n_of_int (int_of x)

let binop_of = function
  | "add" -> BAdd | "sub" -> BSub | "min" -> BMin | "max" -> BMax
  | "and" -> BAnd | "or" -> BOr | "eq" -> BEq | "lt" -> BLt | "shr" -> BShr
  | s -> failwith ("binop " ^ s)

let rec expr_of (x : sx) : expr =
  match x with
  | L [A "lit"; v] -> ELit (nn v)
  | L [A "in"; i; f] -> EInp (nn i, nn f)
  | L [A "call"; fam; k] -> ECall (nn fam, expr_of k)
  | L [A "cell"; c] -> ECell (nn c)
  | L [A "touch"] -> ETouch
  | L [A "panicif"; c] -> EPanicIf (nn c)
  | L [A "op"; A o; a; b] -> EOp (binop_of o, expr_of a, expr_of b)
  | L [A "if"; c; a; b] -> EIf (expr_of c, expr_of a, expr_of b)
  | _ -> failwith "expr"

let op_of (x : sx) : cop =
  match x with
  | L [A "set"; i; f; v] -> COSet ((nn i, nn f), nn v, None)
  | L [A "set"; i; f; v; d] -> COSet ((nn i, nn f), nn v, Some (nn d))
  | L [A "synth"; d] -> COSynth (nn d)
  | L [A "setcell"; c; v] -> COSetCell (nn c, nn v)
  | L [A "setpanic"; c; v] -> COSetPanic (nn c, nn v)
  | L [A "get"; fam; k] -> COGet (nn fam, nn k)
  | L [A "evict"] -> COBump
  | _ -> failwith "op"

let find_section name items =
  let rec go = function
    | [] -> []
    | L (A n :: rest) :: _ when n = name -> rest
    | _ :: tl -> go tl in
  go items

let str_edge = function
  | EIn (i, f) -> Printf.sprintf "i.%d.%d" (int_of_n i) (int_of_n f)
  | EQ (fam, k) -> Printf.sprintf "q.%d.%d" (int_of_n fam) (int_of_n k)

let fallback_value = 0xA5

(* families: 0 plain, 1 fix, 2 fixjoin, 3 fallback, 4 nocycle *)
let strat fam = match int_of_n fam with
  | 1 -> SFix | 2 -> SFixJoin | 3 -> SFallback | _ -> SPanic
let cinit (fam, _) = if int_of_n fam = 3 then n_of_int fallback_value else N0

let run_case (line : string) =
  match parse line with
  | L (A "case" :: A id :: items) ->
    let cfg = find_section "cfg" items in
    let geti name dflt =
      match find_section name cfg with [v] -> int_of v | _ -> dflt in
    let gets name dflt =
      match find_section name cfg with [A v] -> v | _ -> dflt in
    let nk = geti "nk" 1 and ni = geti "ni" 1 and nf = geti "nf" 3 in
    let nfam = geti "nfam" 5 in
    let spec = gets "spec" "none" in
    let tri = Stdlib.List.filter_map (function L [i; f; v] -> Some ((int_of i, int_of f), int_of v) | _ -> None) in
    let ival = tri (find_section "ival" items) and idur = tri (find_section "idur" items) in
    let nodes = Stdlib.List.map (function
        | L [A "node"; fam; k; e] -> ((nn fam, nn k), expr_of e)
        | _ -> failwith "node") (find_section "prog" items) in
    let ops = Stdlib.List.map op_of (find_section "hist" items) in
    let prog = prog_of (n_of_int nk) nodes in
    let lookup tbl k = try Stdlib.List.assoc k tbl with Not_found -> 0 in
    let iv (i, f) = n_of_int (lookup ival (int_of_n i, int_of_n f)) in
    let idr (i, f) = n_of_int (lookup idur (int_of_n i, int_of_n f)) in
    let nnodes = nfam * nk in
    let fuel = nat_of_int (nnodes + 3) in
    let nodes_fuel = nat_of_int (nnodes + 2) in
    let all_nodes =
      Stdlib.List.concat (Stdlib.List.init nfam (fun fam ->
          Stdlib.List.init nk (fun k -> (n_of_int fam, n_of_int k)))) in
    let s = ref (cinit_db iv idr) in
    Printf.printf "CASE %s\n" id;
    (* spec kleene: does the program belong to the class for which C12_profile_programs_monotone
       proves the hypotheses of the lfp theorems? *)
    if spec = "kleene" then Printf.printf "H %d\n" (if mono_table nodes then 1 else 0);
    Stdlib.List.iteri (fun idx o ->
        let loglen = Stdlib.List.length !s.c_log in
        let runlen = Stdlib.List.length !s.c_runs in
        let (s', r) = cstep prog strat cinit nodes_fuel fuel !s o in
        s := s';
        (match r with
         | COk v -> Printf.printf "R %d ret %d\n" idx (int_of_n v)
         | CPanic p -> Printf.printf "R %d panic %d\n" idx (int_of_n (cpanic_code p))
         | CFuel -> Printf.printf "R %d fuel\n" idx);
        let rec take n l = if n <= 0 then [] else match l with [] -> [] | x :: t -> x :: take (n - 1) t in
        let evs = Stdlib.List.rev (take (Stdlib.List.length s'.c_log - loglen) s'.c_log) in
        Printf.printf "E %d%s\n" idx
          (String.concat "" (Stdlib.List.map (function
               | CEvExec (f, k) -> Printf.sprintf " x:%d.%d" (int_of_n f) (int_of_n k)
               | CEvValidate (f, k) -> Printf.sprintf " v:%d.%d" (int_of_n f) (int_of_n k)
               | CEvIterate ((f, k), it) -> Printf.sprintf " i:%d.%d@%d" (int_of_n f) (int_of_n k) (int_of_n it)
               | CEvFinalize ((f, k), it) -> Printf.sprintf " f:%d.%d@%d" (int_of_n f) (int_of_n k) (int_of_n it)) evs));
        (* specification column and certificate, for reads *)
        (match o with
         | COGet q ->
           let sn = csnap_of s' in
           (match spec with
            | "kleene" ->
              Printf.printf "V %d ret %d\n" idx (int_of_n (kleene prog sn all_nodes q));
              Printf.printf "C %d %d\n" idx (if is_fixpoint_state prog all_nodes s' then 1 else 0)
            | "fallback" ->
              Printf.printf "V %d ret %d\n" idx (int_of_n (spec_fallback prog sn cinit all_nodes q));
              Printf.printf "C %d %d\n" idx (if is_fallback_state prog cinit all_nodes s' then 1 else 0);
              Printf.printf "Y %d %s\n" idx
                (String.concat "," (Stdlib.List.map (fun (f, k) -> Printf.sprintf "%d.%d" (int_of_n f) (int_of_n k))
                                      (cyclic_nodes (succs prog sn) all_nodes)))
            | "evalo" ->
              (match evalo prog fuel sn q with
               | Some v -> Printf.printf "V %d ret %d\n" idx (int_of_n v)
               | None -> Printf.printf "V %d cycle\n" idx)
            | "diverge" ->
              (match evalo prog fuel sn q with
               | Some v -> Printf.printf "V %d ret %d\n" idx (int_of_n v)
               | None -> ());
              Printf.printf "C %d %d\n" idx (if is_fixpoint_state prog all_nodes s' then 1 else 0)
            | _ -> ())
         | _ -> ());
        (* ghost: body executions of this operation, per node; print the maximum *)
        let runs = take (Stdlib.List.length s'.c_runs - runlen) s'.c_runs in
        let tblr = Hashtbl.create 16 in
        Stdlib.List.iter (fun (f, k) ->
            let key = (int_of_n f, int_of_n k) in
            Hashtbl.replace tblr key (1 + (try Hashtbl.find tblr key with Not_found -> 0))) runs;
        Printf.printf "B %d %d\n" idx (Hashtbl.fold (fun _ v acc -> max v acc) tblr 0);
        (* ghost: the values held by the model's memos (the hook cannot print values) *)
        let mb = Buffer.create 64 in
        for fam = 0 to nfam - 1 do for k = 0 to nk - 1 do
            match s'.c_memo (n_of_int fam, n_of_int k) with
            | Some { cm_val = Some v } -> Buffer.add_string mb (Printf.sprintf "%d.%d=%d;" fam k (int_of_n v))
            | _ -> ()
          done done;
        Printf.printf "M %d %s\n" idx (Buffer.contents mb);
        (* state *)
        let r = s'.c_revs in
        let b = Buffer.create 256 in
        Buffer.add_string b (Printf.sprintf "S %d revs=%d,%d,%d cc=%d in=" idx
                               (int_of_n r.r_cur) (int_of_n r.r_med) (int_of_n r.r_high)
                               (int_of_n s'.c_ccount));
        for i = 0 to ni - 1 do for f = 0 to nf - 1 do
            let fl = s'.c_in (n_of_int i, n_of_int f) in
            Buffer.add_string b (Printf.sprintf "%d.%d:%d:%d:%d;" i f (int_of_n fl.f_val)
                                   (int_of_n fl.f_changed) (int_of_n fl.f_dur))
          done done;
        Buffer.add_string b " memo=";
        for fam = 0 to nfam - 1 do for k = 0 to nk - 1 do
            match s'.c_memo (n_of_int fam, n_of_int k) with
            | None -> ()
            | Some m ->
              let it = iter_of m in
              Buffer.add_string b (Printf.sprintf "%d.%d:%d:%d:%d:%d:%d:[%s]:%d:%d:%d:[%s]:%d;" fam k
                                     (match m.cm_val with Some _ -> 1 | None -> 0)
                                     (int_of_n m.cm_verified) (int_of_n m.cm_changed)
                                     (int_of_n m.cm_dur) (if m.cm_untracked then 1 else 0)
                                     (String.concat "," (Stdlib.List.map str_edge m.cm_edges))
                                     (if m.cm_final then 1 else 0)
                                     (int_of_n (stamp_iteration it)) (int_of_n (stamp_ccount it))
                                     (String.concat "," (Stdlib.List.map (fun ((hf, hk), hit) ->
                                          Printf.sprintf "%d.%d@%d" (int_of_n hf) (int_of_n hk)
                                            (int_of_n (stamp_iteration hit))) (raw_heads m)))
                                     (if conv_of m then 1 else 0))
          done done;
        (* hook H7 fields: sync table entries and the transferred map, sorted as strings *)
        let sy = ref [] in
        for fam = 0 to nfam - 1 do for k = 0 to nk - 1 do
            match s'.c_sync (n_of_int fam, n_of_int k) with
            | None -> ()
            | Some y ->
              sy := Printf.sprintf "%d.%d:%s:%d:%d:%d;" fam k (if y.sy_trans then "t" else "m")
                  (if y.sy_wait then 1 else 0) (if y.sy_target then 1 else 0) (if y.sy_twice then 1 else 0) :: !sy
          done done;
        Stdlib.List.iter (fun ((f1, k1), (f2, k2)) ->
            sy := Printf.sprintf "%d.%d->%d.%d:tr;" (int_of_n f1) (int_of_n k1) (int_of_n f2) (int_of_n k2) :: !sy)
          s'.c_trans;
        Buffer.add_string b " sync=";
        Stdlib.List.iter (Buffer.add_string b) (Stdlib.List.sort compare !sy);
        print_endline (Buffer.contents b))
      ops
  | _ -> failwith "case expected"

let () =
  let ic = if Array.length Sys.argv > 1 then open_in Sys.argv.(1) else stdin in
  (try
     while true do
       let line = input_line ic in
       if String.length line > 0 && line.[0] = '(' then
         (try run_case line with Failure m -> Printf.printf "ERROR %s\n" m)
     done
   with End_of_file -> ());
  flush stdout

#!/bin/sh
# Extract the Structs model (+ specification, DSL) and build the OCaml driver into
# /verif/.build/ocaml-structs.  COQROOT (default /verif/coq) must hold the compiled
# Structs/{Model,Spec,Dsl}.vo.
set -e
ROOT=$(cd "$(dirname "$0")/.." && pwd)
COQROOT=${COQROOT:-$ROOT/coq}
B=$ROOT/.build/ocaml-structs
mkdir -p "$B"
cd "$B"
rm -f *.ml *.mli *.cm* *.o
timeout 600 coqc -Q "$COQROOT" Salsa -o "$B/ExtractStructs.vo" "$COQROOT/ExtractStructs.v" > extract.log 2>&1
cp "$ROOT/ocaml/structs_driver.ml" .
ocamlfind ocamlopt -w -a -o structs_driver $(ocamlfind ocamldep -sort *.mli *.ml)

#!/bin/sh
# Extract the lifetime machine (coq/Life/Model.v via coq/Life/Extract.v, ExtrOcamlBasic only) and
# build the trace replayer into /verif/.build/ocaml-life/replay.
#   usage: ocaml/life/build.sh [ROOT]        (ROOT defaults to the directory above ocaml/)
# Compiles the few files the model needs in a private copy under the build directory, so that a
# stale or concurrent build of /verif/coq cannot interfere (never writes into coq/).
set -e
ROOT=${1:-$(cd "$(dirname "$0")/../.." && pwd)}
COQSRC=${COQROOT:-$ROOT/coq}
B=$ROOT/.build/ocaml-life
mkdir -p "$B"
cd "$B"
rm -f *.ml *.mli *.cm* *.o replay
rm -rf "$B/coq" && mkdir -p "$B/coq/Life" "$B/coq/Alloc" "$B/coq/gen" "$B/coq/Kern"
FILES="Base.v gen/Kernels.v Kern/KBits.v Kern/K5_Id.v Kern/K6_Page.v
       Alloc/PageKGen.v Life/Model.v"
for f in $FILES; do cp "$COQSRC/$f" "$B/coq/$f"; done
: > "$B/coqc.log"
for f in $FILES; do
  ( cd "$B/coq" && timeout 600 coqc -Q . Salsa "$f" ) >> "$B/coqc.log" 2>&1 || { tail -20 "$B/coqc.log"; exit 1; }
done
timeout 600 coqc -Q "$B/coq" Salsa -o "$B/Extract.vo" "$COQSRC/Life/Extract.v" > extract.log 2>&1 || { tail -20 extract.log; exit 1; }
cp "$ROOT/ocaml/life/replay.ml" .
ocamlfind ocamlopt -w -a -o replay life_model.mli life_model.ml replay.ml
echo "built $B/replay"

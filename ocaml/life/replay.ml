(* replay.ml — replays the lifetime traces printed by /verif/harness-life (hook H4,
   salsa::verif_life) through the machine extracted from coq/Life/Model.v.

     replay [--verbose] FILE...   ->  one "MISMATCH case=<n> line=<k> <text>" per diverging case,
                                      "COVERAGE <what> <count>" lines, then
                                      "OK <cases> <events>"  or  "FAIL <bad> <cases> <events>"

   Every hook line is turned into the machine operation it reports (table below) and the
   machine's outcome is compared with what the implementation did:

     ppush P I          OPushPage I                  -> page P
     snew K S I         ONewSlot K (page of S)       -> location S
     inew S L U I       ONewSlot KInterned ..        -> location S, stamp L (if reusable)
     sset S             OSetInput S                  (the preceding newrev emptied the references)
     supdate S G C      OUpdateStruct S C            -> the write-lock branch
     sdelete S G        ODeleteEntity S              -> completes; its frees become pending
     sfree S G          (S is at the back of the model's free list)
     sreuse S G N       OReuseStruct (ingredient of S) -> location S / leaked
     ihit S G L U       OInternHit S                 -> stamp L, reusable U
     imca S G C L       OInternMca S G               -> changed C, stamp L
     ireuse S G N L U   OInternReuse S               -> ACCEPTED (reusable, stale by the translated
                                                        is_stale on the model's queue); frees pending
     alloc M S F V      OInsertMemo S F              -> cell M, not refused (interned contract)
     retire M           (cell M is Retired in the model)
     handout M S F      OFetchMemo S F               -> a reference to cell M
     fhandout K S       OReadField S                 -> a reference to the fields of S
     newrev R .. newrev_end      ONewRevision (the `evict` lines in between) -> revision R
     evictlru .. evictlru_end    OEvictLru    (the `evict` lines in between)
     evict M            (cell M has no value any more, and is not freed)
     free M W           M must be PENDING: freed by the model, not yet by the implementation;
                        and no outstanding model reference denotes M
     zdrop_begin        ODropDb
     zdrop_end          nothing pending; every cell Freed exactly once; no error flag
     h reval n bad      OReadRef on every outstanding reference: none reads a freed cell / dropped
                        fields, every value is the recorded one

   `pending` is the set of cells the model has freed and the implementation has not yet reported;
   it must be empty at every synchronisation point (h get, h reval, newrev, newrev_end, evictlru,
   evictlru_end, zdrop_end).  A real `free` that is not pending is a premature or double free; a
   cell still pending at a synchronisation point is a leak (or a transcription error).
   The error flag `l_err` and the free counters are checked after every operation. *)
open Life_model

let rec pos_of_int (i : int) : positive =
  if i = 1 then XH
  else if i land 1 = 0 then XO (pos_of_int (i lsr 1))
  else XI (pos_of_int (i lsr 1))

let n_of_int (i : int) : n =
  if i < 0 then failwith "negative number" else if i = 0 then N0 else Npos (pos_of_int i)

let rec int_of_pos = function
  | XH -> 1
  | XO p -> 2 * int_of_pos p
  | XI p -> 2 * int_of_pos p + 1

let int_of_n = function N0 -> 0 | Npos p -> int_of_pos p

let rec nat_of_int (i : int) : nat = if i <= 0 then O else S (nat_of_int (i - 1))

exception Mismatch of string

let fail fmt = Printf.ksprintf (fun s -> raise (Mismatch s)) fmt

let coverage : (string, int) Hashtbl.t = Hashtbl.create 64
let cover k = Hashtbl.replace coverage k (1 + try Hashtbl.find coverage k with Not_found -> 0)

let verbose = ref false

let kind_of_int = function
  | 0 -> KInput
  | 1 -> KTracked
  | 2 -> KInterned
  | k -> fail "unknown slot kind %d" k

let out_str = function
  | LOk (r, v) ->
      Printf.sprintf "LOk(%s,%s)"
        (match r with Some x -> string_of_int (int_of_n x) | None -> "-")
        (match v with Some x -> string_of_int (int_of_n x) | None -> "-")
  | LPanic c -> Printf.sprintf "LPanic %d" (int_of_n c)
  | LRefused c -> Printf.sprintf "LRefused %d" (int_of_n c)

(* ---------------- one case ---------------- *)

type case_state = {
  mutable st : lstate;
  pending : (int, unit) Hashtbl.t;
  mutable events : int;
}

let cell cs m = l_cells cs.st (n_of_int m)
let slot cs s = l_slots cs.st (n_of_int s)

let check_flags cs what =
  if l_err cs.st then fail "%s: the model's memory-error flag is set" what

let apply cs (o : lop) : lout =
  let before = int_of_n (l_ncells cs.st) in
  (* cells that are not freed before the step *)
  let alive = ref [] in
  for c = 0 to before - 1 do
    match cell cs c with
    | Some cl when (match c_state cl with Freed -> false | _ -> true) -> alive := c :: !alive
    | _ -> ()
  done;
  let st', out = lstep cs.st o in
  cs.st <- st';
  List.iter
    (fun c ->
      match cell cs c with
      | Some cl ->
          (match c_state cl with
           | Freed ->
               if int_of_n (c_frees cl) <> 1 then fail "cell %d freed %d times" c (int_of_n (c_frees cl));
               Hashtbl.replace cs.pending c ()
           | _ -> ())
      | None -> fail "cell %d vanished" c)
    !alive;
  check_flags cs "after the step";
  out

let expect_ok what out =
  match out with
  | LOk (r, v) -> (r, v)
  | _ -> fail "%s: the model answers %s" what (out_str out)

let expect_loc what out s =
  match expect_ok what out with
  | Some j, _ when int_of_n j = s -> ()
  | _ -> fail "%s: the model answers %s, the implementation used %d" what (out_str out) s

let pending_empty cs what =
  if Hashtbl.length cs.pending > 0 then begin
    let l = Hashtbl.fold (fun k () acc -> string_of_int k :: acc) cs.pending [] in
    fail "%s: cells %s were freed by the model but not by the implementation (leak or transcription error)"
      what (String.concat "," l)
  end

let refs_to_cell cs m =
  List.exists (fun r -> match r_tgt r with TCell c -> int_of_n c = m | TField _ -> false) (l_refs cs.st)

let stamp_of cs s =
  match slot cs s with
  | Some sl -> (match s_stamp sl with Some l -> int_of_n l | None -> -1)
  | None -> -2

let reusable_of cs s = match slot cs s with Some sl -> s_reusable sl | None -> false

(* stamps above 2^62 (Revision::max of a value interned outside a query) do not fit an OCaml int
   as decimal text in all cases; compare only when the value is reusable *)
let int_of_dec (s : string) : int = try int_of_string s with _ -> max_int

let rec evicts_until (lines : string array) (i : int) (stop : string) acc =
  if i >= Array.length lines then List.rev acc
  else
    match String.split_on_char ' ' lines.(i) with
    | [ s ] when s = stop -> List.rev acc
    | [ "evict"; m ] -> evicts_until lines (i + 1) stop (int_of_string m :: acc)
    | _ -> evicts_until lines (i + 1) stop acc

let evs_of cs ms =
  List.map
    (fun m ->
      match cell cs m with
      | Some cl -> ((c_slot cl, c_fn cl), true)
      | None -> fail "evict of unknown memo %d" m)
    ms

let replay_case (lines : string array) (qlens : (int, int) Hashtbl.t) (ntypes : int) : int =
  let qlen g = nat_of_int (try Hashtbl.find qlens (int_of_n g) with Not_found -> 0) in
  let cs = { st = linit (n_of_int ntypes) qlen; pending = Hashtbl.create 16; events = 0 } in
  let n0 = n_of_int 0 in
  Array.iteri
    (fun idx line ->
      let w = String.split_on_char ' ' line in
      (try
         (match w with
          | "h" :: "get" :: _ -> pending_empty cs "h get"
          | "h" :: "reval" :: n :: _ ->
              pending_empty cs "h reval";
              let refs = l_refs cs.st in
              List.iteri
                (fun k r ->
                  match apply cs (OReadRef (nat_of_int k)) with
                  | LOk (_, Some v) ->
                      if int_of_n v <> int_of_n (r_val r) then fail "reference %d changed its value" k
                  | o -> fail "reference %d: %s" k (out_str o))
                refs;
              cover "reval:refs-reread";
              ignore n
          | "h" :: "panicked" :: _ -> cover "h:panicked"
          | "h" :: "cancelled" :: _ -> cover "h:cancelled"
          | "h" :: _ -> ()
          | [ "ppush"; p; i ] ->
              let out = apply cs (OPushPage (n_of_int (int_of_string i))) in
              expect_loc "ppush" out (int_of_string p)
          | [ "snew"; k; s; _i ] ->
              let s = int_of_string s in
              let out = apply cs (ONewSlot (kind_of_int (int_of_string k), n_of_int (s lsr 7), n0, false)) in
              expect_loc "snew" out s
          | [ "inew"; s; l; u; _i ] ->
              let s = int_of_string s in
              let u = u = "1" in
              let out = apply cs (ONewSlot (KInterned, n_of_int (s lsr 7), n0, u)) in
              expect_loc "inew" out s;
              if u && stamp_of cs s <> int_of_dec l then
                fail "inew %d: stamp %d in the model, %s in the implementation" s (stamp_of cs s) l;
              cover (if u then "inew:reusable" else "inew:pinned")
          | [ "sset"; s ] ->
              let s = int_of_string s in
              expect_loc "sset" (apply cs (OSetInput (n_of_int s, n0))) s
          | [ "supdate"; s; _g; c ] ->
              let s = int_of_string s in
              let before = stamp_of cs s in
              if before = int_of_n (l_cur cs.st) then
                fail "supdate %d: the implementation took the write lock, the model has the struct read-locked in this revision" s;
              expect_loc "supdate" (apply cs (OUpdateStruct (n_of_int s, n0, c = "1"))) s;
              cover ("supdate:idchg=" ^ c)
          | [ "sdelete"; s; _g ] ->
              let s = int_of_string s in
              (match apply cs (ODeleteEntity (n_of_int s, false)) with
               | LOk _ -> cover "sdelete"
               | o -> fail "sdelete %d: the model answers %s" s (out_str o))
          | [ "sfree"; s; _g ] ->
              let s = int_of_string s in
              (match slot cs s with
               | Some sl ->
                   let fl = l_free cs.st (s_ing sl) in
                   if not (List.exists (fun x -> int_of_n x = s) fl) then
                     fail "sfree %d: not on the model's free list" s
               | None -> fail "sfree %d: unknown slot" s)
          | [ "sreuse"; s; _g; n ] ->
              let s = int_of_string s in
              (match slot cs s with
               | Some sl ->
                   let out = apply cs (OReuseStruct (s_ing sl, n0)) in
                   if n = "-1" then begin
                     (match out with LOk (None, _) -> () | o -> fail "sreuse %d leaked: %s" s (out_str o));
                     cover "sreuse:leaked"
                   end else begin
                     expect_loc "sreuse" out s;
                     cover "sreuse"
                   end
               | None -> fail "sreuse %d: unknown slot" s)
          | [ "iq"; _; _; _ ] -> ()
          | [ "ihit"; s; _g; l; u ] ->
              let s = int_of_string s in
              let u = u = "1" in
              let raise_ = reusable_of cs s && not u in
              expect_loc "ihit" (apply cs (OInternHit (n_of_int s, raise_))) s;
              if reusable_of cs s <> u then fail "ihit %d: reusable differs" s;
              if u && stamp_of cs s <> int_of_dec l then
                fail "ihit %d: stamp %d in the model, %s in the implementation" s (stamp_of cs s) l;
              cover (if raise_ then "ihit:durability-raised" else "ihit")
          | [ "imca"; s; g; c; l ] ->
              let s = int_of_string s in
              let out = apply cs (OInternMca (n_of_int s, n_of_int (int_of_string g))) in
              (match out, c with
               | LOk (None, _), "1" -> cover "imca:changed"
               | LOk (Some _, _), "0" ->
                   if reusable_of cs s && stamp_of cs s <> int_of_dec l then
                     fail "imca %d: stamp %d in the model, %s in the implementation" s (stamp_of cs s) l;
                   cover "imca:unchanged"
               | o, _ -> fail "imca %d changed=%s: the model answers %s" s c (out_str o))
          | [ "ireuse"; s; _g; _n; l; u ] ->
              let s = int_of_string s in
              let u = u = "1" in
              let had_refs =
                List.exists
                  (fun r -> match r_tgt r with
                     | TField j -> int_of_n j = s
                     | TCell c -> (match l_cells cs.st c with
                                   | Some cl -> int_of_n (c_slot cl) = s && (match c_state cl with Live -> true | _ -> false)
                                   | None -> false))
                  (l_refs cs.st) in
              if had_refs then fail "ireuse %d: a reference into the slot is outstanding" s;
              (match apply cs (OInternReuse (n_of_int s, n0, u)) with
               | LOk (Some j, _) when int_of_n j = s ->
                   if u && stamp_of cs s <> int_of_dec l then
                     fail "ireuse %d: stamp %d in the model, %s in the implementation" s (stamp_of cs s) l;
                   cover "ireuse"
               | o -> fail "ireuse %d: the model answers %s (not reusable / not stale in the model)" s (out_str o))
          | [ "alloc"; m; s; f; v ] ->
              let m = int_of_string m and s = int_of_string s in
              let ov = if v = "1" then Some n0 else None in
              (match apply cs (OInsertMemo (n_of_int s, n_of_int (int_of_string f), ov)) with
               | LOk (Some c, _) when int_of_n c = m -> cover "alloc"
               | LRefused c when int_of_n c = 3 ->
                   fail "alloc %d: memo inserted for interned slot %d that was not validated in this revision" m s
               | o -> fail "alloc %d slot %d: the model answers %s" m s (out_str o))
          | [ "retire"; m ] ->
              let m = int_of_string m in
              (match cell cs m with
               | Some cl when (match c_state cl with Retired -> true | _ -> false) -> cover "retire"
               | _ -> fail "retire %d: not Retired in the model" m)
          | [ "handout"; m; s; f ] ->
              let m = int_of_string m and s = int_of_string s in
              (match apply cs (OFetchMemo (n_of_int s, n_of_int (int_of_string f))) with
               | LOk (Some c, Some _) when int_of_n c = m -> cover "handout"
               | LRefused c when int_of_n c = 3 ->
                   fail "handout %d: memo of interned slot %d that was not validated in this revision" m s
               | o -> fail "handout %d slot %d: the model answers %s" m s (out_str o))
          | [ "fhandout"; k; s ] ->
              let s = int_of_string s in
              (match apply cs (OReadField (n_of_int s)) with
               | LOk (Some j, Some _) when int_of_n j = s -> cover ("fhandout:kind" ^ k)
               | o -> fail "fhandout %d: the model answers %s" s (out_str o))
          | [ "newrev"; r ] ->
              pending_empty cs "newrev";
              let ms = evicts_until lines (idx + 1) "newrev_end" [] in
              (match apply cs (ONewRevision (evs_of cs ms)) with
               | LOk (Some r', _) when int_of_n r' = int_of_string r -> cover "newrev"
               | o -> fail "newrev %s: the model answers %s" r (out_str o))
          | [ "evictlru" ] ->
              pending_empty cs "evictlru";
              let ms = evicts_until lines (idx + 1) "evictlru_end" [] in
              ignore (expect_ok "evictlru" (apply cs (OEvictLru (evs_of cs ms))));
              cover "evictlru"
          | [ "newrev_end" ] -> pending_empty cs "newrev_end"
          | [ "evictlru_end" ] -> pending_empty cs "evictlru_end"
          | [ "evict"; m ] ->
              let m = int_of_string m in
              (match cell cs m with
               | Some cl ->
                   (match c_state cl, c_val cl with
                    | Freed, _ -> fail "evict %d: freed in the model" m
                    | _, Some _ -> fail "evict %d: still has its value in the model" m
                    | _, None -> cover "evict")
               | None -> fail "evict %d: unknown memo" m)
          | [ "free"; m; w ] ->
              let m = int_of_string m in
              if not (Hashtbl.mem cs.pending m) then
                fail "free %d (site %s): the implementation frees a memo the model has not freed (premature or double free)" m w;
              if refs_to_cell cs m then
                fail "free %d (site %s): a reference to the memo is outstanding in the model" m w;
              Hashtbl.remove cs.pending m;
              cover ("free:site" ^ w)
          | [ "zdrop_begin" ] ->
              pending_empty cs "zdrop_begin";
              ignore (expect_ok "zdrop_begin" (apply cs ODropDb));
              cover "drop"
          | [ "zdrop_end" ] ->
              pending_empty cs "zdrop_end";
              if not (l_dropped cs.st) then fail "zdrop_end without zdrop_begin";
              for c = 0 to int_of_n (l_ncells cs.st) - 1 do
                match cell cs c with
                | Some cl ->
                    (match c_state cl with
                     | Freed -> if int_of_n (c_frees cl) <> 1 then fail "cell %d freed %d times" c (int_of_n (c_frees cl))
                     | _ -> fail "cell %d not freed at the end of drop" c)
                | None -> fail "cell %d missing" c
              done
          | [ "unknown"; m ] -> fail "the implementation touched a memo (%s) that was never announced by alloc" m
          | [ "" ] | [] -> ()
          | _ -> fail "unrecognised trace line %S" line);
         cs.events <- cs.events + 1
       with Mismatch s -> raise (Mismatch (Printf.sprintf "line=%d %s | %s" idx s line))))
    lines;
  if not (l_dropped cs.st) then raise (Mismatch "the trace ends without zdrop_begin");
  cs.events

(* ---------------- files ---------------- *)

let () =
  let files = ref [] in
  Array.iteri
    (fun i a -> if i > 0 then if a = "--verbose" then verbose := true else files := a :: !files)
    Sys.argv;
  let cases = ref 0 and bad = ref 0 and events = ref 0 in
  let run_file ic =
    let cur = ref [] and name = ref "" in
    let finish () =
      if !name <> "" then begin
        incr cases;
        let lines = Array.of_list (List.rev !cur) in
        (* pre-scan: queue lengths per interned ingredient, number of memo ingredient indices *)
        let qlens = Hashtbl.create 4 in
        let ntypes = ref 1 in
        Array.iter
          (fun l ->
            match String.split_on_char ' ' l with
            | [ "iq"; i; _; n ] -> Hashtbl.replace qlens (int_of_string i) (min 64 (int_of_dec n))
            | [ "alloc"; _; _; f; _ ] -> ntypes := max !ntypes (int_of_string f + 1)
            | _ -> ())
          lines;
        (try events := !events + replay_case lines qlens !ntypes
         with Mismatch s ->
           incr bad;
           Printf.printf "MISMATCH case=%s %s\n" !name s)
      end;
      cur := [];
      name := ""
    in
    (try
       while true do
         let l = input_line ic in
         let n = String.length l in
         if n >= 5 && String.sub l 0 5 = "CASE " then begin
           finish ();
           name := (match String.split_on_char ' ' l with _ :: k :: _ -> k | _ -> "?")
         end else if n >= 2 && String.sub l 0 2 = "T " then cur := String.sub l 2 (n - 2) :: !cur
         else if l = "END" then finish ()
       done
     with End_of_file -> finish ())
  in
  if !files = [] then run_file stdin
  else List.iter (fun f -> let ic = open_in f in run_file ic; close_in ic) (List.rev !files);
  let keys = Hashtbl.fold (fun k v acc -> (k, v) :: acc) coverage [] in
  List.iter (fun (k, v) -> Printf.printf "COVERAGE %s %d\n" k v) (List.sort compare keys);
  if !bad = 0 then Printf.printf "OK %d %d\n" !cases !events
  else Printf.printf "FAIL %d %d %d\n" !bad !cases !events;
  exit (if !bad = 0 then 0 else 1)

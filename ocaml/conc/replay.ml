(* replay.ml — replays the abstract event traces printed by /verif/harness-conc through the
   machines extracted from coq/Cancel/Model.v and coq/Alloc/Model.v and checks, event by event,
   that every logged outcome and every logged piece of state equals the model's.

     replay FILE...     (or stdin)  ->  one "MISMATCH ..." line per diverging trace, then
                                        "OK <traces> <events>"  or  "FAIL <bad> <traces> <events>"

   All three machines are driven by every trace:
     token machine   <- Attach Detach DisGuardNew/Drop TokSetDisabled TokReset Cancel Check
     writer/reader   <- CloneBegin CloneEnd DropBegin DropCoord Start Finish Caught Check Stamp
                        SetFlag FlagEvent Waited ClearFlag Bump Mutated
     stamp rule      <- PrevIterIn/Out ColdCycleIn/Reuse/Initial CountGate
     alloc machine   <- CloneEnd DropBegin Push Take Record Load Write Publish Free Reuse
                        InternReuse ReadBack *)
open Conc_model

(* ---------------- numbers ---------------- *)

let rec pos_of_int (i : int) : positive =
  if i = 1 then XH
  else if i land 1 = 0 then XO (pos_of_int (i lsr 1))
  else XI (pos_of_int (i lsr 1))

let n_of_int (i : int) : n =
  if i < 0 then failwith "negative number" else if i = 0 then N0 else Npos (pos_of_int i)

let rec int_of_pos = function
  | XH -> 1
  | XO p -> 2 * int_of_pos p
  | XI p -> 2 * int_of_pos p + 1

let int_of_n = function N0 -> 0 | Npos p -> int_of_pos p

(* ---------------- a minimal JSON reader ---------------- *)

type json =
  | Null
  | Bool of bool
  | Int of int
  | Big of string           (* an integer that does not fit (seeds) *)
  | Str of string
  | Arr of json list
  | Obj of (string * json) list

exception Parse_error of string

let parse_json (s : string) : json =
  let len = String.length s in
  let pos = ref 0 in
  let peek () = if !pos < len then s.[!pos] else '\000' in
  let rec ws () =
    if !pos < len && (s.[!pos] = ' ' || s.[!pos] = '\n' || s.[!pos] = '\t' || s.[!pos] = '\r')
    then (incr pos; ws ()) in
  let expect c =
    if peek () = c then incr pos
    else raise (Parse_error (Printf.sprintf "expected %c at %d" c !pos)) in
  let rec value () =
    ws ();
    match peek () with
    | '{' ->
        incr pos; ws ();
        if peek () = '}' then (incr pos; Obj [])
        else begin
          let rec fields acc =
            ws ();
            let k = match value () with Str k -> k | _ -> raise (Parse_error "key") in
            ws (); expect ':';
            let v = value () in
            ws ();
            if peek () = ',' then (incr pos; fields ((k, v) :: acc))
            else (expect '}'; Obj (List.rev ((k, v) :: acc))) in
          fields []
        end
    | '[' ->
        incr pos; ws ();
        if peek () = ']' then (incr pos; Arr [])
        else begin
          let rec items acc =
            let v = value () in
            ws ();
            if peek () = ',' then (incr pos; items (v :: acc))
            else (expect ']'; Arr (List.rev (v :: acc))) in
          items []
        end
    | '"' ->
        incr pos;
        let b = Buffer.create 16 in
        let rec go () =
          if !pos >= len then raise (Parse_error "unterminated string");
          let c = s.[!pos] in
          incr pos;
          if c = '"' then ()
          else if c = '\\' then begin
            let d = s.[!pos] in
            incr pos;
            Buffer.add_char b (match d with 'n' -> '\n' | 't' -> '\t' | d -> d);
            go ()
          end else (Buffer.add_char b c; go ()) in
        go ();
        Str (Buffer.contents b)
    | 't' -> pos := !pos + 4; Bool true
    | 'f' -> pos := !pos + 5; Bool false
    | 'n' -> pos := !pos + 4; Null
    | _ ->
        let start = !pos in
        if peek () = '-' then incr pos;
        while !pos < len && s.[!pos] >= '0' && s.[!pos] <= '9' do incr pos done;
        if !pos = start then raise (Parse_error (Printf.sprintf "unexpected character at %d" start));
        let t = String.sub s start (!pos - start) in
        (match int_of_string_opt t with Some i -> Int i | None -> Big t)
  in
  let v = value () in
  v

let field (o : json) (k : string) : json =
  match o with
  | Obj l -> (try List.assoc k l with Not_found -> Null)
  | _ -> Null

let geti o k = match field o k with Int i -> i | _ -> failwith ("missing int field " ^ k)
let getb o k = match field o k with Bool b -> b | _ -> failwith ("missing bool field " ^ k)
let gets o k = match field o k with Str s -> s | _ -> failwith ("missing string field " ^ k)
let geto o k = match field o k with Int i -> Some i | Null -> None | _ -> failwith ("bad field " ^ k)
let show_seed o = match field o "seed" with Int i -> string_of_int i | Big s -> s | _ -> "?"

(* ---------------- replay ---------------- *)

exception Mismatch of string

let fail fmt = Printf.ksprintf (fun s -> raise (Mismatch s)) fmt

let str_outcome = function OContinue -> "Continue" | OLocal -> "Local" | OPendingWrite -> "PendingWrite"

let str_tout = function
  | TNone -> "TNone"
  | TOutcome o -> "TOutcome " ^ str_outcome o
  | TWas b -> Printf.sprintf "TWas %b" b
  | TReset None -> "TReset None"
  | TReset (Some h) -> Printf.sprintf "TReset %d" (int_of_n h)
  | TPanic -> "TPanic"

let str_wout = function
  | WNone -> "WNone"
  | WOutcome o -> "WOutcome " ^ str_outcome o
  | WNew h -> Printf.sprintf "WNew %d" (int_of_n h)
  | WOverflow b -> Printf.sprintf "WOverflow %b" b
  | WEpoch (r, c) -> Printf.sprintf "WEpoch %d %d" (int_of_n r) (int_of_n c)

let str_aout = function
  | ONone -> "ONone"
  | ONewHandle h -> Printf.sprintf "ONewHandle %d" (int_of_n h)
  | OPage p -> Printf.sprintf "OPage %d" (int_of_n p)
  | OFull -> "OFull"
  | OIndex (p, i) -> Printf.sprintf "OIndex %d %d" (int_of_n p) (int_of_n i)
  | OId (i, g) -> Printf.sprintf "OId %d %d" (int_of_n i) (int_of_n g)
  | OLeaked i -> Printf.sprintf "OLeaked %d" (int_of_n i)
  | OVal None -> "OVal None"
  | OVal (Some v) -> Printf.sprintf "OVal %d" (int_of_n v)
  | OOob -> "OOob"

let str_hst = function
  | None -> "absent-or-cloning"
  | Some HIdle -> "Idle"
  | Some (HRunning _) -> "Running"
  | Some (HUnwinding _) -> "Unwinding"
  | Some HWFlag -> "WFlag"
  | Some HWEvent -> "WEvent"
  | Some HWWaited -> "WWaited"
  | Some HWCleared -> "WCleared"
  | Some HWMut -> "WMut"
  | Some HDropping -> "Dropping"

type expect_stamp =
  | NoExpect
  | ExpectPrevOut of bool * bool * int     (* kept, reuse, iteration stamp *)
  | ExpectNoPrevOut                        (* previous_iteration throws PropagatedPanic *)
  | ExpectColdReuse
  | ExpectColdInitial of int
  | ExpectColdPanic

type st = {
  mutable ts : tstate;
  mutable ws : wstate;
  mutable als : astate;
  mutable threads : int list;                       (* thread names seen, for the !Sync check *)
  expect_reset : (int, int option) Hashtbl.t;        (* thread -> handle whose TokReset must follow *)
  expect_dis : (int, bool) Hashtbl.t;                (* thread -> DisGuardNew(true)/Drop(false) seen *)
  expect_stamp : (int, expect_stamp) Hashtbl.t;
  mutable pending_new : (int * int) option;          (* numbers given by the WR and alloc machines at CloneEnd *)
  mutable propagated : int;
}

let wstep_exn (s : st) (a : wact) (what : string) : wout =
  match wstep s.ws a with
  | Some (ws', o) -> s.ws <- ws'; o
  | None -> fail "writer/reader machine: %s is not enabled" what

let astep_exn (s : st) (a : aact) (what : string) : aout =
  match astep s.als a with
  | Some (a', o) -> s.als <- a'; o
  | None -> fail "alloc machine: %s is not enabled" what

let tstep_exn (s : st) (a : top) (what : string) : tout =
  match tstep s.ts a with
  | Some (t', o) -> s.ts <- t'; o
  | None -> fail "token machine: %s is not enabled" what

let check_epoch (s : st) (rev : int) (count : int) (what : string) =
  let r = int_of_n (w_rev s.ws) and c = int_of_n (w_count s.ws) in
  if r <> rev || c <> count then
    fail "%s: implementation epoch (rev %d, count %d), model (rev %d, count %d)" what rev count r c

let clear_stamp_expectation (s : st) (t : int) (what : string) =
  match (try Hashtbl.find s.expect_stamp t with Not_found -> NoExpect) with
  | NoExpect | ExpectNoPrevOut | ExpectColdPanic -> Hashtbl.replace s.expect_stamp t NoExpect
  | ExpectPrevOut _ -> fail "%s: the model expects a PrevIterOut first" what
  | ExpectColdReuse -> fail "%s: the model expects ColdCycleReuse first" what
  | ExpectColdInitial _ -> fail "%s: the model expects ColdCycleInitial first" what

let event (s : st) (ev : json) : unit =
  let t = geti ev "t" and h = geti ev "h" and v = geti ev "v" in
  let e = gets ev "e" in
  if not (List.mem t s.threads) then s.threads <- t :: s.threads;
  let hN () = if h < 0 then fail "%s without a current handle" e else n_of_int h in
  let tN = n_of_int (max t 0) in
  match e with
  (* ---------- handles ---------- *)
  | "CloneBegin" ->
      (match wstep_exn s (ACloneBegin (hN ())) "CloneBegin" with
       | WNone -> () | o -> fail "CloneBegin: model output %s" (str_wout o))
  | "CloneEnd" ->
      let w = (match wstep_exn s (ACloneEnd (hN ())) "CloneEnd" with
               | WNew n -> int_of_n n | o -> fail "CloneEnd: model output %s" (str_wout o)) in
      let a = (match astep_exn s (AClone (hN ())) "Clone" with
               | ONewHandle n -> int_of_n n | o -> fail "Clone: model output %s" (str_aout o)) in
      s.pending_new <- Some (w, a)
  | "NewHandle" ->
      let n = geti ev "n" in
      (match s.pending_new with
       | Some (w, a) ->
           if w <> n || a <> n then fail "NewHandle %d: writer machine says %d, alloc machine says %d" n w a;
           s.pending_new <- None
       | None -> fail "NewHandle without CloneEnd")
  | "DropBegin" ->
      ignore (wstep_exn s (ADropArc (hN ())) (Printf.sprintf "DropBegin (handle %d is %s)" h (str_hst (st_of s.ws (hN ())))));
      ignore (astep_exn s (ADropDone (hN ())) "DropDone (cache must be empty, nothing in flight)")
  | "DropCoord" -> ignore (wstep_exn s (ADropCoord (hN ())) "DropCoord")
  (* ---------- computations ---------- *)
  | "Start" ->
      check_epoch s (geti ev "rev") (geti ev "count") "Start";
      ignore (wstep_exn s (AStart (hN ())) (Printf.sprintf "Start (handle %d is %s)" h (str_hst (st_of s.ws (hN ())))))
  | "Finish" ->
      check_epoch s (geti ev "rev") (geti ev "count") "Finish";
      clear_stamp_expectation s t "Finish";
      ignore (wstep_exn s (AFinish (hN ())) (Printf.sprintf "Finish (handle %d is %s)" h (str_hst (st_of s.ws (hN ())))))
  | "Caught" ->
      let why = geti ev "why" in
      (match st_of s.ws (hN ()), why with
       | Some (HUnwinding _), (1 | 2) -> ignore (wstep_exn s (ACaught (hN ())) "Caught")
       | Some (HRunning _), 3 ->
           (* Cancelled::PropagatedPanic is thrown by block_on / a poisoned memo, not by a check:
              the machine has no step for it; the computation simply ends *)
           s.propagated <- s.propagated + 1;
           ignore (wstep_exn s (AFinish (hN ())) "Caught(PropagatedPanic)")
       | stt, _ -> fail "Caught why=%d but the model has handle %d %s" why h (str_hst stt));
      Hashtbl.replace s.expect_stamp t NoExpect
  | "Check" ->
      let hn = geti ev "handle" in
      if hn < 0 then fail "Check on an unregistered handle";
      if hn <> h then fail "Check on handle %d while the thread operates handle %d" hn h;
      let tok = t_tok s.ts (n_of_int hn) and flag = w_flag s.ws in
      let expected = check_outcome tok flag in
      let got = geti ev "outcome" in
      if int_of_n (outcome_code expected) <> got then
        fail "Check h%d: implementation outcome %d, model %s (token byte %d, flag %b)"
          hn got (str_outcome expected) (int_of_n tok) flag;
      (match tstep_exn s (TCheck (n_of_int hn, flag)) "TCheck" with
       | TOutcome o when o = expected -> ()
       | o -> fail "TCheck: %s" (str_tout o));
      (match wstep_exn s (ACheck (n_of_int hn, tok))
               (Printf.sprintf "Check (handle %d is %s)" hn (str_hst (st_of s.ws (n_of_int hn)))) with
       | WOutcome o when o = expected -> ()
       | o -> fail "ACheck: %s" (str_wout o))
  (* ---------- token ---------- *)
  | "Attach" ->
      (match (try Hashtbl.find s.expect_reset t with Not_found -> None) with
       | Some _ -> fail "Attach while the reset of the previous outermost scope is still outstanding"
       | None -> ());
      let hn = geti ev "handle" in
      if hn < 0 then fail "Attach of an unregistered handle";
      if attached_elsewhere s.ts (List.map n_of_int s.threads) tN (n_of_int hn) then
        fail "Attach: handle %d is attached on another thread" hn;
      let op = if getb ev "allow_change" then TAttachAC (tN, n_of_int hn) else TAttach (tN, n_of_int hn) in
      (match tstep_exn s op "Attach" with
       | TNone -> ()
       | o -> fail "Attach: model output %s" (str_tout o));
      (match t_frames s.ts tN with
       | FDb (b, _) :: _ when b = getb ev "attached_here" -> ()
       | _ -> fail "Attach: attached_here=%b disagrees with the model's guard" (getb ev "attached_here"))
  | "Detach" ->
      (match t_frames s.ts tN with
       | FDb (b, _) :: _ when b = getb ev "attached_here" -> ()
       | _ -> fail "Detach(attached_here=%b): the model's innermost guard is different" (getb ev "attached_here"));
      if getb ev "attached_here" then
        (* the guard that attached: `database.replace(prev)` then `uncancel()`.  The hook fires
           before both; the step is linearised at the TokReset event (the store of 0), so that a
           cancel() that lands in between is — as in the implementation — overwritten *)
        Hashtbl.replace s.expect_reset t (Some (-1))
      else
        (match tstep_exn s (TPop tN) "Detach" with
         | TReset None -> ()
         | o -> fail "Detach of a nested scope: model output %s" (str_tout o))
  | "TokReset" ->
      let hn = geti ev "handle" in
      (match (try Hashtbl.find s.expect_reset t with Not_found -> None) with
       | Some _ ->
           Hashtbl.replace s.expect_reset t None;
           (match tstep_exn s (TPop tN) "Detach/TokReset" with
            | TReset (Some d) when int_of_n d = hn -> ()
            | o -> fail "TokReset of handle %d: model output %s" hn (str_tout o))
       | None -> fail "TokReset of handle %d: no attaching scope is ending on this thread" hn);
      if int_of_n (t_tok s.ts (n_of_int hn)) <> 0 then fail "TokReset: model token is not 0"
  | "DisGuardNew" -> Hashtbl.replace s.expect_dis t true
  | "DisGuardDrop" -> Hashtbl.replace s.expect_dis t false
  | "TokSetDisabled" ->
      let hn = geti ev "handle" in
      if hn < 0 then fail "TokSetDisabled on an unregistered handle";
      let prev = geti ev "prev" and disabled = getb ev "disabled" in
      let model_prev = int_of_n (t_tok s.ts (n_of_int hn)) in
      if prev <> model_prev then
        fail "TokSetDisabled h%d: implementation token byte %d, model %d" hn prev model_prev;
      (match (try Some (Hashtbl.find s.expect_dis t) with Not_found -> None) with
       | Some true ->
           if not disabled then fail "guard creation with disabled=false";
           (match tstep_exn s (TDisable (tN, n_of_int hn)) "Disable (handle must be attached on this thread)" with
            | TWas w when w = (prev land 2 <> 0) -> ()
            | o -> fail "Disable: model output %s, implementation previous byte %d" (str_tout o) prev)
       | Some false ->
           (match t_frames s.ts tN with
            | FDis (fh, w) :: _ when int_of_n fh = hn && w = disabled -> ()
            | FDis (fh, w) :: _ ->
                fail "guard drop restores handle %d to %b, the model's guard is (handle %d, was %b)"
                  hn disabled (int_of_n fh) w
            | _ -> fail "guard drop: the model's innermost frame is not a disable guard");
           (match tstep_exn s (TPop tN) "guard drop" with
            | TWas w when w = (prev land 2 <> 0) -> ()
            | o -> fail "guard drop: model output %s" (str_tout o))
       | None -> fail "TokSetDisabled outside a DisableLocalCancellationGuard");
      Hashtbl.remove s.expect_dis t
  | "Cancel" ->
      ignore (tstep_exn s (TCancel (n_of_int (geti ev "target"))) "Cancel")
  (* ---------- writer ---------- *)
  | "SetFlag" -> ignore (wstep_exn s (AWSetFlag (hN ())) (Printf.sprintf "SetFlag (handle %d is %s)" h (str_hst (st_of s.ws (hN ())))))
  | "FlagEvent" -> ignore (wstep_exn s (AWEvent (hN ())) "FlagEvent")
  | "Waited" ->
      let c = geti ev "clones" in
      if c <> int_of_n (w_clones s.ws) then
        fail "Waited: implementation clones=%d, model clones=%d" c (int_of_n (w_clones s.ws));
      ignore (wstep_exn s (AWWait (hN ())) "Waited (model: clones <> 1)")
  | "ClearFlag" -> ignore (wstep_exn s (AWClear (hN ())) "ClearFlag")
  | "Bump" ->
      (match wstep_exn s (AWBump (hN ())) "Bump" with
       | WOverflow b when b = getb ev "overflow" -> ()
       | o -> fail "Bump overflow=%b: model output %s" (getb ev "overflow") (str_wout o));
      check_epoch s (geti ev "rev") (geti ev "count") "Bump"
  | "Mutated" ->
      (match wstep_exn s (AWMutate (hN (), getb ev "new_rev")) "Mutated" with
       | WEpoch (r, c) when int_of_n r = geti ev "rev" && int_of_n c = geti ev "count" -> ()
       | o -> fail "Mutated rev=%d count=%d: model output %s" (geti ev "rev") (geti ev "count") (str_wout o))
  (* ---------- stamps ---------- *)
  | "Stamp" ->
      (match wstep_exn s (AStamp (hN ())) (Printf.sprintf "Stamp (handle %d is %s)" h (str_hst (st_of s.ws (hN ())))) with
       | WEpoch (r, c) when int_of_n r = geti ev "verified_at" && int_of_n c = geti ev "count" -> ()
       | o -> fail "Stamp verified_at=%d count=%d: model epoch is %s"
                (geti ev "verified_at") (geti ev "count") (str_wout o))
  | "PrevIterIn" ->
      clear_stamp_expectation s t "PrevIterIn";
      check_epoch s (geti ev "cur_rev") (geti ev "cur_count") "PrevIterIn";
      let r = previous_iteration (n_of_int (geti ev "cur_rev")) (n_of_int (geti ev "cur_count"))
                (n_of_int (geti ev "verified_at")) (n_of_int (geti ev "stamp"))
                (getb ev "has_value") (getb ev "is_head") in
      let initial = int_of_n (stamp_new N0 (n_of_int (geti ev "cur_count"))) in
      Hashtbl.replace s.expect_stamp t
        (match r with
         | PIOtherRevision -> ExpectPrevOut (true, false, initial)
         | PIDiscard -> ExpectPrevOut (false, false, initial)
         | PIPropagatedPanic -> ExpectNoPrevOut
         | PISeed (st, reuse) -> ExpectPrevOut (true, reuse, int_of_n st))
  | "PrevIterOut" ->
      (match (try Hashtbl.find s.expect_stamp t with Not_found -> NoExpect) with
       | ExpectPrevOut (k, r, i) ->
           if k <> getb ev "kept" || r <> getb ev "reuse" || i <> geti ev "iteration" then
             fail "PrevIterOut kept=%b reuse=%b iteration=%d, model kept=%b reuse=%b iteration=%d"
               (getb ev "kept") (getb ev "reuse") (geti ev "iteration") k r i
       | ExpectNoPrevOut -> fail "PrevIterOut, but the model says previous_iteration throws"
       | _ -> fail "PrevIterOut without PrevIterIn");
      Hashtbl.replace s.expect_stamp t NoExpect
  | "ColdCycleIn" ->
      clear_stamp_expectation s t "ColdCycleIn";
      check_epoch s (geti ev "cur_rev") (geti ev "cur_count") "ColdCycleIn";
      let r = fetch_cold_cycle (n_of_int (geti ev "cur_rev")) (n_of_int (geti ev "cur_count"))
                (n_of_int (geti ev "verified_at")) (n_of_int (geti ev "stamp"))
                (getb ev "has_value") (getb ev "may_be_provisional") (getb ev "is_head") in
      Hashtbl.replace s.expect_stamp t
        (match r with
         | CCPropagatedPanic -> ExpectColdPanic
         | CCReuseProvisional -> ExpectColdReuse
         | CCInitial st -> ExpectColdInitial (int_of_n st))
  | "ColdCycleReuse" ->
      (match (try Hashtbl.find s.expect_stamp t with Not_found -> NoExpect) with
       | ExpectColdReuse -> ()
       | _ -> fail "ColdCycleReuse, but the model does not reuse the provisional memo");
      Hashtbl.replace s.expect_stamp t NoExpect
  | "ColdCycleInitial" ->
      let got = geti ev "stamp" in
      (match (try Hashtbl.find s.expect_stamp t with Not_found -> NoExpect) with
       | ExpectColdInitial st ->
           if st <> got then fail "ColdCycleInitial stamp %d, model %d" got st
       | NoExpect ->
           (* no memo existed: IterationStamp::initial(cancellation_count) *)
           let st = int_of_n (stamp_new N0 (w_count s.ws)) in
           if st <> got then fail "ColdCycleInitial (no memo) stamp %d, model %d" got st
       | ExpectColdReuse -> fail "ColdCycleInitial, but the model reuses the provisional memo"
       | _ -> fail "ColdCycleInitial, but the model expects something else");
      Hashtbl.replace s.expect_stamp t NoExpect
  | "CountGate" ->
      let cur = geti ev "cur_count" and stamp = geti ev "stamp" in
      if cur <> int_of_n (w_count s.ws) then
        fail "CountGate: implementation count %d, model count %d" cur (int_of_n (w_count s.ws));
      let pass = int_of_n (stamp_count (n_of_int stamp)) = cur in
      if pass <> getb ev "pass" then fail "CountGate stamp=%d count=%d: implementation %b, model %b" stamp cur (getb ev "pass") pass
  (* ---------- allocation ---------- *)
  | "Push" ->
      (match astep_exn s (APush (hN (), n_of_int (geti ev "ingredient"))) "Push (no cached page or cached page full; below MAX_PAGES)" with
       | OPage p when int_of_n p = geti ev "page" -> ()
       | o -> fail "Push page %d: model output %s" (geti ev "page") (str_aout o))
  | "Take" ->
      let ing = n_of_int (geti ev "ingredient") in
      (match geto ev "page" with
       | None ->
           (match take_first (a_shared s.als) ing with
            | None -> ()
            | Some (p, _) -> fail "Take: implementation found no page, the model's shared list has page %d" (int_of_n p))
       | Some p ->
           (match astep_exn s (ATake (hN (), ing)) "Take" with
            | OPage q when int_of_n q = p -> ()
            | o -> fail "Take page %d: model output %s" p (str_aout o)))
  | "Record" ->
      (match astep_exn s (ARecord (hN (), n_of_int (geti ev "ingredient"))) "Record" with
       | OPage p when int_of_n p = geti ev "page" -> ()
       | o -> fail "Record page %d: model output %s" (geti ev "page") (str_aout o))
  | "Load" ->
      let page = geti ev "page" in
      let ing = a_ing s.als (n_of_int page) in
      (match astep_exn s (ALoad (hN (), ing)) "Load (page must be in this handle's cache)", getb ev "full" with
       | OFull, true -> ()
       | OIndex (p, i), false when int_of_n p = page && int_of_n i = geti ev "index" -> ()
       | o, f -> fail "Load page %d index %d full=%b: model output %s" page (geti ev "index") f (str_aout o))
  | "Write" -> ignore (astep_exn s (AWrite (hN (), n_of_int v)) "Write")
  | "Publish" ->
      (match astep_exn s (APublish (hN ())) "Publish" with
       | OId (i, g) when int_of_n i = geti ev "id_index" && int_of_n g = 0 -> ()
       | o -> fail "Publish id %d: model output %s" (geti ev "id_index") (str_aout o))
  | "Free" ->
      ignore (astep_exn s (AFree (n_of_int (geti ev "ingredient"), n_of_int (geti ev "index"), n_of_int (geti ev "generation")))
                "Free (the id must be the slot's current, undeleted id)")
  | "Reuse" ->
      (match astep_exn s (AReuse (hN (), n_of_int (geti ev "ingredient"), n_of_int v)) "Reuse (free list empty in the model)",
             geto ev "new_generation" with
       | OId (i, g), Some ng when int_of_n i = geti ev "index" && int_of_n g = ng -> ()
       | OLeaked i, None when int_of_n i = geti ev "index" -> ()
       | o, _ -> fail "Reuse index %d: model output %s" (geti ev "index") (str_aout o))
  | "InternReuse" ->
      let idx = n_of_int (geti ev "index") in
      let ing = a_ing s.als (fst (split_id idx)) in
      ignore (astep_exn s (AFree (ing, idx, n_of_int (geti ev "generation"))) "InternReuse/free");
      (match astep_exn s (AReuse (hN (), ing, n_of_int v)) "InternReuse/reuse" with
       | OId (i, g) when i = idx && int_of_n g = geti ev "new_generation" -> ()
       | o -> fail "InternReuse: model output %s" (str_aout o))
  | "ReadBack" ->
      let idx = n_of_int (geti ev "index") and g = geti ev "generation" in
      (match a_cur s.als idx with
       | Some (mg, false) when int_of_n mg = g -> ()
       | Some (mg, fr) -> fail "ReadBack of id (%d, gen %d): the model's slot has generation %d, deleted=%b" (geti ev "index") g (int_of_n mg) fr
       | None -> fail "ReadBack of id %d which the model never allocated" (geti ev "index"));
      (match astep_exn s (ARead idx) "Read" with
       | OVal (Some mv) when int_of_n mv = geti ev "value" -> ()
       | o -> fail "ReadBack id %d value %d: model output %s" (geti ev "index") (geti ev "value") (str_aout o))
  | "Created" | "WillBlock" | "Note" | "UnwoundThroughFixpoint" -> ()
  | other -> fail "unknown event %s" other

let render_event (ev : json) : string =
  match ev with
  | Obj l ->
      String.concat " "
        (List.map (fun (k, v) ->
             k ^ "=" ^ (match v with
                        | Int i -> string_of_int i | Bool b -> string_of_bool b | Str s -> s
                        | Null -> "null" | Big s -> s | _ -> "?")) l)
  | _ -> "?"

let traces = ref 0
let events = ref 0
let bad = ref 0
let propagated = ref 0

let replay_trace (tr : json) : unit =
  incr traces;
  let s = { ts = tinit; ws = winit; als = ainit; threads = [];
            expect_reset = Hashtbl.create 8; expect_dis = Hashtbl.create 8;
            expect_stamp = Hashtbl.create 8; pending_new = None; propagated = 0 } in
  let evs = match field tr "events" with Arr l -> l | _ -> [] in
  let idx = ref 0 in
  (try
     List.iter (fun ev ->
         (try event s ev with
          | Mismatch m -> raise (Mismatch (Printf.sprintf "event=%d [%s] :: %s" !idx (render_event ev) m))
          | Failure m -> raise (Mismatch (Printf.sprintf "event=%d [%s] :: malformed: %s" !idx (render_event ev) m)));
         incr idx; incr events) evs;
     Hashtbl.iter (fun t e -> match e with
         | Some _ -> raise (Mismatch (Printf.sprintf "end of trace: thread %d ended its outermost scope without a token reset" t))
         | None -> ()) s.expect_reset
   with Mismatch m ->
     incr bad;
     Printf.printf "MISMATCH profile=%s iter=%d seed=%s %s\n"
       (gets tr "profile") (geti tr "iter") (show_seed tr) m);
  propagated := !propagated + s.propagated

let process_channel (ic : in_channel) : unit =
  try
    while true do
      let line = input_line ic in
      if String.length line > 0 && line.[0] = '{' then begin
        match (try Some (parse_json line) with Parse_error m ->
                 incr bad; Printf.printf "MISMATCH unparsable line: %s\n" m; None) with
        | Some j -> if field j "kind" = Str "trace" then replay_trace j
        | None -> ()
      end
    done
  with End_of_file -> ()

let () =
  let files = List.tl (Array.to_list Sys.argv) in
  if files = [] then process_channel stdin
  else List.iter (fun f -> let ic = open_in f in process_channel ic; close_in ic) files;
  if !bad = 0 then Printf.printf "OK %d %d propagated_panic=%d\n" !traces !events !propagated
  else Printf.printf "FAIL %d %d %d\n" !bad !traces !events;
  exit (if !bad = 0 then 0 else 1)

#!/bin/sh
# Extract the Cancel and Alloc machines (coq/Cancel/Extract.v, ExtrOcamlBasic only) and build the
# trace replayer into /verif/.build/ocaml-conc/replay.
#   usage: ocaml/conc/build.sh [ROOT]        (ROOT defaults to the directory above ocaml/)
# Always compiles the few files the models need in a private copy under the build directory, so
# that a stale or concurrent build of /verif/coq cannot interfere (never writes into coq/).
set -e
ROOT=${1:-$(cd "$(dirname "$0")/../.." && pwd)}
B=$ROOT/.build/ocaml-conc
mkdir -p "$B"
cd "$B"
rm -f *.ml *.mli *.cm* *.o replay
Q="$B/coq"
if true; then
  rm -rf "$B/coq" && mkdir -p "$B/coq/Cancel" "$B/coq/Alloc" "$B/coq/gen" "$B/coq/Kern"
  FILES="Base.v gen/Kernels.v Kern/KBits.v Kern/K4_Stamp.v Kern/K5_Id.v Kern/K6_Page.v
         Cancel/TokK.v Cancel/TokKGen.v Cancel/Model.v Alloc/PageK.v Alloc/PageKGen.v Alloc/Model.v"
  for f in $FILES; do cp "$ROOT/coq/$f" "$B/coq/$f"; done
  : > "$B/coqc.log"
  rm -f "$B/KERNEL_FALLBACK"
  for f in $FILES; do
    if ! ( cd "$B/coq" && timeout 600 coqc -Q . Salsa "$f" ) >> "$B/coqc.log" 2>&1; then
      case "$f" in
        Cancel/TokKGen.v|Alloc/PageKGen.v)
          # an interface lemma over the kernels translated from /repo's CURRENT source no longer
          # checks (the source changed): that is a broken proof obligation, reported by the check.
          # To keep searching for a concrete failing input the replayer is built from the
          # hand-written kernel file (the last semantics the lemmas were proved for).
          { echo "$f"; tail -15 "$B/coqc.log"; } >> "$B/KERNEL_FALLBACK"
          if [ "$f" = "Cancel/TokKGen.v" ]; then sed -i 's/Require Export TokKGen\./Require Export TokK./' "$B/coq/Cancel/Model.v";
          else sed -i 's/Require Export PageKGen\./Require Export PageK./' "$B/coq/Alloc/Model.v"; fi
          ;;
        *) tail -20 "$B/coqc.log"; exit 1 ;;
      esac
    fi
  done
fi
timeout 600 coqc -Q "$Q" Salsa -o "$B/Extract.vo" "$ROOT/coq/Cancel/Extract.v" > extract.log 2>&1 || { tail -20 extract.log; exit 1; }
cp "$ROOT/ocaml/conc/replay.ml" .
ocamlfind ocamlopt -w -a -o replay conc_model.mli conc_model.ml replay.ml
echo "built $B/replay"

#!/bin/sh
# Extract the Cycle model (+ kleene / spec_fallback / certificates) and build the OCaml driver
# into /verif/.build/ocaml-cycle.  COQROOT overrides the Coq tree (default: <root>/coq).
set -e
ROOT=$(cd "$(dirname "$0")/.." && pwd)
COQROOT=${COQROOT:-$ROOT/coq}
B=$ROOT/.build/ocaml-cycle
mkdir -p "$B"
cd "$B"
rm -f *.ml *.mli *.cm* *.o
timeout 600 coqc -Q "$COQROOT" Salsa -o "$B/ExtractCycle.vo" "$COQROOT/ExtractCycle.v" > extract.log 2>&1
cp "$ROOT/ocaml/cycle_driver.ml" .
ocamlfind ocamlopt -w -a -O3 -o cycle_driver cycle_model.mli cycle_model.ml cycle_driver.ml 2>/dev/null \
  || ocamlfind ocamlopt -w -a -o cycle_driver cycle_model.mli cycle_model.ml cycle_driver.ml

#!/bin/sh
# Extract the Core model and build the OCaml driver into /verif/.build/ocaml-core
set -e
ROOT=$(cd "$(dirname "$0")/.." && pwd)
B=$ROOT/.build/ocaml-core
mkdir -p "$B"
cd "$B"
rm -f *.ml *.mli *.cm* *.o
timeout 600 coqc -Q "$ROOT/coq" Salsa -o "$B/Extract.vo" "$ROOT/coq/Extract.v" > extract.log 2>&1
cp "$ROOT/ocaml/core_driver.ml" .
ocamlfind ocamlopt -w -a -o core_driver $(ocamlfind ocamldep -sort *.mli *.ml)

#!/bin/sh
# Extract the multi-handle certificates (coq/CCycle/Extract.v: mh_cert_fix, mh_cert_fb, mh_below,
# kleene, spec_fallback) and build the OCaml driver into <root>/.build/ocaml-ccycle.
# COQROOT overrides the Coq tree (default: <root>/coq), OUT the output directory.
set -e
ROOT=$(cd "$(dirname "$0")/.." && pwd)
COQROOT=${COQROOT:-$ROOT/coq}
B=${OUT:-$ROOT/.build/ocaml-ccycle}
mkdir -p "$B"
cd "$B"
rm -f *.ml *.mli *.cm* *.o
timeout 600 coqc -Q "$COQROOT" Salsa -o "$B/Extract.vo" "$COQROOT/CCycle/Extract.v" > extract.log 2>&1
cp "$ROOT/ocaml/ccycle_driver.ml" .
ocamlfind ocamlopt -w -a -O3 -o ccycle_driver ccycle_model.mli ccycle_model.ml ccycle_driver.ml 2>/dev/null \
  || ocamlfind ocamlopt -w -a -o ccycle_driver ccycle_model.mli ccycle_model.ml ccycle_driver.ml

//! Reads one test vector per line on stdin, prints the Rust result as one line of
//! space-separated unsigned integers on stdout (same flattening as coq/Codec/Flat.v).
//! Unknown commands print `ERR <message>`.

use std::io::{self, BufRead, Write};

use salsa::verif_codec as vc;

fn fb(b: bool) -> u64 {
    u64::from(b)
}
fn fo(o: Option<u64>) -> Vec<u64> {
    match o {
        Some(x) => vec![1, x],
        None => vec![0],
    }
}
fn f3(t: (u32, u32, u32)) -> Vec<u64> {
    vec![t.0 as u64, t.1 as u64, t.2 as u64]
}

fn extra_code(extra: Option<(u16, usize)>) -> Vec<u64> {
    match extra {
        Some((iteration, heads)) => vec![1, iteration as u64 + 65536 * heads as u64],
        None => vec![0, 0],
    }
}

fn report(r: Option<vc::OriginReport>) -> Vec<u64> {
    let Some(r) = r else { return vec![0] };
    let mut out = vec![1, r.kind as u64, fb(r.packed)];
    out.extend(extra_code(r.extra));
    out.push(r.edges.len() as u64);
    for e in &r.edges {
        out.extend(f3(*e));
    }
    out.push(r.inputs.len() as u64);
    for k in &r.inputs {
        out.extend(f3(*k));
    }
    out.push(r.outputs.len() as u64);
    for k in &r.outputs {
        out.extend(f3(*k));
    }
    out
}

/// args: kind xflags n (out ing idx gen)*
fn parse_origin(a: &[u64]) -> Option<(u8, u8, Vec<(bool, vc::RawKey)>)> {
    if a.len() < 3 {
        return None;
    }
    let n = a[2] as usize;
    if a.len() != 3 + 4 * n {
        return None;
    }
    let edges = (0..n)
        .map(|i| {
            let b = 3 + 4 * i;
            (a[b] != 0, (a[b + 1] as u32, a[b + 2] as u32, a[b + 3] as u32))
        })
        .collect();
    Some((a[0] as u8, a[1] as u8, edges))
}

fn run(cmd: &str, a: &[u64]) -> Result<Vec<u64>, String> {
    let need = |n: usize| -> Result<(), String> {
        if a.len() == n {
            Ok(())
        } else {
            Err(format!("{cmd}: expected {n} arguments, got {}", a.len()))
        }
    };
    Ok(match cmd {
        "consts" => {
            need(0)?;
            let mut out: Vec<u64> = vc::dur_consts().to_vec();
            out.push(vc::rev_start());
            out.push(vc::max_iterations() as u64);
            out.push(vc::id_max_u32() as u64);
            out.extend(vc::page_consts());
            out.extend(vc::packed_consts().map(u64::from));
            out.extend(vc::tag_consts().map(u64::from));
            out.extend(vc::tok_consts().map(u64::from));
            out.push(vc::rq_immortal());
            out
        }
        "lcr" => {
            need(4)?;
            vec![vc::last_changed_revision([a[0], a[1], a[2]], a[3] as u8)]
        }
        "rtw" => {
            need(4)?;
            match vc::report_tracked_write([a[0], a[1], a[2]], a[3] as u8) {
                Some(r) => vec![1, r[0], r[1], r[2]],
                None => vec![0],
            }
        }
        "revnext" => {
            need(1)?;
            fo(vc::rev_next(a[0]))
        }
        "chif" => {
            need(1)?;
            vec![fb(vc::changed_if(a[0] != 0))]
        }
        "stamp" => {
            need(1)?;
            let s = a[0] as u16;
            let mut out = vec![
                fb(vc::stamp_is_default(s)),
                fb(vc::stamp_is_initial_iteration(s)),
                vc::stamp_iteration(s) as u64,
                vc::stamp_cancellation_count(s) as u64,
                vc::stamp_iteration_as_u32(s) as u64,
            ];
            match vc::stamp_increment_iteration(s) {
                Some(r) => out.extend(fo(r.map(u64::from))),
                None => out.push(2),
            }
            out
        }
        "stampnew" => {
            need(2)?;
            vec![
                vc::stamp_new(a[0] as u8, a[1] as u8) as u64,
                vc::stamp_initial(a[1] as u8) as u64,
            ]
        }
        "bump" => {
            need(1)?;
            let (o, c) = vc::bump_cancellation_count(a[0] as u8);
            vec![fb(o), c as u64]
        }
        "idfi" => {
            need(1)?;
            vec![vc::id_from_index(a[0] as u32)]
        }
        "idfb" => {
            need(2)?;
            match vc::id_from_bits(a[0]) {
                None => vec![0],
                Some(bits) => {
                    let mut out = vec![
                        1,
                        bits,
                        vc::id_index(a[0]).unwrap() as u64,
                        vc::id_generation(a[0]).unwrap() as u64,
                        vc::id_with_generation(a[0], a[1] as u32).unwrap(),
                    ];
                    out.extend(fo(vc::id_next_generation(a[0]).unwrap()));
                    out
                }
            }
        }
        "mkid" => {
            need(2)?;
            vec![vc::make_id(a[0], a[1])]
        }
        "split" => {
            need(1)?;
            match vc::split_id(a[0]) {
                Some((p, s)) => vec![1, p, s],
                None => vec![0],
            }
        }
        "ing" => {
            need(1)?;
            let x = a[0] as u32;
            let mut out = fo(vc::ing_new(x).map(u64::from));
            out.push(vc::ing_with_tag(x, true) as u64);
            out.push(vc::ing_with_tag(x, false) as u64);
            out.push(fb(vc::ing_tag(x)));
            out
        }
        "qe" => {
            need(3)?;
            let key = (a[0] as u32, a[1] as u32, a[2] as u32);
            let i = vc::qe_input(key);
            let o = vc::qe_output(key);
            let mut out = f3(i);
            out.extend(f3(o));
            out.extend(f3(vc::qe_key(i)));
            out.push(vc::qe_kind(i) as u64);
            out.extend(f3(vc::qe_key(o)));
            out.push(vc::qe_kind(o) as u64);
            out
        }
        "qeraw" => {
            need(3)?;
            let e = (a[0] as u32, a[1] as u32, a[2] as u32);
            let mut out = vec![vc::qe_kind(e) as u64];
            out.extend(f3(vc::qe_key(e)));
            out.push(vc::qe_id_bits(e));
            out
        }
        "penew" => {
            need(3)?;
            match vc::packed_new(a[0] as u32, a[1] as u32, a[2] as u32) {
                Some((i, m)) => vec![1, i as u64, m as u64],
                None => vec![0],
            }
        }
        "peedge" => {
            need(2)?;
            f3(vc::packed_edge(a[0] as u32, a[1] as u32))
        }
        "tag" => {
            need(3)?;
            match vc::derived_tag(a[0] != 0, a[1] != 0, a[2] != 0) {
                Some(t) => vec![1, t[0] as u64, t[1] as u64, t[2] as u64, t[3] as u64],
                None => vec![0],
            }
        }
        "tok" => {
            need(1)?;
            let st = a[0] as u8;
            let (p1, s1) = vc::tok_set_cancellation_disabled(st, true);
            let (p0, s0) = vc::tok_set_cancellation_disabled(st, false);
            vec![
                vc::tok_cancel(st) as u64,
                fb(vc::tok_is_cancelled(st)),
                fb(p1),
                s1 as u64,
                fb(p0),
                s0 as u64,
                fb(vc::tok_should_trigger(st)),
                vc::tok_reset(st) as u64,
            ]
        }
        "rq" => {
            if a.len() < 2 {
                return Err("rq: expected a revision and a non-empty queue".into());
            }
            let (r, q) = (a[0], &a[1..]);
            let mut out = vec![fb(vc::rq_is_primed(q)), fb(vc::rq_is_stale(q, r))];
            out.extend(vc::rq_record(q, r));
            out
        }
        "origin" => {
            let (kind, flags, edges) = parse_origin(a).ok_or("origin: malformed")?;
            let mut out = report(vc::origin_roundtrip(kind, &edges, flags));
            #[cfg(not(feature = "persistence"))]
            out.extend(report(vc::origin_clear_edges(kind, &edges, flags)));
            #[cfg(feature = "persistence")]
            out.push(9); // clear_edges does not exist in persistence builds
            out
        }
        "assigned" => {
            need(4)?;
            let key = (a[0] as u32, a[1] as u32, a[2] as u32);
            match vc::origin_assigned_roundtrip(key, a[3] as u8) {
                Some(r) => {
                    let mut out = vec![1, r.kind as u64];
                    out.extend(f3(r.assigned.ok_or("assigned: no key")?));
                    out.extend(extra_code(r.extra));
                    out
                }
                None => vec![0],
            }
        }
        #[cfg(feature = "persistence")]
        "serde_edge" => {
            need(3)?;
            let e = (a[0] as u32, a[1] as u32, a[2] as u32);
            let value = vc::edge_serialize(e, serde_json::value::Serializer)
                .map_err(|e| e.to_string())?;
            let pair = value.as_array().ok_or("serde_edge: not an array")?;
            let mut out = vec![
                pair[0].as_u64().ok_or("serde_edge: bits")?,
                pair[1].as_u64().ok_or("serde_edge: ingredient")?,
            ];
            match vc::edge_deserialize(value) {
                Ok(back) => {
                    out.push(1);
                    out.extend(f3(back));
                }
                Err(_) => out.push(0),
            }
            out
        }
        #[cfg(feature = "persistence")]
        "serde_origin" => {
            let (kind, flags, edges) = parse_origin(a).ok_or("serde_origin: malformed")?;
            let value = vc::origin_serialize(kind, &edges, flags, serde_json::value::Serializer)
                .map_err(|e| e.to_string())?;
            // go through the textual form as a persisted database would
            let text = serde_json::to_string(&value).map_err(|e| e.to_string())?;
            let value: serde_json::Value = serde_json::from_str(&text).map_err(|e| e.to_string())?;
            let variant = value.as_object().ok_or("serde_origin: not an enum object")?;
            let raws = variant
                .values()
                .next()
                .and_then(|v| v.as_array())
                .ok_or("serde_origin: no edge array")?;
            let mut out = vec![raws.len() as u64];
            for raw in raws {
                let pair = raw.as_array().ok_or("serde_origin: edge is not a pair")?;
                out.push(pair[0].as_u64().ok_or("serde_origin: bits")?);
                out.push(pair[1].as_u64().ok_or("serde_origin: ingredient")?);
            }
            match vc::origin_deserialize(value.clone(), flags) {
                Ok(r) => out.extend(report(Some(r))),
                Err(_) => out.push(0),
            }
            out
        }
        _ => return Err(format!("unknown command {cmd}")),
    })
}

fn main() {
    // panics inside catch_unwind are expected results, not noise
    std::panic::set_hook(Box::new(|_| {}));
    let stdin = io::stdin();
    let stdout = io::stdout();
    let mut out = io::BufWriter::new(stdout.lock());
    for line in stdin.lock().lines() {
        let line = line.expect("stdin");
        let mut parts = line.split_whitespace();
        let Some(cmd) = parts.next() else {
            writeln!(out).unwrap();
            continue;
        };
        let args: Result<Vec<u64>, _> = parts.map(str::parse::<u64>).collect();
        let result = match args {
            Ok(args) => run(cmd, &args),
            Err(e) => Err(format!("bad integer: {e}")),
        };
        match result {
            Ok(values) => {
                let text: Vec<String> = values.iter().map(u64::to_string).collect();
                writeln!(out, "{}", text.join(" ")).unwrap();
            }
            Err(message) => writeln!(out, "ERR {message}").unwrap(),
        }
    }
}

"""Sequential correspondence engine: generate cases, run the real crate (Rust harness with
hooks) and the extracted Coq model (+ specification column) on them, diff at three levels
(values, events, internal state), classify, shrink."""
import os
import random
import re
import subprocess
import tempfile

from . import common

OPS = ["add", "sub", "min", "max", "and", "or", "eq", "lt", "shr"]

PROFILES = {
    # weights: set, get, synth, setcell, setlru, evict ; p_dur: probability a write carries a durability
    "general":    dict(w=dict(set=40, get=45, synth=4, setcell=4, setlru=3, evict=4), p_dur=0.25, p_cell=0.15, p_never=0.05, p_cyclic=0.04),
    "durability": dict(w=dict(set=45, get=40, synth=12, setcell=0, setlru=1, evict=2), p_dur=0.6, p_cell=0.0, p_never=0.2, p_cyclic=0.0, idur=True),
    "reuse":      dict(w=dict(set=45, get=50, synth=2, setcell=0, setlru=1, evict=2), p_dur=0.1, p_cell=0.0, p_never=0.0, p_cyclic=0.0, restore=0.5),
    "untracked":  dict(w=dict(set=20, get=45, synth=10, setcell=25, setlru=0, evict=0), p_dur=0.3, p_cell=0.6, p_never=0.0, p_cyclic=0.0, idur=True),
    "lru":        dict(w=dict(set=20, get=55, synth=5, setcell=3, setlru=8, evict=9), p_dur=0.1, p_cell=0.1, p_never=0.0, p_cyclic=0.0, lru_heavy=True),
    "faults":     dict(w=dict(set=25, get=45, synth=4, setcell=3, setlru=2, evict=3, setpanic=14, evfault=6), p_dur=0.1, p_cell=0.1, p_never=0.0, p_cyclic=0.0, p_fault=0.35),
    "panic-cycles": dict(w=dict(set=40, get=50, synth=3, setcell=3, setlru=2, evict=2), p_dur=0.1, p_cell=0.05, p_never=0.0, p_cyclic=1.0),
}


def sx(x):
    if isinstance(x, (list, tuple)):
        return "(" + " ".join(sx(i) for i in x) + ")"
    return str(x)


class Gen:
    def __init__(self, rng, profile, size):
        self.r = rng
        self.p = PROFILES[profile]
        self.profile = profile
        self.size = size

    def expr(self, depth, ctx):
        e = self.expr0(depth, ctx)
        pf = self.p.get("p_fault", 0.0)
        if pf and self.r.random() < pf * 0.5:
            pi = ["panicif", self.r.randrange(4)]
            return ["op", "add", e, pi] if self.r.random() < 0.5 else ["op", "add", pi, e]
        return e

    def expr0(self, depth, ctx):
        r = self.r
        nk, ni = ctx["nk"], ctx["ni"]
        leaf = depth <= 0 or r.random() < 0.25
        if leaf:
            c = r.random()
            if c < 0.30:
                return ["lit", r.choice([0, 1, 2, 3])]
            if c < 0.30 + 0.45:
                return ["in", r.randrange(ni), r.randrange(3)]
            if c < 0.30 + 0.45 + self.p["p_cell"]:
                if r.random() < 0.8:
                    return ["cell", r.randrange(2)]
                return ["touch"]
            t = self.call(ctx, depth)
            return t if t is not None else ["in", r.randrange(ni), r.randrange(3)]
        c = r.random()
        if c < 0.35:
            t = self.call(ctx, depth)
            if t is not None:
                return t
        if c < 0.75:
            return ["op", r.choice(OPS), self.expr(depth - 1, ctx), self.expr(depth - 1, ctx)]
        return ["if", self.expr(depth - 1, ctx), self.expr(depth - 1, ctx), self.expr(depth - 1, ctx)]

    def call(self, ctx, depth):
        """A call respecting the rank order (fam_order[fam]*nk + key), unless the case is cyclic."""
        r = self.r
        nk = ctx["nk"]
        me_f, me_k = ctx["me"]
        order = ctx["fam_order"]
        cyclic = ctx["cyclic"] and r.random() < 0.5
        if cyclic:
            fam = r.randrange(3)
            if r.random() < 0.5:
                return ["call", fam, ["lit", r.randrange(nk)]]
            return ["call", fam, self.expr(min(depth - 1, 1), dict(ctx, cyclic=False, me=(me_f, 0), fam_order=ctx["fam_order"]))]
        lower_fams = [f for f in range(3) if order[f] < order[me_f]]
        opts = []
        if lower_fams:
            opts.append("dyn")
            opts.append("static_lower")
        if me_k > 0:
            opts.append("same_fam")
        if not opts:
            return None
        o = r.choice(opts)
        if o == "dyn":
            fam = r.choice(lower_fams)
            # dynamic key: computed from values; sub-expression may itself call lower families only
            sub = self.expr(min(depth - 1, 1), dict(ctx, me=(fam, 0)))
            return ["call", fam, sub]
        if o == "static_lower":
            return ["call", r.choice(lower_fams), ["lit", r.randrange(nk)]]
        return ["call", me_f, ["lit", r.randrange(me_k)]]

    def case(self, cid):
        r = self.r
        p = self.p
        nk = r.randint(2, 3 if self.size == "quick" else 4)
        ni = nk
        fam_order = [0, 1, 2]
        r.shuffle(fam_order)
        cyclic = r.random() < p["p_cyclic"]
        nodes = []
        for fam in range(3):
            for k in range(nk):
                if r.random() < 0.8:
                    ctx = dict(nk=nk, ni=ni, me=(fam, k), fam_order=fam_order, cyclic=cyclic)
                    nodes.append(["node", fam, k, self.expr(r.randint(1, 3), ctx)])
        ival = [[i, f, r.choice([0, 1, 2, 3])] for i in range(ni) for f in range(3)]
        idur = []
        if p.get("idur"):
            idur = [[i, f, r.choice([0, 0, 1, 2, 3] if p["p_never"] > 0 else [0, 0, 1, 2])]
                    for i in range(ni) for f in range(3) if r.random() < 0.5]
        nops = r.randint(8, 25) if self.size == "quick" else r.randint(15, 60)
        hist = []
        w = p["w"]
        kinds = list(w.keys())
        weights = [w[k] for k in kinds]
        prev_vals = {}
        for _ in range(nops):
            k = r.choices(kinds, weights)[0]
            if k == "set":
                i, f = r.randrange(ni), r.randrange(3)
                if p.get("restore") and (i, f) in prev_vals and r.random() < p["restore"]:
                    v = prev_vals[(i, f)]
                else:
                    v = r.choice([0, 1, 2, 3])
                cur = next((x[2] for x in ival if x[0] == i and x[1] == f), 0)
                prev_vals[(i, f)] = cur
                for x in ival:
                    pass
                op = ["set", i, f, v]
                if r.random() < p["p_dur"]:
                    ds = [0, 1, 2] + ([3] if r.random() < p["p_never"] else [])
                    op.append(r.choice(ds))
                hist.append(op)
            elif k == "get":
                hist.append(["get", r.randrange(3), r.randrange(nk)])
            elif k == "synth":
                ds = [0, 1, 2] + ([3] if r.random() < p["p_never"] else [])
                hist.append(["synth", r.choice(ds)])
            elif k == "setcell":
                hist.append(["setcell", r.randrange(2), r.choice([0, 1, 2])])
                hist.append(["synth", r.choice([0, 0, 1, 2])])   # C01/C04: followed by a new revision
            elif k == "setlru":
                hist.append(["setlru", 1, r.choice([0, 1, 1, 2, 3, 4])])
            elif k == "evict":
                hist.append(["evict"])
            elif k == "setpanic":
                # switches 0..3: fault points in bodies; switch 6: the user's PartialEq (backdating)
                hist.append(["setpanic", r.choice([0, 1, 2, 3, 6, 6]), r.choice([0, 1, 1])])
            elif k == "evfault":
                hist.append(["evfault", r.choice(["off", 0, 0, 1, 2, 3])])
        if p.get("p_fault"):
            # the faults stop: afterwards every node is requested (C22: results as a fresh database)
            for c in (0, 1, 2, 3, 6):
                hist.append(["setpanic", c, 0])
            hist.append(["evfault", "off"])
            for fam in range(3):
                for k in range(nk):
                    hist.append(["get", fam, k])
        # make sure every case reads something at the end
        hist.append(["get", r.randrange(3), r.randrange(nk)])
        return sx(["case", cid, ["cfg", ["nk", nk], ["ni", ni], ["nf", 3], ["nfam", 3], ["lru", 1, 2]],
                   ["ival"] + ival, ["idur"] + idur, ["prog"] + nodes, ["hist"] + hist])


def generate(seed, profile, n, size, prefix="c"):
    rng = random.Random(f"{seed}/{profile}/{size}")
    g = Gen(rng, profile, size)
    return [g.case(f"{prefix}{i}") for i in range(n)]


def corpus(prop):
    d = os.path.join(common.ROOT, "gen", "corpus", prop)
    out = []
    if os.path.isdir(d):
        for f in sorted(os.listdir(d)):
            if f.endswith(".case"):
                out += [l.strip() for l in open(os.path.join(d, f)) if l.startswith("(")]
    return out


# ------------------------------------------------------------------ running

def parse_output(text):
    """-> dict case id -> list of lines"""
    cases = {}
    cur = None
    for line in text.split("\n"):
        if line.startswith("CASE "):
            cur = line[5:].strip()
            cases[cur] = []
        elif line.startswith("ERROR"):
            if cur is not None:
                cases[cur].append(line)
        elif cur is not None and line:
            cases[cur].append(line)
    return cases


def run_both(cases, harness_bin, driver_bin, shards=8, pin_cpu=None):
    """Run implementation and model on the cases. Returns (impl: dict, model: dict)."""
    os.makedirs(os.path.join(common.BUILD, "cases"), exist_ok=True)
    tmpd = tempfile.mkdtemp(prefix="run", dir=os.path.join(common.BUILD, "cases"))
    chunks = [cases[i::shards] for i in range(shards) if cases[i::shards]]
    procs = []
    for n, ch in enumerate(chunks):
        path = os.path.join(tmpd, f"cases{n}.txt")
        with open(path, "w") as f:
            f.write("\n".join(ch) + "\n")
        cmd_i = [harness_bin, path]
        if pin_cpu is not None:
            cmd_i = ["taskset", "-c", str(pin_cpu)] + cmd_i
        pi = subprocess.Popen(cmd_i, stdout=subprocess.PIPE, stderr=subprocess.DEVNULL, text=True)
        pm = subprocess.Popen([driver_bin, path], stdout=subprocess.PIPE, stderr=subprocess.DEVNULL, text=True)
        procs.append((pi, pm))
    impl, model = {}, {}
    for pi, pm in procs:
        oi, _ = pi.communicate(timeout=1200)
        om, _ = pm.communicate(timeout=1200)
        if pi.returncode != 0:
            raise common.CheckError(f"harness exited with {pi.returncode}")
        if pm.returncode != 0:
            raise common.CheckError(f"model driver exited with {pm.returncode}")
        impl.update(parse_output(oi))
        model.update(parse_output(om))
    import shutil
    shutil.rmtree(tmpd, ignore_errors=True)
    return impl, model


def split_lines(lines):
    """-> dict kind -> {idx: rest}"""
    d = {"R": {}, "E": {}, "S": {}, "V": {}, "W": {}, "ERROR": []}
    for l in lines:
        if l.startswith("ERROR"):
            d["ERROR"].append(l)
            continue
        m = re.match(r"^([RESVW]) (\d+) ?(.*)$", l)
        if m:
            d[m.group(1)][int(m.group(2))] = m.group(3)
    return d


def compare_case(impl_lines, model_lines):
    """Returns dict(level=None|'values'|'events'|'state'|'spec'|'error', step=idx, impl=.., model=..)."""
    a = split_lines(impl_lines)
    b = split_lines(model_lines)
    if a["ERROR"] or b["ERROR"]:
        return dict(level="error", step=-1, impl=a["ERROR"], model=b["ERROR"])
    n = max(len(a["R"]), len(b["R"]))
    for i in range(n):
        # implementation vs proved specification, on values
        if i in b["V"] and b["R"].get(i) not in ("panic 5",):
            spec = b["V"][i]
            got = a["R"].get(i)
            want = "panic 2" if spec == "cycle" else spec
            # a request whose from-scratch evaluation re-enters a node must PANIC: with the cycle
            # error, or -- when a recovering fixpoint head was poisoned by the cycle panic of an
            # earlier request in the same revision -- with the propagated panic (class 7); both are
            # "panic instead of hanging or returning a value" (C14)
            if got != want and not (spec == "cycle" and got == "panic 7"):
                return dict(level="spec", step=i, impl=got, model=want)
        for kind, level in (("R", "values"), ("E", "events"), ("S", "state")):
            if a[kind].get(i) != b[kind].get(i):
                return dict(level=level, step=i, impl=a[kind].get(i), model=b[kind].get(i))
    return dict(level=None)


def classify(model_lines):
    """Features of a case, from the model's own log/state (what the run exercised)."""
    d = split_lines(model_lines)
    feats = set()
    nexec_after_first = 0
    nvalid = 0
    seen_exec = set()
    prev_memo = {}
    for i in sorted(d["R"]):
        ev = d["E"].get(i, "").split()
        st = d["S"].get(i, "")
        m = re.search(r"memo=(\S*)", st)
        memos = {}
        if m:
            for ent in m.group(1).split(";"):
                if ent:
                    k, hv, ver, ch, du, un, edges = ent.split(":", 6)
                    memos[k] = (hv, int(ver), int(ch), int(du), un, edges)
        for e in ev:
            t, k = e.split(":")
            if t == "x":
                if k in seen_exec:
                    nexec_after_first += 1
                    feats.add("reexec")
                    if k in memos and memos[k][2] < memos[k][1]:
                        feats.add("backdate")
                seen_exec.add(k)
                if k in prev_memo and prev_memo[k][0] == "0":
                    feats.add("exec_after_evict")
            else:
                nvalid += 1
                feats.add("validate")
                if k in memos and memos[k][3] > 0:
                    feats.add("validate_durable")
        for k, mm in memos.items():
            if mm[0] == "0":
                feats.add("evicted")
            if mm[4] == "1":
                feats.add("untracked")
            if mm[3] == 3 and mm[5] == "[]":
                feats.add("never_change_memo")
        if d["R"][i].startswith("panic 1"):
            feats.add("never_change_panic")
        if d["R"][i].startswith("panic 2"):
            feats.add("cycle_panic")
        if d["R"][i].startswith("panic 5"):
            feats.add("injected_panic")
        prev_memo = memos
    nontrivial = "reexec" in feats and "validate" in feats
    return feats, nontrivial


# ------------------------------------------------------------------ shrinking

def parse_sx(s):
    toks = re.findall(r"\(|\)|[^\s()]+", s)
    pos = 0

    def item():
        nonlocal pos
        t = toks[pos]
        pos += 1
        if t == "(":
            out = []
            while toks[pos] != ")":
                out.append(item())
            pos += 1
            return out
        return t
    return item()


def wf_hist(tree):
    """The properties' premise: a change of untracked state is followed by a new revision
    (a write or synthetic write) before anything is read."""
    hist = next((x for x in tree[2:] if isinstance(x, list) and x and x[0] == "hist"), ["hist"])[1:]
    for i, op in enumerate(hist):
        if op[0] == "setcell":
            if i + 1 >= len(hist) or hist[i + 1][0] not in ("set", "synth"):
                return False
    return True


def shrink(case_text, still_fails, budget=150):
    """Greedy shrink: drop history ops, drop nodes, replace sub-expressions by literals.
    Candidates that leave the well-formed histories (wf_hist) are never considered."""
    tree = parse_sx(case_text)
    _sf = still_fails

    def still_fails(text):
        return wf_hist(parse_sx(text)) and _sf(text)

    def section(name):
        for it in tree[2:]:
            if isinstance(it, list) and it and it[0] == name:
                return it
        return None
    tries = 0
    changed = True
    while changed and tries < budget:
        changed = False
        for name in ("hist", "prog"):
            sec = section(name)
            if sec is None:
                continue
            i = len(sec) - 1
            while i >= 1 and tries < budget:
                saved = sec[i]
                del sec[i]
                tries += 1
                if still_fails(sx(tree)):
                    changed = True
                else:
                    sec.insert(i, saved)
                i -= 1
        # simplify expressions
        sec = section("prog")
        if sec:
            for node in sec[1:]:
                def simp(e, setter):
                    nonlocal tries, changed
                    if not isinstance(e, list) or tries >= budget:
                        return
                    if e[0] in ("op", "if", "call") :
                        for rep in (["lit", 0], ["lit", 1]):
                            tries += 1
                            setter(rep)
                            if still_fails(sx(tree)):
                                changed = True
                                return
                            setter(e)
                        for j in range(1, len(e)):
                            if isinstance(e[j], list):
                                simp(e[j], lambda v, e=e, j=j: e.__setitem__(j, v))
                simp(node[3], lambda v, node=node: node.__setitem__(3, v))
    return sx(tree)

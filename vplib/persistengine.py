"""Persistence correspondence engine (C26): generator profiles *persist*, runner, diff.

Implementation = harness-persist (salsa built with feature "persistence"; families 0 plain and
1 lru are `persist`, 2 noeq and 3 np are not), model + specification = ocaml/persist_driver.ml
(extracted coq/Persist/{Model,Spec,Dsl}.v).  History operations of the sequential engine plus
`(snapshot)` (serialize with serde_json) and `(restore)` (fresh database, deserialize, continue)."""
import os
import random
import re

from . import common
from . import seqengine as se

HARNESS_BIN = "persist_harness"
NAME = "Persist"
NFAM = 4
PERSISTED = (0, 1)
LEVELS = ["values (results of get, panic classes)",
          "events (WillExecute, DidValidateMemoizedValue) — in particular none for restored-and-unchanged memos",
          "state after every operation incl. the state of the FRESH database right after deserialisation "
          "(revisions, cancellation count, input values/stamps/durabilities, memo stamps/origin/flattened edges, lru order)"]
OPS = ["(set ", "(get ", "(synth ", "(setcell ", "(setlru ", "(evict)", "(snapshot)", "(restore)"]
COQ_TARGETS = ["Persist/Model.vo", "Persist/Spec.vo", "Persist/Dsl.vo"]

PROFILES = {
    # warm: after every restore each function family is called once on the spare key (index nk),
    #       which initialises the function ingredients of the fresh database
    # np_cells: non-persisted functions may read external (untracked) state
    "persist":           dict(w=dict(set=30, get=40, synth=8, setcell=4, setlru=3, evict=5, snapshot=8, restore=8),
                              warm=True, np_cells=False, p_cell=0.10, p_dur=0.3, p_never_in=0.08, restore_val=0.3),
    "persist-lru":       dict(w=dict(set=20, get=45, synth=8, setcell=2, setlru=6, evict=10, snapshot=8, restore=8),
                              warm=True, np_cells=False, p_cell=0.05, p_dur=0.1, p_never_in=0.03, restore_val=0.3),
    "persist-cold":      dict(w=dict(set=30, get=40, synth=8, setcell=2, setlru=2, evict=4, snapshot=8, restore=8),
                              warm=False, np_cells=False, p_cell=0.05, p_dur=0.3, p_never_in=0.05, restore_val=0.3),
    "persist-untracked": dict(w=dict(set=20, get=40, synth=10, setcell=14, setlru=2, evict=3, snapshot=8, restore=8),
                              warm=True, np_cells=True, p_cell=0.35, p_dur=0.2, p_never_in=0.03, restore_val=0.3),
}


class Gen:
    def __init__(self, rng, profile, size):
        self.r = rng
        self.p = PROFILES[profile]
        self.profile = profile
        self.size = size

    def expr(self, depth, ctx):
        r = self.r
        ni = ctx["ni"]
        cells_ok = self.p["np_cells"] or ctx["owner"] in PERSISTED
        leaf = depth <= 0 or r.random() < 0.25
        if leaf:
            c = r.random()
            if c < 0.25:
                return ["lit", r.choice([0, 1, 2, 3])]
            if c < 0.25 + 0.45:
                return ["in", r.randrange(ni), r.randrange(3)]
            if c < 0.25 + 0.45 + self.p["p_cell"] and cells_ok:
                return ["cell", r.randrange(2)] if r.random() < 0.8 else ["touch"]
            t = self.call(ctx, depth)
            return t if t is not None else ["in", r.randrange(ni), r.randrange(3)]
        c = r.random()
        if c < 0.40:
            t = self.call(ctx, depth)
            if t is not None:
                return t
        if c < 0.75:
            return ["op", r.choice(se.OPS), self.expr(depth - 1, ctx), self.expr(depth - 1, ctx)]
        return ["if", self.expr(depth - 1, ctx), self.expr(depth - 1, ctx), self.expr(depth - 1, ctx)]

    def call(self, ctx, depth):
        r = self.r
        nk = ctx["nk"]
        me_f, me_k = ctx["me"]
        order = ctx["fam_order"]
        lower_fams = [f for f in range(NFAM) if order[f] < order[me_f]]
        opts = []
        if lower_fams:
            opts += ["dyn", "static_lower", "static_lower"]
        if me_k > 0:
            opts += ["same_fam"]
        if not opts:
            return None
        o = r.choice(opts)
        if o == "dyn":
            fam = r.choice(lower_fams)
            sub = self.expr(min(depth - 1, 1), dict(ctx, me=(fam, 0)))
            return ["call", fam, sub]
        if o == "static_lower":
            return ["call", r.choice(lower_fams), ["lit", r.randrange(nk)]]
        return ["call", me_f, ["lit", r.randrange(me_k)]]

    def case(self, cid):
        r = self.r
        p = self.p
        nk = r.randint(2, 3 if self.size == "quick" else 4)
        ni = nk
        fam_order = list(range(NFAM))
        r.shuffle(fam_order)
        nodes = []
        for fam in range(NFAM):
            for k in range(nk):
                if r.random() < 0.85:
                    ctx = dict(nk=nk, ni=ni, me=(fam, k), owner=fam, fam_order=fam_order)
                    nodes.append(["node", fam, k, self.expr(r.randint(1, 3), ctx)])
        ival = [[i, f, r.choice([0, 1, 2, 3])] for i in range(ni) for f in range(3)]
        idur = []
        for i in range(ni):
            for f in range(3):
                x = r.random()
                if x < p["p_never_in"]:
                    idur.append([i, f, 3])
                elif x < p["p_never_in"] + p["p_dur"]:
                    idur.append([i, f, r.choice([1, 2])])
        never = {(d[0], d[1]) for d in idur if d[2] == 3}
        nops = r.randint(10, 28) if self.size == "quick" else r.randint(18, 60)
        hist = []
        w = p["w"]
        kinds = list(w.keys())
        weights = [w[k] for k in kinds]
        prev_vals = {}
        curv = {(x[0], x[1]): x[2] for x in ival}
        have_snapshot = False
        cells_dirty = False      # external state changed since the snapshot that a restore would load
        # make sure something is computed before the first snapshot
        for _ in range(r.randint(1, 4)):
            hist.append(["get", r.randrange(NFAM), r.randrange(nk)])
        for _ in range(nops):
            k = r.choices(kinds, weights)[0]
            if k == "set":
                i, f = r.randrange(ni), r.randrange(3)
                if (i, f) in never and r.random() < 0.9:
                    continue
                if (i, f) in prev_vals and r.random() < p["restore_val"]:
                    v = prev_vals[(i, f)]
                else:
                    v = r.choice([0, 1, 2, 3])
                prev_vals[(i, f)] = curv[(i, f)]
                curv[(i, f)] = v
                op = ["set", i, f, v]
                if r.random() < p["p_dur"] * 0.5:
                    d = r.choice([0, 1, 2])
                    op.append(d)
                hist.append(op)
            elif k == "get":
                fam = r.choice(PERSISTED) if r.random() < 0.6 else r.randrange(NFAM)
                hist.append(["get", fam, r.randrange(nk)])
            elif k == "synth":
                hist.append(["synth", r.choice([0, 0, 1, 2])])
            elif k == "setcell":
                hist.append(["setcell", r.randrange(2), r.choice([0, 1, 2])])
                hist.append(["synth", r.choice([0, 0, 1, 2])])   # external state changes are followed by a new revision
                cells_dirty = True
            elif k == "setlru":
                hist.append(["setlru", 1, r.choice([0, 1, 1, 2, 3, 4])])
            elif k == "evict":
                hist.append(["evict"])
            elif k == "snapshot":
                hist.append(["snapshot"])
                have_snapshot = True
                cells_dirty = False
            elif k == "restore":
                if not have_snapshot:
                    hist.append(["snapshot"])
                    have_snapshot = True
                    cells_dirty = False
                hist.append(["restore"])
                if cells_dirty:
                    # the external state is not the one the serialised database saw: as with any
                    # change of external state, the (restored) database gets a new revision
                    hist.append(["synth", 0])
                if p["warm"]:
                    for fam in range(NFAM):
                        hist.append(["get", fam, nk])
                # typical continuation: maybe a write, then ask for persisted results
                if r.random() < 0.5:
                    hist.append(["synth", 0] if r.random() < 0.4 else ["set", r.randrange(ni), r.randrange(3), r.choice([0, 1, 2, 3])])
                for _ in range(r.randint(1, 3)):
                    hist.append(["get", r.choice(PERSISTED), r.randrange(nk)])
        if not have_snapshot:
            hist.append(["snapshot"])
            cells_dirty = False
        hist.append(["restore"])
        if cells_dirty:
            hist.append(["synth", 0])
        if p["warm"]:
            for fam in range(NFAM):
                hist.append(["get", fam, nk])
        for fam in PERSISTED:
            hist.append(["get", fam, r.randrange(nk)])
        # `set` operations above may name never-change fields set through a restored snapshot; harmless
        return se.sx(["case", cid, ["cfg", ["nk", nk], ["ni", ni], ["nf", 3], ["nfam", NFAM], ["lru", 1, 2]],
                      ["ival"] + ival, ["idur"] + idur, ["prog"] + nodes, ["hist"] + hist])


def generate(seed, profile, n, size, prefix="p"):
    rng = random.Random(f"{seed}/{profile}/{size}/persist")
    g = Gen(rng, profile, size)
    return [g.case(f"{prefix}{i}") for i in range(n)]


def corpus(prop="C26"):
    return se.corpus(prop)


def build_ocaml_persist():
    drv = os.path.join(common.BUILD, "ocaml-persist", "persist_driver")
    deps = [os.path.join(common.COQ, p) for p in COQ_TARGETS + ["Kern/CoreK.vo"]]
    deps += [os.path.join(common.ROOT, "ocaml", "persist_driver.ml"), os.path.join(common.COQ, "ExtractPersist.v")]
    if os.path.exists(drv) and all(os.path.exists(d) and os.path.getmtime(d) <= os.path.getmtime(drv) for d in deps):
        return drv
    common.sh([os.path.join(common.ROOT, "ocaml", "build_persist.sh")], timeout=900, check=True,
              env={"VERIF_COQ": common.COQ})
    return drv


def build(ctx):
    probs = common.audit()
    if probs:
        raise common.CheckError("audit failed: " + "; ".join(probs[:5]))
    proof_broken = None
    digest = {}
    if os.path.exists(os.path.join(common.ROOT, "translator", "rust2gallina.py")):
        ok, log, digest = common.run_translator()
        if not ok:
            proof_broken = dict(kind="translation", detail=log[-3000:])
    rep = None
    if proof_broken is None:
        rep = common.props_report(ctx.prop)
        if not rep["ok"]:
            proof_broken = dict(kind="proof", detail=rep["log"][-3000:], theorems=rep["theorems"],
                                bad_axioms=rep["bad_axioms"])
    driver = None
    try:
        ok, log = common.coq_make(COQ_TARGETS)
        if ok:
            driver = build_ocaml_persist()
    except common.CheckError:
        if proof_broken is None:
            raise
        driver = None
    rel = common.cargo_build("harness-persist", "persist")
    return proof_broken, rep, digest, driver, os.path.join(rel, HARNESS_BIN)


run_both = se.run_both
split_lines = se.split_lines
shrink = se.shrink


def compare_case(impl_lines, model_lines):
    """First the correspondence implementation/model (values, events, state), then the
    implementation against the from-scratch specification: a model that follows the
    implementation into a wrong result must still be reported as a specification difference."""
    a = se.split_lines(impl_lines)
    b = se.split_lines(model_lines)
    if a["ERROR"] or b["ERROR"]:
        return dict(level="error", step=-1, impl=a["ERROR"], model=b["ERROR"])
    n = max(len(a["R"]), len(b["R"]))
    corr = None
    spec = None
    all_spec = []
    for i in range(n):
        if i in b["V"] and b["R"].get(i) not in ("panic 5",):
            want = "panic 2" if b["V"][i] == "cycle" else b["V"][i]
            if a["R"].get(i) != want:
                all_spec.append((i, a["R"].get(i), want))
                if spec is None:
                    spec = dict(level="spec", step=i, impl=a["R"].get(i), model=want, model_result=b["R"].get(i))
        if corr is None:
            for kind, level in (("R", "values"), ("E", "events"), ("S", "state")):
                if a[kind].get(i) != b[kind].get(i):
                    corr = dict(level=level, step=i, impl=a[kind].get(i), model=b[kind].get(i))
                    break
    if spec is not None:
        spec["all_spec"] = all_spec
        if corr is not None:
            spec["correspondence_also_differs"] = corr
        return spec
    if corr is not None:
        return corr
    return dict(level=None)


def spec_only_compare(impl_lines, model_lines):
    a = se.split_lines(impl_lines)
    b = se.split_lines(model_lines)
    for i in sorted(b["V"]):
        if b["R"].get(i) == "panic 5":
            continue
        want = "panic 2" if b["V"][i] == "cycle" else b["V"][i]
        if a["R"].get(i) != want:
            return dict(level="spec", step=i, impl=a["R"].get(i), model=want)
    return dict(level=None)


def parse_state(st):
    memos = {}
    m = re.search(r"memo=(\S*)", st)
    if m:
        for ent in m.group(1).split(";"):
            if ent:
                k, hv, ver, ch, du, un, edges = ent.split(":", 6)
                memos[k] = dict(hv=hv, ver=int(ver), ch=int(ch), dur=int(du), untr=un, edges=edges)
    ins = {}
    m = re.search(r" in=(\S*)", st)
    if m:
        for ent in m.group(1).split(";"):
            if ent:
                k, v, ch, du = ent.split(":")
                i, f = k.split(".")
                ins[(int(i), int(f))] = dict(v=int(v), ch=int(ch), dur=int(du))
    revs = re.search(r"revs=(\d+),(\d+),(\d+)", st)
    return memos, ins, tuple(int(x) for x in revs.groups()) if revs else None


def lost_lines(model_lines):
    """step index -> set of memo keys whose flattening expanded a dependency with untracked reads
    (since /repo e43c20c such a memo is serialised with an untracked origin)"""
    out = {}
    for l in model_lines:
        m = re.match(r"^L (\d+) lost=(\S*)$", l)
        if m:
            out[int(m.group(1))] = set(x for x in m.group(2).split(",") if x)
    return out


def classify(case_text, model_lines):
    d = se.split_lines(model_lines)
    feats = set()
    tree = se.parse_sx(case_text)
    hist = next(x for x in tree[2:] if isinstance(x, list) and x and x[0] == "hist")[1:]
    seen_exec = set()
    restored = None          # memo keys present right after the last restore and not executed since
    prev = {}
    lost = lost_lines(model_lines)
    for i in sorted(d["R"]):
        op = hist[i] if i < len(hist) else ["?"]
        ev = d["E"].get(i, "").split()
        memos, ins, revs = parse_state(d["S"].get(i, ""))
        rr = d["R"][i]
        if op[0] == "snapshot":
            feats.add("snapshot")
            if lost.get(i):
                feats.add("memo_serialised_untracked_because_of_flattened_dependency")
            for k, mm in memos.items():
                fam = int(k.split(".")[0])
                if fam in PERSISTED and mm["hv"] == "1":
                    feats.add("memo_serialised")
                    if revs and mm["ver"] < revs[0]:
                        feats.add("stale_memo_serialised")
                    if "q.2." in mm["edges"] or "q.3." in mm["edges"]:
                        feats.add("edge_to_non_persisted_flattened")
                    if mm["untr"] == "1":
                        feats.add("untracked_memo_serialised")
                    if mm["dur"] > 0:
                        feats.add("durable_memo_serialised")
                if fam in PERSISTED and mm["hv"] == "0":
                    feats.add("evicted_memo_not_serialised")
        if op[0] == "restore":
            feats.add("restore")
            restored = set(memos.keys())
            if prev and set(prev.keys()) - restored:
                feats.add("memos_dropped_by_restore")
        for e in ev:
            t, k = e.split(":")
            if t == "x":
                if k in seen_exec:
                    feats.add("reexec")
                seen_exec.add(k)
                if restored is not None and k in restored:
                    feats.add("restored_memo_reexecuted")
                    restored.discard(k)
            else:
                feats.add("validate")
                if restored is not None and k in restored:
                    feats.add("restored_memo_validated")
        if op[0] == "get" and restored is not None and f"{op[1]}.{op[2]}" in restored and not ev and rr.startswith("ret"):
            feats.add("restored_memo_returned_hot")
        if rr == "panic 8":
            feats.add("uninitialised_ingredient_panic")
        if rr.startswith("panic 1"):
            feats.add("never_change_panic")
        for k, mm in memos.items():
            if mm["hv"] == "0":
                feats.add("evicted")
            if mm["untr"] == "1":
                feats.add("untracked")
        prev = memos
    nontrivial = ("restored_memo_validated" in feats or "restored_memo_returned_hot" in feats) and \
                 "restored_memo_reexecuted" in feats
    return feats, nontrivial


if __name__ == "__main__":
    import sys
    seed = int(sys.argv[1]) if len(sys.argv) > 1 else 1
    n = int(sys.argv[2]) if len(sys.argv) > 2 else 200
    size = sys.argv[3] if len(sys.argv) > 3 else "quick"
    profs = sys.argv[4].split(",") if len(sys.argv) > 4 else list(PROFILES)
    harness = os.environ.get("PERSIST_HARNESS", os.path.join(common.BUILD, "target-persist", "release", HARNESS_BIN))
    driver = os.path.join(common.BUILD, "ocaml-persist", "persist_driver")
    for prof in profs:
        tot = corr = spec = 0
        feats_count = {}
        cases = generate(seed, prof, n, size, prefix=f"{prof}-")
        impl, model = run_both(cases, harness, driver, shards=6)
        shown = 0
        for c in cases:
            cid = c.split()[1]
            r = compare_case(impl.get(cid, ["ERROR missing"]), model.get(cid, ["ERROR missing"]))
            tot += 1
            f, nt = classify(c, model.get(cid, []))
            for x in f:
                feats_count[x] = feats_count.get(x, 0) + 1
            if nt:
                feats_count["NONTRIVIAL"] = feats_count.get("NONTRIVIAL", 0) + 1
            if r["level"] == "spec":
                spec += 1
                if "correspondence_also_differs" in r:
                    corr += 1
            elif r["level"] is not None:
                corr += 1
            if r["level"] is not None and (r["level"] != "spec" or "correspondence_also_differs" in r) and shown < 2:
                shown += 1
                print("DIFF", cid, r)
                print(c)
        print(f"profile {prof}: cases {tot} impl-vs-model diffs {corr} impl-vs-spec diffs {spec}")
        for k in sorted(feats_count):
            print(f"  {k}: {feats_count[k]}")

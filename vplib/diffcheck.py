"""Generic differential check for the accumulator and persistence engines (DESIGN §6), in the
style of checks/seqcheck.run_seq but parameterised by an *engine* object:

    engine.NAME                     short name used in messages
    engine.build(ctx) -> (proof_broken, rep, digest, driver_path, harness_path)
    engine.generate(seed, profile, n, size, prefix) -> [case text]
    engine.corpus(prop) -> [case text]
    engine.run_both(cases, harness, driver, shards) -> (impl, model)   dicts case id -> lines
    engine.compare_case(impl_lines, model_lines) -> dict(level=None|'spec'|'values'|'events'|'state'|'error', ...)
    engine.spec_only_compare(impl_lines, model_lines) -> dict(level=None|'spec', ...)
    engine.classify(case_text, model_lines) -> (set of features, nontrivial: bool)
    engine.shrink(case_text, still_fails, budget) -> case text
    engine.LEVELS                   list of strings describing the compared levels
    engine.OPS                      list of "(op " prefixes for the operation histogram
"""
import time

from . import common


def run_diff(ctx, engine, profiles, n_quick, n_thorough, oracle=None, known_class=None,
             nontrivial_rule=None, rule_text="", extra_assumptions=None, thm_note="", shards=8,
             finding_class=None):
    """finding_class(case, diff, impl_lines, model_lines) -> class name or None: a disagreement
    with the specification / an oracle that falls into a class listed for this property in
    /verif/known-findings.txt is reported as KNOWN-FINDING (exit 0); everything else, and every
    class that is not listed, is a VIOLATION."""
    t0 = time.time()
    proof_broken, rep, digest, driver, harness = engine.build(ctx)
    n = n_quick if ctx.tier == "quick" else n_thorough
    size = "quick" if ctx.tier == "quick" else "thorough"
    cases = list(engine.corpus(ctx.prop))
    ncorpus = len(cases)
    per = max(1, n // len(profiles))
    for p in profiles:
        cases += engine.generate(ctx.seed, p, per, size, prefix=f"{p}-")
    if driver is None:
        raise common.CheckError("model driver could not be built")
    impl, model = engine.run_both(cases, harness, driver, shards=shards)

    feats_count = {}
    distinct = set()
    nontrivial = 0
    corr_diffs = []
    spec_diffs = []
    oracle_diffs = []
    opcount = {}
    for c in cases:
        cid = c.split()[1]
        il, ml = impl.get(cid, ["ERROR missing"]), model.get(cid, ["ERROR missing"])
        r = engine.compare_case(il, ml)
        if r["level"] == "error":
            raise common.CheckError(f"driver error on case {cid}: {r}")
        if r["level"] == "spec":
            spec_diffs.append((c, r))
        elif r["level"] is not None:
            corr_diffs.append((c, r))
        if oracle is not None:
            o = oracle(c, il, ml)
            if o is not None:
                oracle_diffs.append((c, o))
        f, nt = engine.classify(c, ml)
        if nontrivial_rule is not None:
            nt = nontrivial_rule(f)
        for x in f:
            feats_count[x] = feats_count.get(x, 0) + 1
        h = common.case_hash(c.split(" ", 2)[2])
        if nt and h not in distinct:
            distinct.add(h)
            nontrivial += 1
        for opk in engine.OPS:
            opcount[opk.strip("( )")] = opcount.get(opk.strip("( )"), 0) + c.count(opk)

    def fails_spec(text):
        i2, m2 = engine.run_both([text], harness, driver, shards=1)
        cid = text.split()[1]
        if cid not in i2 or cid not in m2:
            return False
        return engine.compare_case(i2[cid], m2[cid])["level"] == "spec"

    def report_case(c, r, kind, no_input=False):
        ctx.violation(dict(kind=kind, engine=engine.NAME, case=c, first_difference=r,
                           how_to_replay="./vp replay <this file>"), no_input=no_input)

    listed = {kf["class"]: kf for kf in common.known_findings() if kf["property"] == ctx.prop}
    known_by_class = {}
    unlisted_by_class = {}

    def is_known(c, r):
        if finding_class is None:
            return False
        cid = c.split()[1]
        cls = finding_class(c, r, impl.get(cid, []), model.get(cid, []))
        if cls is None:
            return False
        if cls in listed:
            known_by_class.setdefault(cls, []).append(c)
            return True
        unlisted_by_class.setdefault(cls, []).append(c)
        r["finding_class_not_listed_in_known_findings"] = cls
        return False

    spec_diffs_all = spec_diffs
    spec_diffs = [(c, r) for c, r in spec_diffs if not is_known(c, r)]
    oracle_diffs_all = oracle_diffs
    oracle_diffs = [(c, o) for c, o in oracle_diffs if not is_known(c, o)]

    # (a) the implementation differs from the specification: a concrete failing input
    reported = 0
    for c, r in spec_diffs[:3]:
        small = engine.shrink(c, fails_spec, budget=120)
        i2, m2 = engine.run_both([small], harness, driver, shards=1)
        cid = small.split()[1]
        r2 = engine.compare_case(i2[cid], m2[cid])
        if r2["level"] and "finding_class_not_listed_in_known_findings" in r:
            r2["finding_class_not_listed_in_known_findings"] = r["finding_class_not_listed_in_known_findings"]
        report_case(small, r2 if r2["level"] else r, "implementation differs from the from-scratch specification")
        reported += 1
    known_met = 0
    for c, o in oracle_diffs:
        if known_class is not None and known_class(c, o):
            known_met += 1
            continue
        if reported < 3:
            report_case(c, o, "property oracle violated on the implementation")
            reported += 1
    if known_met:
        for kf in common.known_findings():
            if kf["property"] == ctx.prop:
                ctx.known_finding(f"class={kf['class']} {kf['text']} (met in {known_met} generated cases)")
    for cls, cs in sorted(known_by_class.items()):
        ctx.known_finding(f"class={cls} {listed[cls]['text']} (met in {len(cs)} generated cases, e.g. case {cs[0].split()[1]})")

    # (b) the property is no longer *shown*: a proof or the model/implementation correspondence broke
    searched = 0
    if reported == 0 and (proof_broken is not None or corr_diffs):
        extra = []
        for p in profiles:
            extra += engine.generate(ctx.seed + 7919, p, max(400, n_thorough // len(profiles)), "thorough",
                                     prefix=f"s-{p}-")
        i3, m3 = engine.run_both(extra, harness, driver, shards=2 * shards)
        searched = len(extra)
        found = None
        for c in extra:
            cid = c.split()[1]
            r3 = engine.compare_case(i3.get(cid, []), m3.get(cid, []))
            if r3["level"] != "spec":
                r3 = engine.spec_only_compare(i3.get(cid, []), m3.get(cid, []))

            def listed_class(diff):
                if finding_class is None:
                    return False
                cls = finding_class(c, diff, i3.get(cid, []), m3.get(cid, []))
                return cls is not None and cls in listed
            if r3["level"] == "spec" and not listed_class(r3):
                found = (c, r3)
                break
            if oracle is not None:
                o3 = oracle(c, i3.get(cid, []), m3.get(cid, []))
                if o3 is not None and not (known_class and known_class(c, o3)) and not listed_class(o3):
                    found = (c, o3)
                    break
        if found:
            small = engine.shrink(found[0], fails_spec, budget=120) if found[1].get("level") == "spec" else found[0]
            report_case(small, found[1], "failing input found after proof/correspondence broke")
        elif proof_broken is not None:
            ctx.violation(dict(kind="proof obligation no longer checks", broken=proof_broken,
                               theorem_file=f"coq/Props/{ctx.prop}.v",
                               search=f"{searched} extra cases compared with the specification, none fails"),
                          no_input=True)
        else:
            c, r = corr_diffs[0]

            def fails_corr(text):
                i2, m2 = engine.run_both([text], harness, driver, shards=1)
                cid = text.split()[1]
                return cid in i2 and cid in m2 and engine.compare_case(i2[cid], m2[cid])["level"] not in (None, "error")
            small = engine.shrink(c, fails_corr, budget=100)
            i2, m2 = engine.run_both([small], harness, driver, shards=1)
            r2 = engine.compare_case(i2[small.split()[1]], m2[small.split()[1]])
            ctx.violation(dict(kind="correspondence model/implementation no longer holds",
                               relation=f"{engine.NAME} model vs implementation at level {r['level']}",
                               case=small, first_difference=r2 if r2["level"] else r,
                               n_cases_differing=len(corr_diffs),
                               search=f"{searched} extra cases compared with the specification, none fails"),
                          no_input=True)

    sample = cases[ncorpus] if len(cases) > ncorpus else cases[0]
    ctx.coverage.update({
        "obligations": rep["obligations"] if rep else 0,
        "discharged": rep["discharged"] if rep else 0,
        "checker_cmd": f"make -C coq Props/{ctx.prop}.vo  (coqc 8.16.1, Print Assumptions captured and compared with coq/ASSUMPTIONS.allow)",
        "trusted_base": common.TRUSTED_BASE_COMMON + (extra_assumptions or []),
        "theorems": rep["statements"] if rep else [],
        "axioms_reported": rep["axioms"] if rep else [],
        "closed_under_global_context": rep["closed_count"] if rep else 0,
        "theorem_note": thm_note,
        "kernels_translated": [k.get("gallina_name") for k in digest.get("kernels", [])]
        if isinstance(digest, dict) and isinstance(digest.get("kernels"), list) else [],
        "evaluations": len(cases),
        "corpus_cases": ncorpus,
        "distinct_nontrivial": nontrivial,
        "rule": "seeded generation (profiles %s); %s; distinct = different program+history text" % (
            ",".join(profiles), rule_text),
        "traces_validated_against_impl": len(cases) - len(corr_diffs),
        "correspondence_levels": engine.LEVELS,
        "implementation_vs_spec_disagreements": len(spec_diffs_all),
        "implementation_vs_spec_disagreements_outside_known_classes": len(spec_diffs),
        "oracle_disagreements_outside_known_classes": len(oracle_diffs),
        "known_finding_classes_met": {k: len(v) for k, v in known_by_class.items()},
        "finding_classes_met_but_not_listed": {k: len(v) for k, v in unlisted_by_class.items()},
        "known_finding_samples": {k: v[0] for k, v in known_by_class.items()},
        "implementation_vs_model_disagreements": len(corr_diffs),
        "oracle_disagreements": len(oracle_diffs_all),
        "known_finding_cases": known_met,
        "failing_input_search_cases": searched,
        "feature_histogram": feats_count,
        "operation_histogram": opcount,
        "samples": [sample],
        "wall_s": round(time.time() - t0, 1),
    })
    ctx.assumptions = [
        "user code is deterministic in what it reads (salsa's contract)",
        "the hook dump reports internal state truthfully",
    ] + (extra_assumptions or [])
    ctx.write_evidence("proof")


def replay(ctx, engine, rp, oracle=None):
    """Re-run exactly the recorded case against the current /repo."""
    proof_broken, rep, digest, driver, harness = engine.build(ctx)
    if "case" not in rp:
        print("replay: no concrete input recorded; broken obligation:", rp.get("broken", rp.get("relation")))
        print("proof status now:", "broken" if proof_broken else "ok")
        return 1 if proof_broken else 0
    c = rp["case"]
    impl, model = engine.run_both([c], harness, driver, shards=1)
    cid = c.split()[1]
    r = engine.compare_case(impl[cid], model[cid])
    print("implementation:")
    print("\n".join(impl[cid]))
    print("model + specification:")
    print("\n".join(model[cid]))
    print("first difference:", r)
    o = oracle(c, impl[cid], model[cid]) if oracle is not None else None
    if oracle is not None:
        print("property oracle on the implementation:", o)
    return 1 if (r["level"] or o) else 0

"""Reference interpreter for the harness DSL: a from-scratch evaluation of a program at given
inputs/cells, in plain Python, independent of the Coq models.  Per node: value, pushed values
(push order), called functions (call order), input fields read, whether external state was read."""


def binop(o, a, b):
    if o == "add":
        return (a + b) % 256
    if o == "sub":
        return (a - b) % 256
    if o == "min":
        return min(a, b)
    if o == "max":
        return max(a, b)
    if o == "and":
        return a & b
    if o == "or":
        return a | b
    if o == "eq":
        return int(a == b)
    if o == "lt":
        return int(a < b)
    if o == "shr":
        return a >> (b % 8)
    raise ValueError(o)


class Node:
    __slots__ = ("value", "pushes", "callees", "reads", "untracked")

    def __init__(self):
        self.value, self.pushes, self.callees, self.reads, self.untracked = 0, [], [], [], False


class Ref:
    def __init__(self, nodes, nk, inputs, cells):
        self.nodes, self.nk, self.inputs, self.cells = nodes, nk, inputs, cells
        self.memo = {}

    def node(self, fam, key):
        if (fam, key) in self.memo:
            return self.memo[(fam, key)]
        n = Node()
        self.memo[(fam, key)] = n          # acyclic programs: never consulted before it is complete
        e = self.nodes.get((fam, key))
        n.value = self.ev(e, n) if e is not None else 0
        return n

    def ev(self, e, n):
        t = e[0]
        if t == "lit":
            return int(e[1])
        if t == "in":
            k = (int(e[1]), int(e[2]))
            n.reads.append(k)
            return self.inputs[k]
        if t == "call":
            k = self.ev(e[2], n) % self.nk
            n.callees.append((int(e[1]), k))
            return self.node(int(e[1]), k).value
        if t == "cell":
            n.untracked = True
            return self.cells.get(int(e[1]), 0)
        if t == "touch":
            n.untracked = True
            return 0
        if t == "panicif":
            return 0
        if t == "op":
            a = self.ev(e[2], n)
            b = self.ev(e[3], n)
            return binop(e[1], a, b)
        if t == "if":
            return self.ev(e[2], n) if self.ev(e[1], n) != 0 else self.ev(e[3], n)
        if t == "acc":
            v = self.ev(e[1], n)
            n.pushes.append(v)
            return v
        raise ValueError(t)

    def accumulated(self, fam, key):
        out, seen = [], set()

        def visit(q):
            if q in seen:
                return
            seen.add(q)
            n = self.node(*q)
            out.extend(n.pushes)
            for c in n.callees:
                visit(c)
        visit((fam, key))
        return out

    def closure(self, fam, key):
        """all functions transitively called by (fam, key), itself included"""
        seen = []

        def visit(q):
            if q in seen:
                return
            seen.append(q)
            for c in self.node(*q).callees:
                visit(c)
        visit((fam, key))
        return seen


def case_sections(tree):
    def sec(name):
        return next((x for x in tree[2:] if isinstance(x, list) and x and x[0] == name), [name])[1:]
    cfg = {x[0]: x[1:] for x in sec("cfg") if isinstance(x, list)}
    nk = int(cfg["nk"][0])
    ni = int(cfg["ni"][0])
    inputs = {}
    for i in range(max(ni, nk) + 1):
        for f in range(3):
            inputs[(i, f)] = 0
    for i, f, v in sec("ival"):
        inputs[(int(i), int(f))] = int(v)
    nodes = {(int(n[1]), int(n[2])): n[3] for n in sec("prog")}
    return nk, ni, inputs, nodes, sec("hist")

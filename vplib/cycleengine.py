"""Cycle correspondence engine: generators for cyclic programs (profiles cycles, fallback,
panic-cycles, diverge, stress), runner and 3-level diff.  Reuses the sequential engine's runner,
parser, diff and shrinker; adds the cycle-specific record kinds (C certificate, B body runs)."""
import os
import random
import re

from . import common
from . import seqengine as se

# function families of harness/src/cycle_harness.rs
PLAIN, FIX, FIXJOIN, FALLBACK, NOCYCLE = 0, 1, 2, 3, 4
NFAM = 5
FALLBACK_VALUE = 0xA5

PROFILES = {
    "mixed-panic":  dict(directed=True, spec="evalo"),
    # cyc: families of the nodes that may form cycles; top: family of acyclic callers;
    # ops: binary operators allowed in bodies; spec: specification column printed by the driver
    "cycles":       dict(cyc=[FIX, FIXJOIN], top=NOCYCLE, leaf=PLAIN, ops=["or", "and"], spec="kleene",
                         w=dict(set=34, get=54, synth=5, evict=4, setcell=0), p_dur=0.15, p_idur=0.2),
    "fallback":     dict(cyc=[FALLBACK], top=NOCYCLE, leaf=PLAIN, ops=["or", "and", "add", "sub", "max", "min"],
                         spec="fallback", w=dict(set=34, get=54, synth=5, evict=4, setcell=0), p_dur=0.15, p_idur=0.2),
    "panic-cycles": dict(cyc=[NOCYCLE, PLAIN], top=None, leaf=None, ops=["or", "and", "add", "sub", "max", "eq"],
                         spec="evalo", w=dict(set=38, get=52, synth=5, evict=3, setcell=0), p_dur=0.1, p_idur=0.1),
    "diverge":      dict(cyc=[FIX, FIXJOIN], top=NOCYCLE, leaf=PLAIN, ops=["add", "sub", "or", "and", "eq", "shr"],
                         spec="diverge", w=dict(set=36, get=54, synth=5, evict=3, setcell=0), p_dur=0.1, p_idur=0.1),
    # no specification column: implementation vs model only, every family anywhere, untracked reads
    "stress":       dict(cyc=[FIX, FIXJOIN, FALLBACK, PLAIN, NOCYCLE], top=None, leaf=None,
                         ops=["or", "and", "add", "sub", "max", "eq", "lt"], spec="none",
                         w=dict(set=30, get=52, synth=6, evict=6, setcell=6), p_dur=0.3, p_idur=0.4, p_cell=0.08),
}

MASKS = [0, 1, 2, 3, 4, 5, 8, 12, 16, 48, 64, 129, 255]


class CGen:
    def __init__(self, rng, profile, size):
        self.r = rng
        self.p = PROFILES[profile]
        self.profile = profile
        self.size = size

    # ---- expressions over inputs only (conditions, dynamic keys)
    def in_expr(self, ni, depth=1):
        r = self.r
        c = r.random()
        if depth <= 0 or c < 0.6:
            return ["in", r.randrange(ni), r.randrange(3)]
        if c < 0.8:
            return ["op", "and", self.in_expr(ni, depth - 1), ["lit", r.choice([1, 2, 3, 4, 6])]]
        if c < 0.9:
            return ["op", "eq", self.in_expr(ni, depth - 1), ["lit", r.choice([0, 1, 2, 3])]]
        return ["op", "lt", self.in_expr(ni, depth - 1), ["lit", r.choice([1, 2, 3])]]

    def call(self, ctx):
        """a call to one of the allowed targets; the key is a literal or computed from inputs"""
        r = self.r
        targets = ctx["targets"]
        if not targets:
            return None
        fam, key = r.choice(targets)
        if fam in self.p["cyc"] and r.random() < ctx.get("p_dyn", 0.2):
            # dynamic key (inputs only): may land on any key of the family, listed or not
            return ["call", fam, self.in_expr(ctx["ni"], 1)]
        return ["call", fam, ["lit", key]]

    def expr(self, depth, ctx):
        r = self.r
        ni = ctx["ni"]
        ops = ctx["ops"]
        leaf = depth <= 0 or r.random() < 0.22
        if leaf:
            c = r.random()
            if c < 0.22:
                return ["lit", r.choice(MASKS)]
            if c < 0.50:
                return ["in", r.randrange(ni), r.randrange(3)]
            if c < 0.50 + ctx.get("p_cell", 0.0):
                return ["cell", r.randrange(2)] if r.random() < 0.8 else ["touch"]
            t = self.call(ctx)
            return t if t is not None else ["in", r.randrange(ni), r.randrange(3)]
        c = r.random()
        if c < 0.40:
            t = self.call(ctx)
            if t is not None:
                if r.random() < 0.5:
                    return ["op", r.choice(ops), t, self.expr(depth - 1, ctx)]
                return t
        if c < 0.72:
            return ["op", r.choice(ops), self.expr(depth - 1, ctx), self.expr(depth - 1, ctx)]
        # input-controlled branch (the condition never depends on a callee)
        cond = self.in_expr(ni, 1)
        if ctx.get("free_cond") and r.random() < 0.3:
            cond = self.expr(depth - 1, ctx)
        return ["if", cond, self.expr(depth - 1, ctx), self.expr(depth - 1, ctx)]

    def case(self, cid):
        r = self.r
        p = self.p
        quick = self.size == "quick"
        nk = r.randint(2, 3) if quick else r.randint(2, 4)
        ni = r.randint(2, 3)
        cyc_nodes_all = [(f, k) for f in p["cyc"] for k in range(nk)]
        ncyc = min(len(cyc_nodes_all), r.randint(3, 6 if quick else 8))
        cyc_nodes = r.sample(cyc_nodes_all, ncyc)
        nodes = []
        leafs = []
        if p["leaf"] is not None:
            nleaf = r.randint(0, min(2, nk))
            for k in range(nleaf):
                ctx = dict(ni=ni, ops=p["ops"], targets=[(p["leaf"], j) for j in range(k)], p_dyn=0.0)
                nodes.append(["node", p["leaf"], k, self.expr(r.randint(0, 2), ctx)])
                leafs.append((p["leaf"], k))
        for (f, k) in cyc_nodes:
            targets = list(cyc_nodes) + leafs
            if self.profile == "panic-cycles":
                # mostly rank-respecting, a few back edges guarded by branches
                lower = [q for q in cyc_nodes if q < (f, k)]
                targets = lower * 3 + list(cyc_nodes)
            ctx = dict(ni=ni, ops=p["ops"], targets=targets, p_dyn=0.2, p_cell=p.get("p_cell", 0.0),
                       free_cond=self.profile in ("stress", "diverge", "panic-cycles"))
            nodes.append(["node", f, k, self.expr(r.randint(1, 3), ctx)])
        tops = []
        if p["top"] is not None:
            for k in range(r.randint(0, min(2, nk))):
                ctx = dict(ni=ni, ops=p["ops"], targets=list(cyc_nodes) + leafs + [(p["top"], j) for j in range(k)],
                           p_dyn=0.1)
                nodes.append(["node", p["top"], k, self.expr(r.randint(1, 2), ctx)])
                tops.append((p["top"], k))
        ival = [[i, f, r.choice(MASKS)] for i in range(ni) for f in range(3)]
        idur = [[i, f, r.choice([0, 1, 2])] for i in range(ni) for f in range(3) if r.random() < p["p_idur"]]
        everything = cyc_nodes + leafs + tops
        hist = []
        nphases = r.randint(2, 4) if quick else r.randint(3, 7)
        w = p["w"]
        kinds = [k for k in w if w[k] > 0]
        weights = [w[k] for k in kinds]
        for ph in range(nphases):
            # every cyclic node is an entry point in some phase; order shuffled
            entry = list(everything)
            r.shuffle(entry)
            if ph > 0:
                entry = entry[:r.randint(1, len(entry))]
            for q in entry:
                hist.append(["get", q[0], q[1]])
                if r.random() < 0.08:
                    hist.append(["get", q[0], q[1]])
            for _ in range(r.randint(1, 4)):
                k = r.choices(kinds, weights)[0]
                if k == "set" or k == "get":
                    i, f = r.randrange(ni), r.randrange(3)
                    v = r.choice(MASKS if r.random() < 0.7 else [0, 0, 1])
                    op = ["set", i, f, v]
                    if r.random() < p["p_dur"]:
                        op.append(r.choice([0, 1, 2]))
                    hist.append(op)
                elif k == "synth":
                    hist.append(["synth", r.choice([0, 0, 1, 2])])
                elif k == "evict":
                    hist.append(["evict"])
                elif k == "setcell":
                    hist.append(["setcell", r.randrange(2), r.choice([0, 1, 2, 255])])
                    hist.append(["synth", r.choice([0, 0, 1])])
        if self.profile == "diverge":
            # the writes that make everything converge: all inputs to 0, then every node again
            for i in range(ni):
                for f in range(3):
                    hist.append(["set", i, f, 0])
            for q in everything:
                hist.append(["get", q[0], q[1]])
        q = r.choice(everything)
        hist.append(["get", q[0], q[1]])
        return se.sx(["case", cid, ["cfg", ["nk", nk], ["ni", ni], ["nf", 3], ["nfam", NFAM], ["spec", p["spec"]]],
                      ["ival"] + ival, ["idur"] + idur, ["prog"] + nodes, ["hist"] + hist])


def mixed_panic_case(r, cid, size):
    """Directed family (a seeded defect the random profiles missed made it necessary): a function
    WITHOUT cycle recovery (entry) calls a fixpoint head; while an input bit is set the head calls
    participants (with or without recovery, reading only the head) and then, directly or through a
    helper, the entry again: the cycle through the entry panics and ABANDONS the provisional memos
    the participants completed against the head's provisional value.  Then a write removes every
    cycle and all functions are requested in a random order: every result must equal the
    from-scratch evaluation (specification evalo; while the cycle exists only the entry is
    requested, whose from-scratch evaluation re-enters a node = cycle error)."""
    nk = 3
    ni = 2
    c_i, c_f = r.randrange(ni), r.randrange(3)
    d_i, d_f = r.randrange(ni), r.randrange(3)
    while (d_i, d_f) == (c_i, c_f):
        d_i, d_f = r.randrange(ni), r.randrange(3)
    head_f = r.choice([FIX, FIXJOIN])
    ent_f = r.choice([NOCYCLE, PLAIN])
    oth = PLAIN if ent_f == NOCYCLE else NOCYCLE
    head = (head_f, 0)
    entry = (ent_f, 0)
    npart = r.randint(1, 2)
    parts = [(r.choice([oth, head_f]), 1 + j) for j in range(npart)]
    nodes = []
    for (f, k) in parts:
        nodes.append(["node", f, k, ["op", r.choice(["or", "add", "max"]), ["call", head[0], ["lit", head[1]]],
                                     ["lit", r.choice([1, 2, 4, 8])]]])
    through_parts = ["call", parts[0][0], ["lit", parts[0][1]]]
    for (f, k) in parts[1:]:
        through_parts = ["op", "or", through_parts, ["call", f, ["lit", k]]]
    back = ["call", entry[0], ["lit", entry[1]]]
    if r.random() < 0.4:
        helper = (oth, 0) if (oth, 0) not in parts else (ent_f, 1)
        nodes.append(["node", helper[0], helper[1], back])
        back = ["call", helper[0], ["lit", helper[1]]]
    else:
        helper = None
    acyclic = ["in", d_i, d_f] if r.random() < 0.5 else ["lit", r.choice([3, 10, 16])]
    nodes.append(["node", head[0], head[1], ["if", ["in", c_i, c_f], ["op", r.choice(["or", "max"]), through_parts, back], acyclic]])
    nodes.append(["node", entry[0], entry[1], ["call", head[0], ["lit", head[1]]]])
    ival = [[i, f, 0] for i in range(ni) for f in range(3)]
    for x in ival:
        if (x[0], x[1]) == (c_i, c_f):
            x[2] = 1
        elif (x[0], x[1]) == (d_i, d_f):
            x[2] = r.choice(MASKS)
    everything = [entry, head] + parts + ([helper] if helper else [])
    hist = [["get", entry[0], entry[1]]]
    for ph in range(r.randint(1, 3)):
        if r.random() < 0.3:
            hist.append(["get", entry[0], entry[1]])
        if r.random() < 0.3:
            hist.append(["set", d_i, d_f, r.choice(MASKS)])
            hist.append(["get", entry[0], entry[1]])
        hist.append(["set", c_i, c_f, 0])                     # the cycle is gone
        order = list(everything)
        r.shuffle(order)
        for q in order[:r.randint(2, len(order))]:
            hist.append(["get", q[0], q[1]])
        if r.random() < 0.5:
            hist.append(["set", d_i, d_f, r.choice(MASKS)])
            r.shuffle(order)
            for q in order[:r.randint(1, len(order))]:
                hist.append(["get", q[0], q[1]])
        if ph + 1 < 3:
            hist.append(["set", c_i, c_f, 1])                 # the cycle is back
            hist.append(["get", entry[0], entry[1]])
    hist.append(["set", c_i, c_f, 0])
    for q in everything:
        hist.append(["get", q[0], q[1]])
    return se.sx(["case", cid, ["cfg", ["nk", nk], ["ni", ni], ["nf", 3], ["nfam", NFAM], ["spec", "evalo"]],
                  ["ival"] + ival, ["idur"], ["prog"] + nodes, ["hist"] + hist])


def generate(seed, profile, n, size, prefix="c"):
    rng = random.Random(f"cycle/{seed}/{profile}/{size}")
    if profile == "mixed-panic":
        return [mixed_panic_case(rng, f"{prefix}{i}", size) for i in range(n)]
    g = CGen(rng, profile, size)
    return [g.case(f"{prefix}{i}") for i in range(n)]


def corpus(prop):
    return se.corpus(prop)


# ------------------------------------------------------------------ running / comparing

def run_both(cases, harness_bin, driver_bin, shards=6):
    return se.run_both(cases, harness_bin, driver_bin, shards=shards)


def split_lines(lines):
    """seqengine.split_lines + the model-only records C (certificate) and B (body runs)"""
    d = se.split_lines(lines)
    d["C"], d["B"] = {}, {}
    for l in lines:
        m = re.match(r"^([CB]) (\d+) (\d+)$", l)
        if m:
            d[m.group(1)][int(m.group(2))] = int(m.group(3))
    return d


# state fields compared: everything both sides print (see STATE_FIELDS); nothing is masked.
STATE_FIELDS = ("Runtime.revisions (current, last MEDIUM, last HIGH), cancellation count, every input field "
                "(value, changed_at, durability), every memo (has_value, verified_at, changed_at, durability, "
                "untracked origin, edge list in order, verified_final, iteration byte, cancellation byte of the "
                "stamp, cycle heads in vector order with their iteration byte)")
STATE_EXCLUDED = ("memo values (not printable through the hook: only has_value); heads marked `removed` (skipped "
                  "by every reader); WITHOUT hooks/H7-cycle.patch in /repo also: the cycle_converged flag, SyncTable "
                  "entries and DependencyGraph.transferred (their effects are then observed only through later "
                  "claims) — with H7 applied these three are compared too")


def _strip_h7(line):
    """drop the fields only hook H7 reports: per-memo converged flag, sync table, transferred map"""
    line = re.sub(r" sync=\S*$", "", line)
    return re.sub(r"\]:\d;", "];", line)


def h7_present(impl_lines):
    return any(l.startswith("S ") and " sync=" in l for l in impl_lines)


def compare_case(impl_lines, model_lines):
    """3-level diff.  The model always prints the H7 fields (cycle_converged per memo, SyncTable
    entries, DependencyGraph.transferred); they are compared when the implementation's hook
    reports them (hooks/H7-cycle.patch applied) and dropped from the model's lines otherwise."""
    if not h7_present(impl_lines):
        model_lines = [_strip_h7(l) if l.startswith("S ") else l for l in model_lines]
    return se.compare_case(impl_lines, model_lines)


def spec_only_compare(impl_lines, model_lines):
    a = se.split_lines(impl_lines)
    b = se.split_lines(model_lines)
    for i in sorted(b["V"]):
        if b["R"].get(i) == "panic 5":
            continue
        want = "panic 2" if b["V"][i] == "cycle" else b["V"][i]
        if a["R"].get(i) != want and not (b["V"][i] == "cycle" and a["R"].get(i) == "panic 7"):
            return dict(level="spec", step=i, impl=a["R"].get(i), model=want)
    return dict(level=None)


def parse_memos(st):
    memos = {}
    m = re.search(r"memo=(\S*)", st)
    if m:
        for ent in m.group(1).split(";"):
            if ent:
                k, hv, ver, ch, du, un, rest = ent.split(":", 6)
                mm = re.match(r"^\[(.*?)\]:(\d):(\d+):(\d+):\[(.*?)\]", rest)   # (+ optional :conv with H7)
                memos[k] = dict(hv=hv, ver=int(ver), ch=int(ch), dur=int(du), untr=un, edges=mm.group(1),
                                final=mm.group(2) == "1", it=int(mm.group(3)), cc=int(mm.group(4)),
                                heads=[h for h in mm.group(5).split(",") if h])
    return memos


def classify(model_lines):
    """Features of a case from the model's own records."""
    d = split_lines(model_lines)
    feats = set()
    seen_exec = set()
    for i in sorted(d["R"]):
        ev = d["E"].get(i, "").split()
        heads_iter = {}
        for e in ev:
            t, rest = e.split(":", 1)
            if t == "x":
                if rest in seen_exec:
                    feats.add("reexec")
                seen_exec.add(rest)
            elif t == "v":
                feats.add("validate")
            elif t == "i":
                k, it = rest.split("@")
                feats.add("iterate")
                heads_iter.setdefault(k, 0)
                heads_iter[k] = max(heads_iter[k], int(it))
                if int(it) >= 2:
                    feats.add("iterate>=2")
                if int(it) >= 100:
                    feats.add("iterate>=100")
            elif t == "f":
                feats.add("finalize")
        if len(heads_iter) >= 2:
            feats.add("two_heads_iterating_in_one_get")
        memos = parse_memos(d["S"].get(i, ""))
        for k, mm in memos.items():
            if len(mm["heads"]) >= 2:
                feats.add("nested_heads")
            if not mm["final"] and mm["hv"] == "1":
                feats.add("provisional_left")
            if mm["hv"] == "0":
                feats.add("poisoned")
            if mm["final"] and mm["heads"]:
                feats.add("lazily_finalized")
            if mm["cc"] > 0:
                feats.add("stamp_epoch>0")
            if mm["untr"] == "1":
                feats.add("untracked")
            if mm["dur"] > 0:
                feats.add("durable_memo")
        r = d["R"][i]
        if r == "panic 2":
            feats.add("cycle_panic")
        if r == "panic 4":
            feats.add("too_many_panic")
        if r == "panic 7":
            feats.add("propagated_panic")
        if r == "panic 99":
            feats.add("internal_assert")
        if r == "panic 3":
            feats.add("backdate_panic")
        if d["C"].get(i) == 0:
            feats.add("certificate_false")
        if d["C"].get(i) == 1:
            feats.add("certificate_true")
        if d["B"].get(i, 0) >= 3:
            feats.add("body_runs>=3")
    return feats


# ------------------------------------------------------------------ known deviation classes
# Real-crate deviations from the property texts that the Cycle model reproduces step by step.
# Each predicate identifies the MECHANISM on the records up to the first differing step, so a
# different violation of the same property is still reported.

def _ghost_values(model_lines):
    vals = {}
    for l in model_lines:
        m = re.match(r"^M (\d+) (.*)$", l)
        if m:
            vals[int(m.group(1))] = dict(x.split("=") for x in m.group(2).split(";") if x)
    return vals


def known_class(case_text, impl_lines, model_lines, diff):
    """-> class name or None, for a `spec`-level difference (implementation == model != spec)."""
    if diff.get("level") != "spec":
        return None
    a = se.split_lines(impl_lines)
    b = se.split_lines(model_lines)
    step = diff["step"]
    if diff.get("impl") == "panic 3":
        # salsa's own backdate-violation assertion (debug builds) in a program without untracked reads
        if b["R"].get(step) == "panic 3" and "(cell " not in case_text and "(touch)" not in case_text:
            return "backdate_violation_participant_after_head_backdated"
        return None
    # D: a former cycle participant (final memo that still lists cycle heads) is VALIDATED in the
    #    failing step on its own flattened edge list, which misses inputs that the head only
    #    reached later in the last iteration: a stale value is reused
    def participant_validated(i):
        memos = parse_memos(a["S"].get(i, ""))
        evs = a["E"].get(i, "").split()
        executed = {e.split(":", 1)[1] for e in evs if e.startswith("x:")}
        for e in evs:
            if e.startswith("v:"):
                k = e.split(":", 1)[1]
                m = memos.get(k)
                if m and k not in executed and int(k.split(".")[0]) in (FIX, FIXJOIN, FALLBACK) \
                        and m["final"] and m["heads"]:
                    return True
        return False
    if "(spec fallback)" not in case_text:
        if ("(spec kleene)" in case_text or "(spec diverge)" in case_text) and participant_validated(step):
            return "cycle_participant_validated_on_incomplete_edges"
        if "(spec diverge)" in case_text:
            # E (non-monotone bodies only): the final value of a fixpoint member was forced by the
            #    cycle_fn (join / iteration cap), i.e. it is NOT what its body returns for its
            #    dependencies' final values.  When a write removes the cycle, the member re-executes
            #    outside any cycle and returns a different value, but its changed_at is the maximum
            #    over its (unchanged, backdated) dependencies and does not move past its old
            #    verified_at: dependents are validated with the stale value.
            vals = _ghost_values(model_lines)
            prev, prev_vals = {}, {}
            for i in sorted(a["R"]):
                if i > step:
                    break
                memos = parse_memos(a["S"].get(i, ""))
                for e in a["E"].get(i, "").split():
                    t, rest = e.split(":", 1)
                    if t != "x" or int(rest.split(".")[0]) not in (FIX, FIXJOIN):
                        continue
                    pm, nm = prev.get(rest), memos.get(rest)
                    if not pm or not nm or pm["hv"] != "1" or not pm["final"]:
                        continue
                    ov, nv = prev_vals.get(rest), vals.get(i, {}).get(rest)
                    if nm["final"] and not nm["heads"] and ov is not None and nv is not None and ov != nv \
                            and nm["ch"] <= pm["ver"]:
                        return "forced_cycle_value_change_not_propagated"
                prev, prev_vals = memos, vals.get(i, {})
        return None
    vals = _ghost_values(model_lines)
    cyc = {}
    for l in model_lines:
        m = re.match(r"^Y (\d+) ?(.*)$", l)
        if m:
            cyc[int(m.group(1))] = set(x for x in m.group(2).split(",") if x)
    prev, prev_vals = {}, {}
    for i in sorted(a["R"]):
        if i > step:
            break
        memos = parse_memos(a["S"].get(i, ""))
        for e in a["E"].get(i, "").split():
            t, rest = e.split(":", 1)
            if t != "x" or not rest.startswith(f"{FALLBACK}."):
                continue
            pm, nm = prev.get(rest), memos.get(rest)
            if not pm or not nm or pm["hv"] != "1":
                continue
            completed_outside_cycle = nm["final"] and not nm["heads"]
            # A: a participant memo that was still provisional (its cycle completed earlier, it was
            #    never read again) is re-executed and completes outside any cycle
            if (not pm["final"]) and completed_outside_cycle:
                return "fallback_participant_reexecuted_after_revision"
            # C: a node that IS on a cycle of the current call graph is re-executed and completes
            #    without cycle heads, because another member's memo was reused (validated) instead of
            #    being re-executed: the cycle is not detected again
            if completed_outside_cycle and rest in cyc.get(i, set()) and any(
                    e2.startswith(f"v:{FALLBACK}.") for e2 in a["E"].get(i, "").split()):
                return "fallback_cycle_not_redetected_member_validated"
            # B: a former cycle member is re-executed, completes outside any cycle with a different
            #    value, but its changed_at does not move past its old verified_at
            ov, nv = prev_vals.get(rest), vals.get(i, {}).get(rest)
            if completed_outside_cycle and ov == str(FALLBACK_VALUE) and nv is not None and ov != nv \
                    and nm["ch"] <= pm["ver"]:
                return "fallback_membership_change_not_propagated"
        prev, prev_vals = memos, vals.get(i, {})
    return None


shrink = se.shrink
parse_sx = se.parse_sx
sx = se.sx

"""Parallel-read correspondence engine (C16, C17, C14 cross-thread).

Cases are the sequential engine's cases (same program / input / history syntax, families 0 =
plain and 2 = noeq only) whose read phases are `(par (T (get F K)..) (T ..) ..)` groups: one
thread per T, each on its own clone of the database, started together; writes by the main
handle between the groups.

  * generator: acyclic programs with shared sub-queries, 2-4 threads, overlapping request
    sets, several revisions (profile `acyclic`); programs with input-guarded cycles through
    functions without recovery, entered from both ends (profile `cross-cycles`);
  * specification: the par groups are flattened (thread after thread) and the case is run
    through the extracted Core model + from-scratch specification (`V` column of
    ocaml/core_driver.ml) — the value a single-threaded evaluation returns;
  * implementation: /verif/harness-par (`par_harness`), `--iters` schedules per case (shuttle
    PCT / random, or OS threads with randomised rendezvous);
  * checks per schedule: values == specification, no shuttle failure (deadlock, step bound,
    panic), at most one WillExecute per (key, revision).
"""
import os
import random
import re
import subprocess
import tempfile

from . import common
from . import seqengine as se

OPS = se.OPS
FAMS = [0, 2]


def sx(x):
    return se.sx(x)


# ------------------------------------------------------------------ generation

class Gen:
    def __init__(self, rng, size):
        self.r = rng
        self.size = size

    # ---- expressions over inputs and rank-respecting calls
    def expr(self, depth, ctx):
        r = self.r
        if depth <= 0 or r.random() < 0.2:
            c = r.random()
            if c < 0.25:
                return ["lit", r.choice([0, 1, 2, 3])]
            if c < 0.55:
                return ["in", r.randrange(ctx["ni"]), r.randrange(3)]
            t = self.call(ctx, depth)
            return t if t is not None else ["in", r.randrange(ctx["ni"]), r.randrange(3)]
        c = r.random()
        if c < 0.45:
            t = self.call(ctx, depth)
            if t is not None:
                return t
        if c < 0.85:
            return ["op", r.choice(OPS), self.expr(depth - 1, ctx), self.expr(depth - 1, ctx)]
        return ["if", self.expr(depth - 1, ctx), self.expr(depth - 1, ctx), self.expr(depth - 1, ctx)]

    def call(self, ctx, depth):
        """rank = fam_order[fam] * nk + key; calls go strictly down.  Hubs (low keys of the low
        family) are preferred so that sub-queries are shared between the requested tops."""
        r = self.r
        nk = ctx["nk"]
        me_f, me_k = ctx["me"]
        order = ctx["fam_order"]
        lower = [f for f in FAMS if order[f] < order[me_f]]
        opts = []
        if lower:
            opts += ["static_lower", "static_lower", "dyn"]
        if me_k > 0:
            opts += ["same_fam", "same_fam"]
        if not opts:
            return None
        o = r.choice(opts)
        if o == "dyn":
            fam = r.choice(lower)
            sub = self.expr(min(depth - 1, 1), dict(ctx, me=(fam, 0)))
            return ["call", fam, sub]
        if o == "static_lower":
            k = r.randrange(nk) if r.random() < 0.5 else r.randrange(min(2, nk))
            return ["call", r.choice(lower), ["lit", k]]
        k = r.randrange(me_k) if r.random() < 0.5 else 0
        return ["call", me_f, ["lit", k]]

    def writes(self, ni, p_dur):
        r = self.r
        out = []
        for _ in range(r.choice([1, 1, 2])):
            if r.random() < 0.12:
                out.append(["synth", r.choice([0, 0, 1, 2])])
            else:
                op = ["set", r.randrange(ni), r.randrange(3), r.choice([0, 1, 2, 3])]
                if r.random() < p_dur:
                    op.append(r.choice([0, 1, 2]))
                out.append(op)
        return out

    def acyclic(self, cid):
        r = self.r
        # the from-scratch specification is evaluated without memoisation: keep the call graphs
        # small (<= 10 nodes, as in the sequential engine)
        nk = r.randint(3, 4 if self.size == "quick" else 5)
        ni = nk
        fam_order = {0: 0, 2: 1} if r.random() < 0.5 else {0: 1, 2: 0}
        nodes = []
        for fam in FAMS:
            for k in range(nk):
                if r.random() < 0.9:
                    ctx = dict(nk=nk, ni=ni, me=(fam, k), fam_order=fam_order)
                    nodes.append(["node", fam, k, self.expr(r.randint(1, 3), ctx)])
        ival = [[i, f, r.choice([0, 1, 2, 3])] for i in range(ni) for f in range(3)]
        idur = []
        durable = r.random() < 0.3
        if durable:
            idur = [[i, f, r.choice([0, 0, 1, 2])] for i in range(ni) for f in range(3) if r.random() < 0.4]
        top_fam = max(FAMS, key=lambda f: fam_order[f])
        hot = [(top_fam, k) for k in range(nk)][-3:] + [(min(FAMS, key=lambda f: fam_order[f]), nk - 1)]
        allnodes = [(n[1], n[2]) for n in nodes]
        hist = []
        rounds = r.randint(2, 3 if self.size == "quick" else 5)
        for rd in range(rounds):
            nth = r.randint(2, 4)
            threads = []
            for _ in range(nth):
                gets = []
                for _ in range(r.randint(1, 3)):
                    f, k = r.choice(hot) if r.random() < 0.7 else r.choice(allnodes)
                    gets.append(["get", f, k])
                threads.append(["T"] + gets)
            hist.append(["par"] + threads)
            if r.random() < 0.3:
                f, k = r.choice(allnodes)
                hist.append(["get", f, k])
            if rd + 1 < rounds:
                hist += self.writes(ni, 0.5 if durable else 0.1)
        return sx(["case", cid, ["cfg", ["nk", nk], ["ni", ni], ["nf", 3], ["nfam", 3]],
                   ["ival"] + ival, ["idur"] + idur, ["prog"] + nodes, ["hist"] + hist])

    def static_low(self, cid):
        """Profile of the CFetch-level trace replay (hook H10): what CFetch2 models exactly —
        static call lists (literal keys, every call unconditional, no callee twice in one body,
        every body reads an input so that no memo gets a higher durability), LOW durabilities
        only.  Same history shape as `acyclic`."""
        r = self.r
        nk = r.randint(3, 4 if self.size == "quick" else 5)
        ni = nk
        fam_order = {0: 0, 2: 1} if r.random() < 0.5 else {0: 1, 2: 0}
        rank = lambda f, k: fam_order[f] * nk + k
        allk = [(f, k) for f in FAMS for k in range(nk)]
        nodes = []
        for (f, k) in allk:
            lower = [x for x in allk if rank(*x) < rank(f, k)]
            hubs = sorted(lower, key=lambda x: rank(*x))[:3]
            cal = []
            for _ in range(r.choice([0, 1, 1, 2, 2, 3])):
                if not lower:
                    break
                c = r.choice(hubs) if r.random() < 0.5 else r.choice(lower)
                if c not in cal:
                    cal.append(c)
            e = ["in", r.randrange(ni), r.randrange(3)]
            if r.random() < 0.4:
                e = ["op", r.choice(OPS), e, ["lit", r.choice([0, 1, 2, 3])]]
            for c in cal:
                ce = ["call", c[0], ["lit", c[1]]]
                if r.random() < 0.3:
                    ce = ["op", r.choice(OPS), ce, ["in", r.randrange(ni), r.randrange(3)]]
                e = ["op", r.choice(OPS), e, ce] if r.random() < 0.5 else ["op", r.choice(OPS), ce, e]
            nodes.append(["node", f, k, e])
        ival = [[i, f, r.choice([0, 1, 2, 3])] for i in range(ni) for f in range(3)]
        top_fam = max(FAMS, key=lambda f: fam_order[f])
        hot = [(top_fam, k) for k in range(nk)][-3:] + [(min(FAMS, key=lambda f: fam_order[f]), nk - 1)]
        hist = []
        rounds = r.randint(2, 3 if self.size == "quick" else 5)
        for rd in range(rounds):
            threads = []
            for _ in range(r.randint(2, 4)):
                gets = []
                for _ in range(r.randint(1, 3)):
                    f, k = r.choice(hot) if r.random() < 0.7 else r.choice(allk)
                    gets.append(["get", f, k])
                threads.append(["T"] + gets)
            hist.append(["par"] + threads)
            if r.random() < 0.3:
                f, k = r.choice(allk)
                hist.append(["get", f, k])
            if rd + 1 < rounds:
                for _ in range(r.choice([1, 1, 2])):
                    if r.random() < 0.12:
                        hist.append(["synth", 0])
                    else:
                        hist.append(["set", r.randrange(ni), r.randrange(3), r.choice([0, 1, 2, 3])])
        return sx(["case", cid, ["cfg", ["nk", nk], ["ni", ni], ["nf", 3], ["nfam", 3]],
                   ["ival"] + ival, ["idur"], ["prog"] + nodes, ["hist"] + hist])

    def cross_cycles(self, cid):
        """a <-> b (optionally through a third node) guarded by an input; entered from both ends on
        two threads, a third thread reads something unrelated or joins the cycle; then the cycle
        is broken by a write, read again, re-made, read again."""
        r = self.r
        nk = r.randint(3, 4)
        ni = nk
        fa, fb = r.choice(FAMS), r.choice(FAMS)
        ka, kb = r.sample(range(nk), 2)
        gi, gf = r.randrange(ni), r.randrange(3)        # the guard input
        via = None
        if r.random() < 0.4:
            fv = r.choice(FAMS)
            kv = r.choice([k for k in range(nk) if (fv, k) not in ((fa, ka), (fb, kb))])
            via = (fv, kv)
        other = ["in", r.randrange(ni), r.randrange(3)]
        nodes = {}
        call_b = ["call", fb, ["lit", kb]]
        nodes[(fa, ka)] = ["if", ["in", gi, gf], ["op", r.choice(["add", "max", "or"]), call_b, other],
                           ["lit", r.choice([1, 2, 5])]]
        back = ["call", fa, ["lit", ka]]
        if via is not None:
            nodes[(fb, kb)] = ["op", r.choice(["add", "min"]), ["call", via[0], ["lit", via[1]]], ["lit", 1]]
            nodes[via] = ["op", "add", back, ["in", r.randrange(ni), r.randrange(3)]]
        else:
            nodes[(fb, kb)] = ["op", r.choice(["add", "min", "sub"]), back, ["in", r.randrange(ni), r.randrange(3)]]
        # unrelated nodes (may call each other downwards, never into the cycle)
        free = [(f, k) for f in FAMS for k in range(nk) if (f, k) not in nodes]
        unrelated = []
        for (f, k) in free:
            if r.random() < 0.6:
                e = ["op", r.choice(OPS), ["in", r.randrange(ni), r.randrange(3)],
                     ["lit", r.choice([0, 1, 2, 3])]]
                if unrelated and r.random() < 0.5:
                    uf, uk = r.choice(unrelated)
                    e = ["op", "add", e, ["call", uf, ["lit", uk]]]
                nodes[(f, k)] = e
                unrelated.append((f, k))
        if not unrelated:
            f, k = free[0]
            nodes[(f, k)] = ["in", 0, 0]
            unrelated.append((f, k))
        ival = [[i, f, r.choice([0, 1, 2, 3])] for i in range(ni) for f in range(3)]
        for x in ival:
            if x[0] == gi and x[1] == gf:
                x[2] = r.choice([1, 2, 3])              # the cycle exists in revision 1
        members = [(fa, ka), (fb, kb)] + ([via] if via else [])

        def group():
            ts = [["T", ["get", fa, ka]], ["T", ["get", fb, kb]]]
            if r.random() < 0.7:
                c = r.random()
                if c < 0.4:
                    u = r.choice(unrelated)
                    ts.append(["T", ["get", u[0], u[1]]])
                elif c < 0.7:
                    m = r.choice(members)
                    u = r.choice(unrelated)
                    ts.append(["T", ["get", m[0], m[1]], ["get", u[0], u[1]]])
                else:
                    m = r.choice(members)
                    ts.append(["T", ["get", m[0], m[1]]])
            r.shuffle(ts)
            return ["par"] + ts
        u = r.choice(unrelated)
        hist = [group(), ["get", u[0], u[1]],
                ["set", gi, gf, 0], group(), ["get", fa, ka],
                ["set", gi, gf, r.choice([1, 2])], group(), ["get", u[0], u[1]],
                ["set", gi, gf, 0], ["get", fb, kb]]
        nl = [["node", f, k, e] for (f, k), e in sorted(nodes.items())]
        return sx(["case", cid, ["cfg", ["nk", nk], ["ni", ni], ["nf", 3], ["nfam", 3]],
                   ["ival"] + ival, ["idur"], ["prog"] + nl, ["hist"] + hist])


def generate(seed, profile, n, size, prefix="p"):
    rng = random.Random(f"{seed}/par/{profile}/{size}")
    g = Gen(rng, size)
    f = {"acyclic": g.acyclic, "static-low": g.static_low}.get(profile, g.cross_cycles)
    return [f(f"{prefix}{i}") for i in range(n)]


def corpus(prop):
    return se.corpus(prop)


# ------------------------------------------------------------------ flattening / specification

def hist_of(tree):
    return next(x for x in tree[2:] if isinstance(x, list) and x and x[0] == "hist")


def flatten(case_text):
    """-> (sequential case text, index map).  index map: flat op index -> (op index, who, pos)
    with who = 'm' or the thread index."""
    tree = se.parse_sx(case_text)
    h = hist_of(tree)
    flat, imap = [], {}
    for idx, op in enumerate(h[1:]):
        if op[0] == "par":
            for t, th in enumerate(op[1:]):
                for pos, g in enumerate(th[1:]):
                    imap[len(flat)] = (idx, str(t), pos)
                    flat.append(g)
        else:
            if op[0] == "get":
                imap[len(flat)] = (idx, "m", 0)
            flat.append(op)
    h[1:] = flat
    # the core driver wants the lru declaration of the sequential engine's family 1
    for it in tree[2:]:
        if isinstance(it, list) and it and it[0] == "cfg" and not any(isinstance(c, list) and c[0] == "lru" for c in it[1:]):
            it.append(["lru", "1", "2"])
    return sx(tree), imap


def run_driver(texts, driver_bin, shards=6):
    os.makedirs(os.path.join(common.BUILD, "cases"), exist_ok=True)
    procs = []
    for ch in [texts[i::shards] for i in range(shards) if texts[i::shards]]:
        fd, path = tempfile.mkstemp(prefix="parspec", suffix=".txt", dir=os.path.join(common.BUILD, "cases"))
        with os.fdopen(fd, "w") as f:
            f.write("\n".join(ch) + "\n")
        procs.append((path, subprocess.Popen([driver_bin, path], stdout=subprocess.PIPE, stderr=subprocess.DEVNULL, text=True)))
    out = {}
    for path, p in procs:
        o, _ = p.communicate(timeout=1800)
        os.unlink(path)
        if p.returncode != 0:
            raise common.CheckError(f"model driver exited with {p.returncode}")
        out.update(se.parse_output(o))
    return out


def specification(cases, driver_bin):
    """-> {case id: {(op, who, pos): 'N' | 'cycle'}}; also checks that the Core MODEL agrees with
    the from-scratch specification on the flattened case (model = spec is C01's theorem; a
    difference here is a broken pipeline, not a finding)."""
    flats, maps = [], {}
    for c in cases:
        ft, imap = flatten(c)
        flats.append(ft)
        maps[c.split()[1]] = imap
    out = run_driver(flats, driver_bin)
    spec = {}
    for cid, imap in maps.items():
        lines = out.get(cid)
        if lines is None:
            raise common.CheckError(f"model driver produced nothing for case {cid}")
        d = se.split_lines(lines)
        if d["ERROR"]:
            raise common.CheckError(f"model driver error on case {cid}: {d['ERROR'][:2]}")
        sp = {}
        for fi, key in imap.items():
            v = d["V"].get(fi)
            if v is None:
                raise common.CheckError(f"no specification value for case {cid} op {fi}")
            r = d["R"].get(fi)
            want = "panic 2" if v == "cycle" else v
            if r != want:
                raise common.CheckError(f"Core model and specification disagree on flattened case {cid} op {fi}: {r} vs {want}")
            sp[key] = "cycle" if v == "cycle" else v.split()[1]
        spec[cid] = sp
    return spec


# ------------------------------------------------------------------ running the implementation

def parse_results(text):
    """'op:who=r,r/who=r;op:..' -> {(op, who, pos): r}"""
    out = {}
    if text in ("-", ""):
        return out
    for part in text.split(";"):
        op, rest = part.split(":", 1)
        for wr in rest.split("/"):
            who, rs = wr.split("=", 1) if "=" in wr else (wr, "")
            for pos, r in enumerate(x for x in rs.split(",") if x != ""):
                out[(int(op), who, pos)] = r
    return out


def parse_harness(text):
    """-> {case id: dict(ref=.., iters=[dict], fails=[dict], xs={iter: text}, end=..)}"""
    cases, cur = {}, None
    for line in text.split("\n"):
        if line.startswith("CASE "):
            cur = dict(ref=None, iters=[], fails=[], xs={}, end=None, errors=[])
            cases[line[5:].strip()] = cur
        elif cur is None:
            continue
        elif line.startswith("REF "):
            cur["ref"] = line.split("r=", 1)[1]
        elif line.startswith("I "):
            m = re.match(r"I (\d+) b=(\d+) c=(\d+) x=(\d+) m=(\d+) y=(\d+) p=(\d+) h=(\S+) t=(\S+) r=(\S*)", line)
            if m:
                cur["iters"].append(dict(i=int(m.group(1)), b=int(m.group(2)), c=int(m.group(3)),
                                         x=int(m.group(4)), m=int(m.group(5)), y=int(m.group(6)),
                                         p=int(m.group(7)), h=m.group(8), t=m.group(9), r=m.group(10)))
        elif line.startswith("X "):
            p = line.split(" ", 2)
            cur["xs"][int(p[1])] = p[2] if len(p) > 2 else ""
        elif line.startswith("F "):
            m = re.match(r"F (\d+) kind=(\S+) sched=(\S+) (.*)", line)
            if m:
                cur["fails"].append(dict(i=int(m.group(1)), kind=m.group(2), sched=m.group(3), msg=m.group(4)))
        elif line.startswith("END "):
            cur["end"] = line
        elif line.startswith("SKIPPED "):
            cur["skipped"] = True
        elif line.startswith("ERROR"):
            cur["errors"].append(line)
    return cases


def run_harness(cases, harness_bin, iters, sched, seed, trace_dir=None, trace_cap=10, shards=6,
                pct_depth=3, max_steps=200000, timeout=3000, fetch_trace=False):
    """Run par_harness over the cases (sharded over processes). Returns the parsed output."""
    os.makedirs(os.path.join(common.BUILD, "cases"), exist_ok=True)
    tmpd = tempfile.mkdtemp(prefix="par", dir=os.path.join(common.BUILD, "cases"))
    chunks = [cases[i::shards] for i in range(shards) if cases[i::shards]]
    procs = []
    for n, ch in enumerate(chunks):
        path = os.path.join(tmpd, f"cases{n}.txt")
        with open(path, "w") as f:
            f.write("\n".join(ch) + "\n")
        cmd = [harness_bin, path, "--iters", str(iters), "--sched", sched, "--seed", str(seed),
               "--pct-depth", str(pct_depth), "--max-steps", str(max_steps), "--trace-cap", str(trace_cap)]
        if trace_dir:
            cmd += ["--trace-dir", trace_dir]
        if fetch_trace:
            cmd += ["--fetch-trace"]      # hook H10 records + harness notes in the trace
        procs.append(subprocess.Popen(cmd, stdout=subprocess.PIPE, stderr=subprocess.DEVNULL, text=True))
    out = {}
    hung = False
    for p in procs:
        o, _ = p.communicate(timeout=timeout)
        if p.returncode == 3:
            hung = True             # an OS-thread par group did not finish: reported as an F line
        elif p.returncode != 0:
            # the process died (abort / unexpected panic, e.g. a panic while panicking inside
            # salsa under an explored schedule): the case that was running is a FINDING, not a
            # broken check; the cases behind it in this shard were not run
            part = parse_harness(o)
            crashed = [cid for cid, c in part.items() if not c.get("end") and not c.get("skipped")]
            if not crashed:
                raise common.CheckError(f"par_harness exited with {p.returncode}:\n{o[-1500:]}")
            for cid in crashed:
                part[cid]["fails"].append(dict(i=-1, kind="crash", sched=sched,
                                               msg=f"par_harness died with exit status {p.returncode} while running this case: {o[-300:]!r}"))
            out.update(part)
            continue
        out.update(parse_harness(o))
    import shutil
    shutil.rmtree(tmpd, ignore_errors=True)
    return out, hung


# ------------------------------------------------------------------ checking

def check_case(cid, spec, out, mode):
    """mode 'readers' (C16/C17: acyclic, shuttle): every result equals the specification value,
    no panic at all, no shuttle failure, every (key, revision) executed at most once.
    mode 'cycles' (C14): a request whose specification is `cycle` panics with the cycle error
    (p2) or the propagated panic (p7) and never returns a value; every other request returns
    the specification value; no hang.
    -> list of findings dict(kind=values|exec|failure|reference, iter=.., detail=..)"""
    res = []
    o = out.get(cid)
    if o is not None and o.get("skipped"):
        return []
    if o is None or o["ref"] is None:
        return [dict(kind="harness", iter=-1, detail="no output for the case")]
    if o["errors"]:
        return [dict(kind="harness", iter=-1, detail=o["errors"][0])]
    sp = spec[cid]

    def cmp(results, it):
        got = parse_results(results)
        for key, want in sp.items():
            g = got.get(key)
            if want == "cycle":
                ok = g in ("p2", "p7") if mode == "cycles" else False
            else:
                ok = g == want
            if not ok:
                return dict(kind="values", iter=it, detail=dict(request=list(key), got=g, want=want))
        return None
    # the harness' own single-threaded run must agree with the specification as well
    ref_got = parse_results(o["ref"])
    for key, want in sp.items():
        g = ref_got.get(key)
        if (g != "p2") if want == "cycle" else (g != want):
            res.append(dict(kind="reference", iter=-1, detail=dict(request=list(key), got=g, want=want)))
            break
    for it in o["iters"]:
        d = cmp(it["r"], it["i"])
        if d is not None:
            res.append(d)
        if mode == "readers" and it["m"] > 1:
            res.append(dict(kind="exec", iter=it["i"], detail=o["xs"].get(it["i"], "")))
    for f in o["fails"]:
        res.append(dict(kind="failure", iter=f["i"], detail=f))
    return res


def stats(out):
    n = waits = contended = cross = prop = 0
    distinct, distinct_wait, distinct_cross = set(), set(), set()
    for cid, o in out.items():
        for it in o["iters"]:
            n += 1
            distinct.add((cid, it["h"]))
            if it["b"] > 0:
                waits += 1
                distinct_wait.add((cid, it["h"]))
            if it["c"] > 0:
                contended += 1
            if it["y"] > 0:
                cross += 1
                distinct_cross.add((cid, it["h"]))
            if it["p"] > 0:
                prop += 1
    return dict(schedules=n, with_wait=waits, with_contended_key=contended,
                with_cross_thread_cycle_answer=cross, with_propagated_panic=prop,
                distinct_protocol_traces=len(distinct), distinct_with_wait=len(distinct_wait),
                distinct_with_cross_thread_cycle=len(distinct_cross))


# ------------------------------------------------------------------ shrinking

def shrink(case_text, still_fails, budget=40):
    """shrink-lite: drop whole par threads, single requests, other history ops, nodes."""
    tree = se.parse_sx(case_text)
    tries = 0

    def attempt():
        nonlocal tries
        tries += 1
        return still_fails(sx(tree))
    changed = True
    while changed and tries < budget:
        changed = False
        h = hist_of(tree)
        i = len(h) - 1
        while i >= 1 and tries < budget:
            op = h[i]
            if op[0] == "par":
                t = len(op) - 1
                while t >= 1 and tries < budget and len(op) > 3:      # a par group keeps two threads
                    saved = op[t]
                    del op[t]
                    if attempt():
                        changed = True
                    else:
                        op.insert(t, saved)
                    t -= 1
                for th in op[1:]:
                    g = len(th) - 1
                    while g >= 1 and tries < budget and len(th) > 2:
                        saved = th[g]
                        del th[g]
                        if attempt():
                            changed = True
                        else:
                            th.insert(g, saved)
                        g -= 1
            else:
                saved = h[i]
                del h[i]
                if attempt():
                    changed = True
                else:
                    h.insert(i, saved)
            i -= 1
        prog = next(x for x in tree[2:] if isinstance(x, list) and x and x[0] == "prog")
        i = len(prog) - 1
        while i >= 1 and tries < budget:
            saved = prog[i]
            del prog[i]
            if attempt():
                changed = True
            else:
                prog.insert(i, saved)
            i -= 1
    return sx(tree)


# ====================================================================== cyclic programs (C18, C20 stage 2)
# Cases for /verif/harness-par/src/cyc.rs (bin cyc_par): the cycle engine's families (1 fix,
# 2 fixjoin, 3 fallback; 0 plain leaves, 4 nocycle callers) and DSL, read phases
# `(par (T (get F K)..) ..)` entered at DIFFERENT cycle members, writes between the rounds that
# reshape the cycles; `(wpar MODE AT (T ..).. (W write))` = readers cancelled (MODE 1) or
# panicking (MODE 2) at the AT-th body execution while the main handle writes.
#   * specification: the flattened case through ocaml/cycle_driver.ml — its `V` column is
#     `kleene` / `spec_fallback` of the snapshot at that point (history independent);
#   * single-threaded baseline on the SAME crate: the harness' own `REF` run (same history, one
#     thread, fresh database): a difference from the specification that REF shows too is the
#     cycle engine's known finding (DESIGN 0.3), a difference only a multi-threaded schedule
#     shows is a C18 violation;
#   * certificate: the `G` records (settled memos of the multi-threaded final state, read back
#     without execution) are evaluated by ocaml/ccycle_driver.ml (extracted mh_cert_fix /
#     mh_cert_fb of coq/CCycle/Model.v), so that C18_values_certified applies to that state.

CYC_BIN = "cyc_par"
FIXF, FIXJOINF, FALLBACKF, PLAINF, NOCYCLEF = 1, 2, 3, 0, 4
CYC_FAMS = (FIXF, FIXJOINF, FALLBACKF)
MASKS18 = [0, 1, 2, 3, 4, 5, 8, 12, 16, 48, 64, 129, 255]


def tree_section(tree, name):
    return next(x for x in tree[2:] if isinstance(x, list) and x and x[0] == name)


class Gen18:
    """profile 'fix' (specification kleene) or 'fallback' (specification spec_fallback)."""

    def __init__(self, rng, profile, size):
        from . import cycleengine as ce
        self.r = rng
        self.profile = profile
        self.size = size
        self.cg = ce.CGen(rng, "cycles" if profile == "fix" else "fallback", size)
        self.spec = "kleene" if profile == "fix" else "fallback"
        self.ops = ["or", "and"] if profile == "fix" else ["or", "and", "add", "max", "min"]

    # ---- programs
    def fam(self):
        return self.r.choice([FIXF, FIXJOINF]) if self.profile == "fix" else FALLBACKF

    def inp(self, ni):
        return ["in", self.r.randrange(ni), self.r.randrange(3)]

    def mask(self, e, ni):
        """optionally intersect / unite with an input or a literal mask"""
        r = self.r
        c = r.random()
        if c < 0.3:
            return e
        if c < 0.6:
            return ["op", "and", e, self.inp(ni)]
        if c < 0.8:
            return ["op", "or", e, self.inp(ni)]
        return ["op", r.choice(self.ops), e, ["lit", r.choice(MASKS18)]]

    def guard(self, e, ni):
        """input-conditional: the cycle edge exists only while an input is non-zero"""
        r = self.r
        if r.random() < 0.45:
            cond = self.cg.in_expr(ni, 1)
            alt = ["lit", r.choice(MASKS18)] if r.random() < 0.6 else self.inp(ni)
            return ["if", cond, e, alt] if r.random() < 0.8 else ["if", cond, alt, e]
        return e

    def nested_program(self):
        """outer -> inner -> step -> {inner, outer} (+ optionally a second inner cycle and a side
        cycle through the outer head): the shape in which ownership of the inner head moves to
        the thread of the outer head."""
        r = self.r
        nk = r.randint(3, 4)
        ni = r.randint(2, 3)
        keys = list(range(nk))
        r.shuffle(keys)
        ko, kin, ks = keys[0], keys[1], keys[2]
        fo, fi, fs = self.fam(), self.fam(), self.fam()
        call = lambda f, k: ["call", f, ["lit", k]]
        nodes = {}
        nodes[(fo, ko)] = self.mask(call(fi, kin), ni)
        nodes[(fi, kin)] = self.mask(call(fs, ks), ni)
        back = ["op", "or", call(fi, kin), self.guard(call(fo, ko), ni)]
        if r.random() < 0.3:
            back = ["op", "or", self.guard(call(fo, ko), ni), call(fi, kin)]
        nodes[(fs, ks)] = self.mask(["op", "or", back, self.inp(ni)], ni)
        members = [(fo, ko), (fi, kin), (fs, ks)]
        if nk > 3 or r.random() < 0.5:
            # a further member: either a second nested cycle under `step` or a side cycle of `outer`
            kx = keys[3] if nk > 3 else r.choice(keys[:3])
            fx = self.fam()
            while (fx, kx) in nodes:
                fx = [f for f in ((FIXF, FIXJOINF) if self.profile == "fix" else (FALLBACKF,)) if (f, kx) not in nodes]
                if not fx:
                    fx = None
                    break
                fx = fx[0]
            if fx is not None:
                if r.random() < 0.5:
                    nodes[(fx, kx)] = self.mask(self.guard(call(fs, ks), ni), ni)
                    nodes[(fs, ks)] = ["op", "or", nodes[(fs, ks)], call(fx, kx)]
                else:
                    nodes[(fx, kx)] = self.mask(self.guard(call(fo, ko), ni), ni)
                    nodes[(fo, ko)] = ["op", "or", nodes[(fo, ko)], call(fx, kx)]
                members.append((fx, kx))
        tops = []
        if r.random() < 0.4:
            m = r.choice(members)
            tops.append((NOCYCLEF, 0))
            nodes[(NOCYCLEF, 0)] = self.mask(call(*m), ni)
        nl = [["node", f, k, e] for (f, k), e in sorted(nodes.items())]
        ival = [[i, f, r.choice(MASKS18[1:])] for i in range(ni) for f in range(3)]
        return nk, ni, nl, ival, [], members, tops

    def random_program(self):
        """a program of the cycle engine's generator (random cyclic call graph, input-computed keys,
        input-controlled branches)"""
        tree = se.parse_sx(self.cg.case("x"))
        cfg = tree_section(tree, "cfg")
        nk = int(next(c for c in cfg[1:] if c[0] == "nk")[1])
        ni = int(next(c for c in cfg[1:] if c[0] == "ni")[1])
        nl = tree_section(tree, "prog")[1:]
        members = [(int(n[1]), int(n[2])) for n in nl if int(n[1]) in CYC_FAMS]
        tops = [(int(n[1]), int(n[2])) for n in nl if int(n[1]) == NOCYCLEF]
        return nk, ni, nl, tree_section(tree, "ival")[1:], tree_section(tree, "idur")[1:], members, tops

    def program(self):
        return self.nested_program() if self.r.random() < 0.55 else self.random_program()

    # ---- programs for FOUR handles (fixpoint profile only)
    def deep4_program(self):
        """The shape of tests/parallel/cycle_nested_deep_conditional.rs over the bit-set lattice:
           a = b ; b = c | IN ; c = if COND { d | a | e | b } else { d | a } ; d = c ; e = c
        COND is the provisional VALUE of d (the cycle heads change between iterations: in the first
        iterations c reaches only d and a, later e and b too) or an input.  Entered by four handles
        at a, b, d, e: c is transferred to d and d to a, a woken handle re-claims the transferred c
        and releases it again while the handle of e is blocked on it, then a's lock moves to e.
        Semantically monotone by construction (the else-branch is a sub-union of the then-branch,
        every other node is a union / intersection with inputs) although a value-conditioned
        branch is outside the syntactic class mono_table."""
        r = self.r
        ni = 2
        keys = list(range(5))
        r.shuffle(keys)
        ka, kb, kc, kd, ke = keys
        f = {x: self.fam() for x in "abcde"}
        call = lambda x, k: ["call", f[x], ["lit", k]]
        a, b, c, d, e = call("a", ka), call("b", kb), call("c", kc), call("d", kd), call("e", ke)
        union = lambda xs: xs[0] if len(xs) == 1 else ["op", "or", union(xs[:-1]), xs[-1]]
        els = [d, a] if r.random() < 0.7 else r.choice([[a, d], [d, a, b]])
        extra = [x for x in r.sample([e, b], r.choice([1, 2, 2])) if x not in els]
        r.shuffle(extra)
        then = els + extra
        value_cond = r.random() < 0.75
        cond = d if value_cond else self.cg.in_expr(ni, 1)
        nodes = {
            (f["a"], ka): b if r.random() < 0.7 else ["op", "or", b, self.inp(ni)],
            (f["b"], kb): ["op", "or", c, ["in", 0, 0]] if r.random() < 0.7 else ["op", "and", ["op", "or", c, ["in", 0, 0]], ["in", 0, 1]],
            (f["c"], kc): ["if", cond, union(then), union(els)],
            (f["d"], kd): c,
            (f["e"], ke): c if r.random() < 0.7 else ["op", "or", c, self.inp(ni)],
        }
        nl = [["node", ff, k, ex] for (ff, k), ex in sorted(nodes.items())]
        ival = [[0, 0, r.choice([1, 2, 4, 5, 12])], [0, 1, 255], [0, 2, r.choice([0, 1, 8])],
                [1, 0, r.choice([0, 1, 3])], [1, 1, r.choice([0, 2, 16])], [1, 2, r.choice([0, 1, 64])]]
        entries = [(f["a"], ka), (f["b"], kb), (f["d"], kd), (f["e"], ke)]
        members = entries + [(f["c"], kc)]
        return 5, ni, nl, ival, [], members, entries, not value_cond

    def chain_program(self):
        """q0 -> q1 -> .. -> q(n-1), every q(i) also reaches back to one or two EARLIER nodes (q(n-1) to
        q0): nested heads several levels deep, so that a lock handed over on one thread (q3 => q2 => q1)
        is handed on, with its whole transfer subtree, when an outer head on another thread turns
        out to own the cycle (a query is transferred twice; a waiter sits two or more levels down
        the transfer tree)."""
        r = self.r
        n = r.choice([4, 4, 5])
        ni = 2
        fams = [self.fam() for _ in range(n)]
        call = lambda i: ["call", fams[i], ["lit", i]]
        nodes = {}
        for i in range(n):
            terms = [call(i + 1)] if i + 1 < n else []
            backs = [0] if i == n - 1 else []
            if i >= 1:
                backs += r.sample(range(i + 1), r.choice([0, 1, 1, 2]) if i + 1 >= 2 else 1)
            for bk in sorted(set(backs)):
                terms.append(self.guard(call(bk), ni) if r.random() < 0.35 else call(bk))
            r.shuffle(terms)
            ex = terms[0]
            for tm in terms[1:]:
                ex = ["op", "or", ex, tm]
            if r.random() < 0.5 or not terms:
                ex = ["op", "or", ex, self.inp(ni)] if terms else self.inp(ni)
            nodes[(fams[i], i)] = ex
        nl = [["node", ff, k, ex] for (ff, k), ex in sorted(nodes.items())]
        ival = [[i, ff, r.choice(MASKS18[1:])] for i in range(ni) for ff in range(3)]
        members = [(fams[i], i) for i in range(n)]
        return n, ni, nl, ival, [], members, members, True

    def hard_case(self, cid):
        """-> (case text, in the syntactic class mono_table?)  four (sometimes three) handles, each
        entering at a different member, one or two rounds"""
        r = self.r
        deep = r.random() < 0.5
        nk, ni, nl, ival, idur, members, entries, mono = self.deep4_program() if deep else self.chain_program()
        hist = []
        rounds = r.choice([1, 1, 2])
        for rd in range(rounds):
            nth = 4 if deep or r.random() < 0.7 else 3
            firsts = list(entries)
            r.shuffle(firsts)
            firsts = firsts[:nth]
            ts = []
            for q in firsts:
                gets = [["get", q[0], q[1]]]
                if r.random() < 0.2:
                    q2 = r.choice(members)
                    gets.append(["get", q2[0], q2[1]])
                ts.append(["T"] + gets)
            hist.append(["par"] + ts)
            if rd + 1 < rounds:
                hist += self.writes(ni)
        return sx(["case", cid, ["cfg", ["nk", nk], ["ni", ni], ["nf", 3], ["nfam", 5], ["spec", "kleene"], ["probe", r.choice([1, 2])]],
                   ["ival"] + ival, ["idur"] + idur, ["prog"] + nl, ["hist"] + hist]), mono

    # ---- histories
    def group(self, members, tops, nth=None):
        """2-3 threads, each entering at a DIFFERENT member first"""
        r = self.r
        nth = nth or (r.choice([2, 2, 3]) if len(members) >= 3 else 2)
        firsts = r.sample(members, min(nth, len(members)))
        while len(firsts) < nth:
            firsts.append(r.choice(members + tops))
        ts = []
        for q in firsts:
            gets = [["get", q[0], q[1]]]
            if r.random() < 0.35:
                q2 = r.choice(members + tops)
                gets.append(["get", q2[0], q2[1]])
            ts.append(["T"] + gets)
        return ["par"] + ts

    def writes(self, ni):
        r = self.r
        out = []
        for _ in range(r.choice([1, 1, 2])):
            if r.random() < 0.1:
                out.append(["synth", r.choice([0, 0, 1])])
            else:
                v = r.choice(MASKS18 if r.random() < 0.65 else [0, 0, 1])
                out.append(["set", r.randrange(ni), r.randrange(3), v])
        return out

    def case(self, cid):
        r = self.r
        nk, ni, nl, ival, idur, members, tops = self.program()
        rounds = r.randint(1, 3) if self.size == "quick" else r.randint(2, 4)
        hist = []
        for rd in range(rounds):
            hist.append(self.group(members, tops))
            if r.random() < 0.25:
                q = r.choice(members + tops)
                hist.append(["get", q[0], q[1]])
            if rd + 1 < rounds:
                hist += self.writes(ni)
        probe = r.choice([1, 2, 2])
        return sx(["case", cid, ["cfg", ["nk", nk], ["ni", ni], ["nf", 3], ["nfam", 5], ["spec", self.spec], ["probe", probe]],
                   ["ival"] + ival, ["idur"] + idur, ["prog"] + nl, ["hist"] + hist])

    def wcase(self, cid):
        """C20 stage 2: readers inside nested fixpoints, cancelled by (or panicking before) a write.
        The hold point AT is filled in by expand_wcases (one case per body execution)."""
        r = self.r
        nk, ni, nl, ival, idur, members, tops = self.nested_program() if r.random() < 0.8 else self.random_program()
        nth = 1 if r.random() < 0.6 else 2
        g = self.group(members, tops, nth=nth)
        # the cancelling write SHRINKS an input the program reads (a stale provisional value of the old
        # revision then is a non-least fixpoint of the new equations wherever it was or-ed in)
        used = []

        def walk(e):
            if isinstance(e, list):
                if e and e[0] == "in":
                    used.append((int(e[1]), int(e[2])))
                for x in e[1:]:
                    walk(x)
        for n in nl:
            walk(n[3])
        i, f = r.choice(used) if used and r.random() < 0.85 else (r.randrange(ni), r.randrange(3))
        w = ["set", i, f, r.choice([0, 0, 0, 1, 2, 4])]
        hist = [["wpar", 0, 0] + g[1:] + [["W", w]]]
        after = list(members) + tops
        r.shuffle(after)
        hist += [["get", q[0], q[1]] for q in after]
        w2 = ["set", r.randrange(ni), r.randrange(3), r.choice(MASKS18)]
        g2 = self.group(members, tops, nth=nth)
        hist += [["wpar", 0, 0] + g2[1:] + [["W", w2]]]
        r.shuffle(after)
        hist += [["get", q[0], q[1]] for q in after]
        return sx(["case", cid, ["cfg", ["nk", nk], ["ni", ni], ["nf", 3], ["nfam", 5], ["spec", self.spec], ["probe", 0]],
                   ["ival"] + ival, ["idur"] + idur, ["prog"] + nl, ["hist"] + hist])


def generate18(seed, profile, n, size, prefix="k"):
    rng = random.Random(f"{seed}/c18/{profile}/{size}")
    g = Gen18(rng, profile, size)
    return [g.case(f"{prefix}{i}") for i in range(n)]


def generate_hard(seed, n, size, prefix="q"):
    """-> (cases, ids of the cases that are monotone by construction but outside mono_table)"""
    rng = random.Random(f"{seed}/c18hard/{size}")
    g = Gen18(rng, "fix", size)
    cases, semantic = [], set()
    for i in range(n):
        c, mono = g.hard_case(f"{prefix}{i}")
        cases.append(c)
        if not mono:
            semantic.add(f"{prefix}{i}")
    return cases, semantic


def generate_w(seed, n, size, prefix="w"):
    rng = random.Random(f"{seed}/c20w/{size}")
    g = Gen18(rng, "fix", size)
    return [g.wcase(f"{prefix}{i}") for i in range(n)]


def with_hold(case_text, cid, settings):
    """settings: one (mode, at) per wpar group, in order"""
    tree = se.parse_sx(case_text)
    tree[1] = cid
    n = 0
    for op in hist_of(tree)[1:]:
        if op[0] == "wpar":
            op[1], op[2] = str(settings[n][0]), str(settings[n][1])
            n += 1
    return sx(tree)


def flatten18(case_text):
    """-> (sequential case text for ocaml/cycle_driver.ml, index map, revision-of-op map).
    index map: flat op index -> (op index, who, pos); rev map: op index -> number of writes before it
    (0 = the first revision: a fresh database)."""
    tree = se.parse_sx(case_text)
    h = hist_of(tree)
    flat, imap, revof = [], {}, {}
    nwrites = 0
    for idx, op in enumerate(h[1:]):
        revof[idx] = nwrites
        if op[0] in ("par", "wpar"):
            ths = [t for t in op[1:] if isinstance(t, list) and t and t[0] == "T"]
            for t, th in enumerate(ths):
                for pos, g in enumerate(th[1:]):
                    imap[len(flat)] = (idx, str(t), pos)
                    flat.append(g)
            if op[0] == "wpar":
                w = next(t for t in op[1:] if isinstance(t, list) and t and t[0] == "W")
                flat.append(w[1])
                nwrites += 1
        else:
            if op[0] == "get":
                imap[len(flat)] = (idx, "m", 0)
            else:
                nwrites += 1
            flat.append(op)
    h[1:] = flat
    cfg = tree_section(tree, "cfg")
    cfg[:] = [c for c in cfg if not (isinstance(c, list) and c and c[0] == "probe")]
    return sx(tree), imap, revof


def specification18(cases, cycle_driver):
    """-> {case id: dict(spec={(op, who, pos): 'N'}, rev={op: n}, mono=bool|None)}"""
    flats, maps = [], {}
    for c in cases:
        ft, imap, revof = flatten18(c)
        flats.append(ft)
        maps[c.split()[1]] = (imap, revof)
    out = run_driver(flats, cycle_driver)
    res = {}
    for cid, (imap, revof) in maps.items():
        lines = out.get(cid)
        if lines is None:
            raise common.CheckError(f"cycle driver produced nothing for case {cid}")
        d = se.split_lines(lines)
        if d["ERROR"]:
            raise common.CheckError(f"cycle driver error on case {cid}: {d['ERROR'][:2]}")
        sp = {}
        for fi, key in imap.items():
            v = d["V"].get(fi)
            if v is None or not v.startswith("ret "):
                raise common.CheckError(f"no specification value for case {cid} op {fi}: {v}")
            sp[key] = v.split()[1]
        mono = None
        for l in lines:
            if l.startswith("H "):
                mono = l.strip() == "H 1"
        res[cid] = dict(spec=sp, rev=revof, mono=mono)
    return res


def parse_harness18(text):
    cases, cur = {}, None
    for line in text.split("\n"):
        if line.startswith("CASE "):
            cur = dict(ref=None, refg=[], refo=[], iters=[], gs={}, fails=[], end=None, errors=[])
            cases[line[5:].strip()] = cur
        elif cur is None:
            continue
        elif line.startswith("REF "):
            cur["ref"] = line.split("r=", 1)[1]
        elif line.startswith("RG "):
            cur["refg"].append(parse_g(line[3:]))
        elif line.startswith("REFO "):
            cur["refo"].append(line.split("r=", 1)[1])
        elif line.startswith("I "):
            m = re.match(r"I (\d+) b=(\d+) c=(\d+) x=(\d+) y=(\d+) tr=(\d+) xt=(\d+) so=(\d+) it=(\d+) hd=(\d) hi=(\S+) uw=(\d+) h=(\S+) t=(\S+) r=(\S*)", line)
            if m:
                g = m.groups()
                cur["iters"].append(dict(i=int(g[0]), b=int(g[1]), c=int(g[2]), x=int(g[3]), y=int(g[4]), tr=int(g[5]),
                                         xt=int(g[6]), so=int(g[7]), it=int(g[8]), hd=int(g[9]),
                                         hi=None if g[10] == "-" else int(g[10]), uw=int(g[11]), h=g[12], t=g[13], r=g[14]))
        elif line.startswith("G "):
            it, rest = line[2:].split(" ", 1)
            cur["gs"].setdefault(int(it), []).append(parse_g(rest))
        elif line.startswith("F "):
            m = re.match(r"F (\d+) kind=(\S+) sched=(\S+) (.*)", line)
            if m:
                uw = re.search(r"unwound=(\d+)", m.group(4))
                cur["fails"].append(dict(i=int(m.group(1)), kind=m.group(2), sched=m.group(3), msg=m.group(4),
                                         unwound=int(uw.group(1)) if uw else 0))
        elif line.startswith("END "):
            cur["end"] = line
        elif line.startswith("SKIPPED "):
            cur["skipped"] = True
        elif line.startswith("ERROR"):
            cur["errors"].append(line)
    return cases


def parse_g(rest):
    """'<op> cur=N px=N s=F.K=V,.. u=F.K,..' -> dict"""
    m = re.match(r"(\d+) cur=(\d+) px=(\d+) s=(\S+) u=(\S+)", rest)
    s = {} if m.group(4) == "-" else dict(x.split("=") for x in m.group(4).split(","))
    u = [] if m.group(5) == "-" else m.group(5).split(",")
    return dict(op=int(m.group(1)), cur=int(m.group(2)), px=int(m.group(3)), s=s, u=u)


def run_harness18(cases, harness_bin, iters, sched, seed, trace_dir=None, trace_cap=10, shards=6,
                  pct_depth=3, max_steps=400000, timeout=3000, ref_orders=0):
    """Run cyc_par over the cases (sharded over processes).  A process stops after the first case
    with a failed execution (exit status 4: a failed shuttle execution taints the process) or
    dies (a panic that could not be contained: the running case is a finding); the cases it did
    not reach are run again in fresh processes."""
    m = re.match(r"^pct(\d+)$", sched)
    if m:                                   # "pct50" = the PCT scheduler with 50 priority change points
        sched, pct_depth = "pct", int(m.group(1))
    os.makedirs(os.path.join(common.BUILD, "cases"), exist_ok=True)
    tmpd = tempfile.mkdtemp(prefix="cyc", dir=os.path.join(common.BUILD, "cases"))
    out = {}
    hung = False
    pending = list(cases)
    rounds = 0
    while pending and rounds < 40:
        rounds += 1
        chunks = [pending[i::shards] for i in range(shards) if pending[i::shards]]
        procs = []
        for n, ch in enumerate(chunks):
            path = os.path.join(tmpd, f"cases{rounds}-{n}.txt")
            with open(path, "w") as f:
                f.write("\n".join(ch) + "\n")
            cmd = [harness_bin, path, "--iters", str(iters), "--sched", sched, "--seed", str(seed),
                   "--pct-depth", str(pct_depth), "--max-steps", str(max_steps), "--trace-cap", str(trace_cap)]
            if ref_orders:
                cmd += ["--ref-orders", str(ref_orders)]
            if trace_dir:
                cmd += ["--trace-dir", trace_dir]
            procs.append(subprocess.Popen(cmd, stdout=subprocess.PIPE, stderr=subprocess.DEVNULL, text=True))
        progressed = False
        for p in procs:
            o, _ = p.communicate(timeout=timeout)
            part = parse_harness18(o)
            if p.returncode == 3:
                hung = True
            elif p.returncode not in (0, 4):
                # the process died under an explored schedule (e.g. an assertion inside salsa fired
                # and the panic could not be contained): the case that was running is a FINDING
                crashed = [cid for cid, c in part.items() if not c.get("end")]
                if not crashed:
                    raise common.CheckError(f"{CYC_BIN} exited with {p.returncode}:\n{o[-1500:]}")
                for cid in crashed:
                    part[cid]["fails"].append(dict(i=-1, kind="crash", sched=sched,
                                                   msg=f"{CYC_BIN} died with exit status {p.returncode} while running this case: {o[-300:]!r}"))
            if part:
                progressed = True
            out.update(part)
        pending = [c for c in pending if c.split()[1] not in out]
        if not progressed or hung:
            break
    import shutil
    shutil.rmtree(tmpd, ignore_errors=True)
    return out, hung


def check_case18(cid, sp, out, accept=("p8",), shuttle=False):
    """Per schedule: every returned value equals the specification.  A difference in a later
    revision that the single-threaded REF run of the same history shows as well is the cycle
    engine's known finding; everything else is a finding of this check.
    accept: panic codes a reader of a `wpar` group may end with instead of a value.
    -> (findings, known) ; finding = dict(kind=values|failure|reference|harness, iter, detail)"""
    res, known = [], []
    o = out.get(cid)
    if o is not None and o.get("skipped"):
        return [], []
    if o is None or o["ref"] is None:
        return [dict(kind="harness", iter=-1, detail="no output for the case")], []
    if o["errors"]:
        return [dict(kind="harness", iter=-1, detail=o["errors"][0])], []
    spec, revof = sp["spec"], sp["rev"]
    ref = parse_results(o["ref"])
    for key, want in spec.items():
        g = ref.get(key)
        if g != want:
            if revof[key[0]] == 0:
                res.append(dict(kind="reference", iter=-1,
                                detail=dict(request=list(key), got=g, want=want, revision=0)))
                break
            known.append(dict(iter=-1, request=list(key), got=g, want=want, revision=revof[key[0]]))
    for it in o["iters"]:
        if shuttle and it.get("uw"):
            # something unwound in this execution: not a sound exploration under shuttle (the
            # caller re-examines the case on OS threads)
            res.append(dict(kind="unwound", iter=it["i"], detail=dict(code=it["uw"], results=it["r"])))
            continue
        got = parse_results(it["r"])
        for key, want in spec.items():
            g = got.get(key)
            if g == want or g in accept:
                continue
            d = dict(request=list(key), got=g, want=want, revision=revof[key[0]], single_threaded=ref.get(key))
            if revof[key[0]] > 0 and ref.get(key) == g:
                known.append(dict(iter=it["i"], **d))
            else:
                res.append(dict(kind="values", iter=it["i"], detail=d))
                break
    for f in o["fails"]:
        res.append(dict(kind="unwound" if (shuttle and f.get("unwound")) else "failure", iter=f["i"],
                        detail=dict(f, code=f.get("unwound", 0))))
    return res, known


def check_case18_os(cid, sp, out, known_panic):
    """OS-thread re-examination of a case in which something unwound under shuttle.  A request may
    end in a panic code c only if known_panic(request key, 'pC') holds (the same panic at the
    same request in some single-threaded linearisation: the cycle engine's known debug-build
    backdate assertion) or, for PropagatedPanic (p7), if another handle of the same group
    panicked; a hang or any other difference is a finding."""
    res, nknown = [], 0
    o = out.get(cid)
    if o is None or o["ref"] is None:
        return [dict(kind="harness", iter=-1, detail="no output for the case")], 0
    spec, revof = sp["spec"], sp["rev"]
    ref = parse_results(o["ref"])
    for it in o["iters"]:
        got = parse_results(it["r"])
        for key, want in spec.items():
            g = got.get(key)
            if g == want:
                continue
            if g is not None and g.startswith("p"):
                others = [v for k, v in got.items() if k[0] == key[0] and k[1] != key[1] and v.startswith("p")]
                if (g == "p7" and others) or known_panic(key, g):
                    nknown += 1
                    continue
            if revof[key[0]] > 0 and (ref.get(key) == g or known_panic(key, g)):
                nknown += 1
                continue
            res.append(dict(kind="values", iter=it["i"], detail=dict(request=list(key), got=g, want=want,
                                                                      revision=revof[key[0]], single_threaded=ref.get(key))))
            break
    for f in o["fails"]:
        res.append(dict(kind="failure", iter=f["i"], detail=f))
    return res, nknown


def stats18(out):
    keys = ("schedules", "with_wait", "with_cross_thread_cycle_answer", "with_transfer", "with_cross_thread_transfer",
            "with_reclaim_by_new_owner", "with_iteration_ge2", "transfer_records", "cross_thread_transfer_records", "hold_reached",
            "hold_inside_fixpoint_iteration")
    st = dict.fromkeys(keys, 0)
    distinct, distinct_x = set(), set()
    for cid, o in out.items():
        for it in o["iters"]:
            st["schedules"] += 1
            distinct.add((cid, it["h"]))
            st["with_wait"] += it["b"] > 0
            st["with_cross_thread_cycle_answer"] += it["y"] > 0
            st["with_transfer"] += it["tr"] > 0
            st["with_cross_thread_transfer"] += it["xt"] > 0
            st["with_reclaim_by_new_owner"] += it["so"] > 0
            st["with_iteration_ge2"] += it["it"] >= 2
            st["transfer_records"] += it["tr"]
            st["cross_thread_transfer_records"] += it["xt"]
            st["hold_reached"] += it["hd"]
            st["hold_inside_fixpoint_iteration"] += 1 if (it["hi"] or 0) > 0 else 0
            if it["y"] > 0 or it["xt"] > 0:
                distinct_x.add((cid, it["h"]))
    st["distinct_protocol_traces"] = len(distinct)
    st["distinct_with_cross_thread_cycle_or_transfer"] = len(distinct_x)
    return st


# ---- certificates on the multi-threaded final states

def snapshot_at(tree, opidx):
    """input values after the writes of ops 0..opidx (inclusive; a wpar's write included)"""
    vals = {}
    for t in tree_section(tree, "ival")[1:]:
        vals[(int(t[0]), int(t[1]))] = int(t[2])
    for idx, op in enumerate(hist_of(tree)[1:]):
        if idx > opidx:
            break
        w = None
        if op[0] == "set":
            w = op
        elif op[0] == "wpar":
            w = next(t for t in op[1:] if isinstance(t, list) and t and t[0] == "W")[1]
        if w is not None and w[0] == "set":
            vals[(int(w[1]), int(w[2]))] = int(w[3])
    return vals


def cert_requests(cases, out):
    """one certificate request per distinct (case, round, settled assignment, returned values)"""
    reqs, owners = {}, {}
    for c in cases:
        cid = c.split()[1]
        o = out.get(cid)
        if not o:
            continue
        tree = se.parse_sx(c)
        cfg = tree_section(tree, "cfg")
        for it in o["iters"]:
            if it.get("uw"):
                continue            # something unwound in this execution (not sound under shuttle)
            got = parse_results(it["r"])
            for g in o["gs"].get(it["i"], []):
                snap = snapshot_at(tree, g["op"])
                resl = sorted((k[1], g_.split(".")[0], g_.split(".")[1], v) for k, v in got.items() if k[0] == g["op"] and k[1] != "m"
                              for g_ in [_req_key(tree, k)] if not v.startswith("p"))
                sig = sorted(g["s"].items())
                if any(v.startswith("p") for _, v in sig):
                    sig = [(k, v) for k, v in sig if not v.startswith("p")]
                key = (cid, g["op"], tuple(sig), tuple(resl))
                if key not in reqs:
                    rid = f"r{len(reqs)}"
                    reqs[key] = sx(["cert", rid, cfg, tree_section(tree, "prog"),
                                    ["in"] + [[i, f, v] for (i, f), v in sorted(snap.items())],
                                    ["sigma"] + [[k.split(".")[0], k.split(".")[1], v] for k, v in sig],
                                    ["res"] + [[h, f, k, v] for h, f, k, v in resl]])
                    owners[rid] = []
                owners[reqs[key].split()[1]].append((cid, it["i"], g["op"], g["px"], len(g["u"])))
    return list(reqs.values()), owners


def _req_key(tree, key):
    """(op, who, pos) -> 'F.K' of that request"""
    op = hist_of(tree)[1:][key[0]]
    ths = [t for t in op[1:] if isinstance(t, list) and t and t[0] == "T"]
    g = ths[int(key[1])][1:][key[2]]
    return f"{g[1]}.{g[2]}"


def run_cert_driver(requests, driver_bin, shards=4):
    """-> {request id: dict(cert=0|1, below=0|1, eq=0|1, n=settled, nres=results)}"""
    if not requests:
        return {}
    os.makedirs(os.path.join(common.BUILD, "cases"), exist_ok=True)
    procs = []
    for ch in [requests[i::shards] for i in range(shards) if requests[i::shards]]:
        fd, path = tempfile.mkstemp(prefix="cert", suffix=".txt", dir=os.path.join(common.BUILD, "cases"))
        with os.fdopen(fd, "w") as f:
            f.write("\n".join(ch) + "\n")
        procs.append((path, subprocess.Popen([driver_bin, path], stdout=subprocess.PIPE, stderr=subprocess.DEVNULL, text=True)))
    res = {}
    for path, p in procs:
        o, _ = p.communicate(timeout=1800)
        os.unlink(path)
        if p.returncode != 0:
            raise common.CheckError(f"certificate driver exited with {p.returncode}")
        for l in o.split("\n"):
            m = re.match(r"CERT (\S+) cert=(\d) below=(\d) eq=(\d) n=(\d+) nres=(\d+)", l)
            if m:
                res[m.group(1)] = dict(cert=int(m.group(2)), below=int(m.group(3)), eq=int(m.group(4)),
                                       n=int(m.group(5)), nres=int(m.group(6)))
            elif l.startswith("ERROR"):
                raise common.CheckError("certificate driver: " + l)
    return res


# ---- recogniser of the cycle engine's known class D on single-threaded records (cycle_harness lines)

def participant_validated_in_revision(case_text, impl_lines, step):
    """C12 cycle_participant_validated_on_incomplete_edges, by mechanism, on the implementation's own
    events/state: in the failing step OR in an earlier step of the SAME revision (no write in
    between) a former cycle participant — a FINAL memo of a fixpoint/fallback family that still
    lists cycle heads — was VALIDATED (DidValidateMemoizedValue) without being executed in that
    step.  (cycleengine.known_class only looks at the failing step; the stale value is also
    returned by a later hot read of the same revision, which has no events at all.)
    -> the key 'F.K' of such a memo, or None"""
    from . import cycleengine as ce
    a = se.split_lines(impl_lines)
    hist = hist_of(se.parse_sx(case_text))[1:]
    i = step
    while i >= 0:
        if hist[i][0] in ("set", "synth") and i != step:
            break
        memos = ce.parse_memos(a["S"].get(i, ""))
        evs = a["E"].get(i, "").split()
        executed = {e.split(":", 1)[1] for e in evs if e.startswith("x:")}
        for e in evs:
            if e.startswith("v:"):
                k = e.split(":", 1)[1]
                m = memos.get(k)
                if m and k not in executed and int(k.split(".")[0]) in CYC_FAMS and m["final"] and m["heads"]:
                    return k
        i -= 1
    return None


# ---- single-threaded: a body PANICS inside a nested fixpoint (C22 clause for cyclic programs)

def generate_pn(seed, n, size, prefix="pn"):
    """-> list of (guarded, baseline, twin) case texts for harness/src/cycle_harness.rs.
    guarded : a nested / random cyclic program of the fixpoint profile in which one member's body is
              `BODY | (if COND (panicif 0) 0)`; COND is mostly the provisional value of another member, so
              the panic fires in a LATER iteration, when provisional memos of inner heads exist; histories
              switch the fault on, read (the read unwinds, or not), switch it off, re-read in the same
              revision, write (mostly shrinking an input the program reads), read every member;
    baseline: the same program and history with the fault never switched on (what the same history
              returns without any panic);
    twin    : the program without the guard (class mono_table) with `(spec kleene)`: its V column is
              the specification of every read (the guard's value is 0 whether or not it panics)."""
    rng = random.Random(f"{seed}/c22pn/{size}")
    g = Gen18(rng, "fix", size)
    out = []
    for i in range(n):
        r = rng
        nk, ni, nl, ival, idur, members, tops = g.nested_program() if r.random() < 0.7 else g.random_program()
        nl = [list(x) for x in nl]
        host = r.choice([x for x in nl if (int(x[1]), int(x[2])) in members])
        c = r.random()
        if c < 0.65:
            m = r.choice(members)
            cond = ["call", m[0], ["lit", m[1]]]
            if r.random() < 0.4:
                cond = ["op", "and", cond, ["lit", r.choice([1, 2, 4, 6, 12, 255])]]
        elif c < 0.85:
            cond = ["lit", 1]
        else:
            cond = g.cg.in_expr(ni, 1)
        guarded_nl = [[x[0], x[1], x[2], ["op", "or", x[3], ["if", cond, ["panicif", 0], ["lit", 0]]]] if x is host else x
                      for x in nl]
        used = []

        def walk(e):
            if isinstance(e, list):
                if e and e[0] == "in":
                    used.append((int(e[1]), int(e[2])))
                for y in e[1:]:
                    walk(y)
        for x in nl:
            walk(x[3])
        everything = list(members) + tops
        hist = []
        if r.random() < 0.4:
            q = r.choice(everything)
            hist.append(["get", q[0], q[1]])
        for ph in range(r.randint(2, 3 if size == "quick" else 5)):
            hist.append(["setpanic", 0, 1])
            for _ in range(r.choice([1, 1, 2, 3])):
                q = r.choice(everything)
                hist.append(["get", q[0], q[1]])
            if r.random() < 0.8:
                hist.append(["setpanic", 0, 0])
                if r.random() < 0.5:          # the same nodes again, same revision, fault off
                    for _ in range(r.choice([1, 2])):
                        q = r.choice(everything)
                        hist.append(["get", q[0], q[1]])
            # a new revision
            if r.random() < 0.1:
                hist.append(["synth", 0])
            else:
                i_, f_ = r.choice(used) if used and r.random() < 0.8 else (r.randrange(ni), r.randrange(3))
                hist.append(["set", i_, f_, r.choice([0, 0, 1, 2, 4] if r.random() < 0.6 else MASKS18)])
            if hist[-2][0] != "setpanic" or hist[-2][2] != 0:
                if ["setpanic", 0, 0] not in hist[-3:]:
                    hist.append(["setpanic", 0, 0])
            order = list(everything)
            r.shuffle(order)
            hist += [["get", q[0], q[1]] for q in order[:r.randint(2, len(order))]]
        hist.append(["setpanic", 0, 0])
        order = list(everything)
        r.shuffle(order)
        hist += [["get", q[0], q[1]] for q in order]
        base_hist = [(["setpanic", 0, 0] if op[0] == "setpanic" else op) for op in hist]

        def text(cid, spec, nodes, h):
            return sx(["case", cid, ["cfg", ["nk", nk], ["ni", ni], ["nf", 3], ["nfam", 5], ["spec", spec]],
                       ["ival"] + ival, ["idur"] + idur, ["prog"] + nodes, ["hist"] + h])
        cid = f"{prefix}{i}"
        out.append((text(cid, "none", guarded_nl, hist), text(cid + "b", "none", guarded_nl, base_hist),
                    text(cid + "t", "kleene", nl, hist)))
    return out

"""Accumulator correspondence engine (C11): generator profile *accumulate*, runner, diff.

Re-uses the sequential engine's machinery (s-expressions, sharded runner, three-level diff with
the spec column `V`, shrinker); adds `(acc EXPR)` to the node language and the history
operation `(accumulated FAM KEY)`.  Implementation = harness/src/acc_harness.rs, model +
specification = ocaml/acc_driver.ml (extracted coq/Acc/{Model,Spec,Dsl}.v)."""
import os
import random
import re

from . import common
from . import seqengine as se

HARNESS_BIN = "acc_harness"
NAME = "Acc"
LEVELS = ["values (results of get, lists returned by accumulated, panic classes)",
          "events (WillExecute, DidValidateMemoizedValue) incl. those emitted inside accumulated_by's loop",
          "state (revisions, cancellation count, input stamps, memo stamps/origin/edges, "
          "has-accumulated-values flag, accumulated_inputs flag, lru order)"]
OPS = ["(set ", "(get ", "(accumulated ", "(synth ", "(setcell ", "(setlru ", "(evict)"]
COQ_TARGETS = ["Acc/Model.vo", "Acc/Spec.vo", "Acc/Dsl.vo"]

PROFILES = {
    "acc-flip": dict(directed=True),
    # w: weights of history operations
    # p_acc: probability that a generated sub-expression is wrapped in (acc ..)
    # p_mask: probability that a node's value is masked to a constant (so it backdates while its pushes vary)
    # p_const: probability that a node reads nothing (NEVER_CHANGE durability) and only pushes
    "accumulate": dict(w=dict(set=34, get=14, accumulated=34, synth=6, setcell=3, setlru=3, evict=6),
                       p_acc=0.30, p_mask=0.30, p_const=0.12, p_dur=0.25, p_never_in=0.15, p_cell=0.06, restore=0.3),
    "acc-never":  dict(w=dict(set=30, get=10, accumulated=40, synth=14, setcell=0, setlru=2, evict=4),
                       p_acc=0.35, p_mask=0.20, p_const=0.35, p_dur=0.5, p_never_in=0.45, p_cell=0.0, restore=0.2),
    "acc-lru":    dict(w=dict(set=24, get=16, accumulated=34, synth=4, setcell=2, setlru=8, evict=12),
                       p_acc=0.30, p_mask=0.25, p_const=0.10, p_dur=0.1, p_never_in=0.05, p_cell=0.05, restore=0.3,
                       lru_bias=True),
}


class Gen:
    def __init__(self, rng, profile, size):
        self.r = rng
        self.p = PROFILES[profile]
        self.profile = profile
        self.size = size

    # ---- expressions
    def expr(self, depth, ctx):
        e = self.expr0(depth, ctx)
        if self.r.random() < self.p["p_acc"]:
            e = ["acc", e]
        return e

    def leaf_input(self, ctx):
        return ["in", self.r.randrange(ctx["ni"]), self.r.randrange(3)]

    def expr0(self, depth, ctx):
        r = self.r
        const = ctx.get("const", False)
        leaf = depth <= 0 or r.random() < 0.25
        if leaf:
            c = r.random()
            if c < 0.30 or const and c < 0.6:
                return ["lit", r.choice([0, 1, 2, 3])]
            if const:
                t = self.call(ctx, depth)
                return t if t is not None else ["lit", r.choice([0, 1, 2, 3])]
            if c < 0.30 + 0.40:
                return self.leaf_input(ctx)
            if c < 0.30 + 0.40 + self.p["p_cell"]:
                return ["cell", r.randrange(2)] if r.random() < 0.8 else ["touch"]
            t = self.call(ctx, depth)
            return t if t is not None else self.leaf_input(ctx)
        c = r.random()
        if c < 0.40:
            t = self.call(ctx, depth)
            if t is not None:
                return t
        if c < 0.75:
            return ["op", r.choice(se.OPS), self.expr(depth - 1, ctx), self.expr(depth - 1, ctx)]
        return ["if", self.expr(depth - 1, ctx), self.expr(depth - 1, ctx), self.expr(depth - 1, ctx)]

    def call(self, ctx, depth):
        """A call respecting the rank order (fam_order[fam]*nk + key): the programs are acyclic.
        Static keys dominate, so that one callee is reachable along several paths (DAG sharing)."""
        r = self.r
        nk = ctx["nk"]
        me_f, me_k = ctx["me"]
        order = ctx["fam_order"]
        lower_fams = [f for f in range(3) if order[f] < order[me_f]]
        opts = []
        if lower_fams:
            opts += ["dyn", "static_lower", "static_lower", "static_lower"]
        if me_k > 0:
            opts += ["same_fam", "same_fam"]
        if not opts:
            return None
        o = r.choice(opts)
        if o == "dyn":
            fam = r.choice(lower_fams)
            sub = self.expr(min(depth - 1, 1), dict(ctx, me=(fam, 0)))
            return ["call", fam, sub]
        if o == "static_lower":
            return ["call", r.choice(lower_fams), ["lit", r.randrange(nk)]]
        return ["call", me_f, ["lit", r.randrange(me_k)]]

    def node(self, fam, k, ctx):
        r = self.r
        const = r.random() < self.p["p_const"]
        c2 = dict(ctx, const=const)
        e = self.expr(r.randint(1, 3), c2)
        if r.random() < self.p["p_mask"]:
            # value is the constant 0 whatever the pushes are: the node backdates while its
            # accumulated values change
            e = ["op", "and", ["lit", 0], e]
        return ["node", fam, k, e]

    def case(self, cid):
        r = self.r
        p = self.p
        nk = r.randint(2, 3 if self.size == "quick" else 4)
        ni = nk
        fam_order = [0, 1, 2]
        r.shuffle(fam_order)
        nodes = []
        for fam in range(3):
            for k in range(nk):
                if r.random() < 0.85:
                    ctx = dict(nk=nk, ni=ni, me=(fam, k), fam_order=fam_order)
                    nodes.append(self.node(fam, k, ctx))
        ival = [[i, f, r.choice([0, 1, 2, 3])] for i in range(ni) for f in range(3)]
        idur = []
        for i in range(ni):
            for f in range(3):
                x = r.random()
                if x < p["p_never_in"]:
                    idur.append([i, f, 3])
                elif x < p["p_never_in"] + p["p_dur"]:
                    idur.append([i, f, r.choice([1, 2])])
        never = {(d[0], d[1]) for d in idur if d[2] == 3}
        nops = r.randint(8, 25) if self.size == "quick" else r.randint(15, 60)
        hist = []
        w = p["w"]
        kinds = list(w.keys())
        weights = [w[k] for k in kinds]
        prev_vals = {}
        curv = {(x[0], x[1]): x[2] for x in ival}
        top = max(range(3), key=lambda f: fam_order[f])
        for _ in range(nops):
            k = r.choices(kinds, weights)[0]
            if k == "set":
                i, f = r.randrange(ni), r.randrange(3)
                if (i, f) in never and r.random() < 0.9:
                    continue            # writes to never-change fields panic (C02); keep them rare here
                if p.get("restore") and (i, f) in prev_vals and r.random() < p["restore"]:
                    v = prev_vals[(i, f)]
                else:
                    v = r.choice([0, 1, 2, 3])
                prev_vals[(i, f)] = curv[(i, f)]
                curv[(i, f)] = v
                op = ["set", i, f, v]
                if r.random() < p["p_dur"] * 0.5:
                    d = r.choice([0, 1, 2, 3] if r.random() < p["p_never_in"] else [0, 1, 2])
                    op.append(d)
                    if d == 3:
                        never.add((i, f))
                hist.append(op)
            elif k == "get":
                hist.append(["get", r.randrange(3), r.randrange(nk)])
            elif k == "accumulated":
                fam = top if r.random() < 0.5 else r.randrange(3)
                hist.append(["accumulated", fam, r.randrange(nk)])
            elif k == "synth":
                hist.append(["synth", r.choice([0, 0, 1, 2])])
            elif k == "setcell":
                hist.append(["setcell", r.randrange(2), r.choice([0, 1, 2])])
                hist.append(["synth", r.choice([0, 0, 1, 2])])
            elif k == "setlru":
                hist.append(["setlru", 1, r.choice([0, 1, 1, 2, 3, 4])])
            elif k == "evict":
                hist.append(["evict"])
        hist.append(["accumulated", top, r.randrange(nk)])
        return se.sx(["case", cid, ["cfg", ["nk", nk], ["ni", ni], ["nf", 3], ["nfam", 3], ["lru", 1, 2]],
                      ["ival"] + ival, ["idur"] + idur, ["prog"] + nodes, ["hist"] + hist])


def flip_case(r, cid, size):
    """Directed family (found necessary by a seeded defect the random profiles missed): a chain
    top -> mid_1 -> .. -> low where `low` has the constant value 0 (so it backdates) and pushes
    only while an input bit is set, every mid node pushes a value of its own and reads nothing
    that changes (so it is only deep-verified when the input flips), and `accumulated` is asked
    at the top / in the middle before and after every flip.  The accumulated_inputs flag of the
    reused pushing memos must follow the flips."""
    nk = r.randint(2, 3)
    ni = nk
    fam_order = [0, 1, 2]
    r.shuffle(fam_order)
    by_rank = sorted(range(3), key=lambda f: fam_order[f])      # lowest family first
    low_f, mid_f, top_f = by_rank
    i, f = r.randrange(ni), r.randrange(3)
    k_low = r.randrange(nk)
    cond = ["in", i, f] if r.random() < 0.6 else ["op", "and", ["in", i, f], ["lit", r.choice([1, 2])]]
    pushed = ["acc", ["op", "add", ["lit", r.choice([1, 2, 3])], ["in", i, f]]] if r.random() < 0.5 else ["acc", ["lit", r.choice([1, 2, 3])]]
    low = ["node", low_f, k_low, ["op", "and", ["lit", 0], ["if", cond, pushed, ["lit", 0]]]]
    nodes = [low]
    # 1..2 mid nodes in the middle family (keys ascending = ranks ascending), each pushes its own value
    nmid = r.randint(1, min(2, nk))
    callee = ["call", low_f, ["lit", k_low]]
    mids = []
    for k in range(nmid):
        own = ["acc", ["lit", r.choice([1, 2, 3])]]
        body = ["op", r.choice(["add", "or", "max"]), own, callee] if r.random() < 0.7 else ["op", "add", callee, own]
        nodes.append(["node", mid_f, k, body])
        mids.append((mid_f, k))
        callee = ["call", mid_f, ["lit", k]]
    k_top = r.randrange(nk)
    top_body = callee if r.random() < 0.5 else ["op", "add", callee, ["acc", ["lit", 3]]]
    nodes.append(["node", top_f, k_top, top_body])
    ival = [[a, b, 0] for a in range(ni) for b in range(3)]
    idur = []
    hist = []
    ask = [(top_f, k_top)] + mids
    v = 0
    for ph in range(r.randint(3, 6)):
        for q in r.sample(ask, r.randint(1, len(ask))):
            hist.append([r.choice(["accumulated", "accumulated", "get"]), q[0], q[1]])
            if hist[-1][0] == "get":
                hist.append(["accumulated", q[0], q[1]])
        v = r.choice([1, 2, 3]) if v == 0 else r.choice([0, 0, 1, 2, 3])
        hist.append(["set", i, f, v])
        if r.random() < 0.2:
            hist.append(["synth", 0])
    for q in ask:
        hist.append(["accumulated", q[0], q[1]])
    return se.sx(["case", cid, ["cfg", ["nk", nk], ["ni", ni], ["nf", 3], ["nfam", 3], ["lru", 1, 2]],
                  ["ival"] + ival, ["idur"] + idur, ["prog"] + nodes, ["hist"] + hist])


def generate(seed, profile, n, size, prefix="a"):
    rng = random.Random(f"{seed}/{profile}/{size}/acc")
    if profile == "acc-flip":
        return [flip_case(rng, f"{prefix}{i}", size) for i in range(n)]
    g = Gen(rng, profile, size)
    return [g.case(f"{prefix}{i}") for i in range(n)]


def corpus(prop="C11"):
    return se.corpus(prop)


def build_ocaml_acc():
    drv = os.path.join(common.BUILD, "ocaml-acc", "acc_driver")
    deps = [os.path.join(common.COQ, p) for p in COQ_TARGETS + ["Kern/CoreK.vo"]]
    deps += [os.path.join(common.ROOT, "ocaml", "acc_driver.ml"), os.path.join(common.COQ, "ExtractAcc.v")]
    if os.path.exists(drv) and all(os.path.exists(d) and os.path.getmtime(d) <= os.path.getmtime(drv) for d in deps):
        return drv
    common.sh([os.path.join(common.ROOT, "ocaml", "build_acc.sh")], timeout=900, check=True,
              env={"VERIF_COQ": common.COQ})
    return drv


def build(ctx):
    """audit, translator, Props/<prop>.v, model .vo files, extraction + driver, harness."""
    probs = common.audit()
    if probs:
        raise common.CheckError("audit failed: " + "; ".join(probs[:5]))
    proof_broken = None
    digest = {}
    if os.path.exists(os.path.join(common.ROOT, "translator", "rust2gallina.py")):
        ok, log, digest = common.run_translator()
        if not ok:
            proof_broken = dict(kind="translation", detail=log[-3000:])
    rep = None
    if proof_broken is None:
        rep = common.props_report(ctx.prop)
        if not rep["ok"]:
            proof_broken = dict(kind="proof", detail=rep["log"][-3000:], theorems=rep["theorems"],
                                bad_axioms=rep["bad_axioms"])
    driver = None
    try:
        # the model files contain no proofs, so the model still builds when a proof is broken
        ok, log = common.coq_make(COQ_TARGETS)
        if ok:
            driver = build_ocaml_acc()
    except common.CheckError:
        if proof_broken is None:
            raise
        driver = None
    rel = common.cargo_build("harness", "default", bins=[HARNESS_BIN])
    return proof_broken, rep, digest, driver, os.path.join(rel, HARNESS_BIN)


run_both = se.run_both
compare_case = se.compare_case
split_lines = se.split_lines
shrink = se.shrink


def spec_only_compare(impl_lines, model_lines):
    """implementation vs specification (values of get, lists of accumulated)"""
    a = se.split_lines(impl_lines)
    b = se.split_lines(model_lines)
    for i in sorted(b["V"]):
        if b["R"].get(i) == "panic 5":
            continue
        want = "panic 2" if b["V"][i] == "cycle" else b["V"][i]
        if a["R"].get(i) != want:
            return dict(level="spec", step=i, impl=a["R"].get(i), model=want)
    return dict(level=None)


def parse_memos(st):
    memos = {}
    m = re.search(r"memo=(\S*)", st)
    if m:
        for ent in m.group(1).split(";"):
            if ent:
                parts = ent.split(":")
                k, hv, ver, ch, du, un, edges = parts[:7]
                flags = parts[7] if len(parts) > 7 else "a00"
                memos[k] = dict(hv=hv, ver=int(ver), ch=int(ch), dur=int(du), untr=un, edges=edges,
                                acc=flags[1] == "1", accin=flags[2] == "1")
    return memos


def classify(case_text, model_lines):
    """Features of a case from the model's own records."""
    d = se.split_lines(model_lines)
    feats = set()
    seen_exec = set()
    last_acc = {}
    tree = se.parse_sx(case_text)
    hist = next(x for x in tree[2:] if isinstance(x, list) and x and x[0] == "hist")[1:]
    prev = {}
    for i in sorted(d["R"]):
        ev = d["E"].get(i, "").split()
        memos = parse_memos(d["S"].get(i, ""))
        op = hist[i] if i < len(hist) else ["?"]
        rr = d["R"][i]
        for e in ev:
            t, k = e.split(":")
            if t == "x":
                if k in seen_exec:
                    feats.add("reexec")
                    if k in memos and memos[k]["ch"] < memos[k]["ver"]:
                        feats.add("backdate")
                        if memos[k]["acc"]:
                            feats.add("backdated_accumulator")
                        if k in prev and prev[k]["acc"] != memos[k]["acc"]:
                            feats.add("backdated_acc_flag_flipped")
                seen_exec.add(k)
                if k in prev and prev[k]["hv"] == "0":
                    feats.add("exec_after_evict")
                    if op[0] == "accumulated":
                        feats.add("exec_after_evict_in_accumulated")
            else:
                feats.add("validate")
                if k in memos and memos[k]["dur"] > 0:
                    feats.add("validate_durable")
        for k, mm in memos.items():
            if mm["hv"] == "0":
                feats.add("evicted")
            if mm["untr"] == "1":
                feats.add("untracked")
            if mm["acc"]:
                feats.add("memo_with_values")
            if mm["accin"]:
                feats.add("memo_with_accumulated_inputs")
            if mm["dur"] == 3 and mm["edges"] != "[]":
                feats.add("never_change_memo_keeps_edges")
            if mm["dur"] == 3 and mm["edges"] == "[]":
                feats.add("never_change_memo_no_edges")
            if mm["dur"] == 3 and mm["acc"]:
                feats.add("never_change_accumulator")
            if k in prev and prev[k]["accin"] != mm["accin"] and prev[k]["ver"] != mm["ver"] and \
                    not any(e == f"x:{k}" for e in ev):
                feats.add("flag_rewritten_by_deep_verify")
        if op[0] == "accumulated" and rr.startswith("acc"):
            feats.add("accumulated_op")
            key = (op[1], op[2])
            if rr != "acc []":
                feats.add("accumulated_nonempty")
                if rr.count(",") >= 2:
                    feats.add("accumulated_3plus")
            if key in last_acc and last_acc[key] != rr:
                feats.add("accumulated_changed")
            if key in last_acc and last_acc[key] == rr and not any(e.startswith("x:") for e in ev) and rr != "acc []":
                feats.add("accumulated_reused_without_exec")
            last_acc[key] = rr
        if rr.startswith("panic 1"):
            feats.add("never_change_panic")
        if rr.startswith("panic 3"):
            feats.add("backdate_violation_panic")
        prev = memos
    nontrivial = ("accumulated_nonempty" in feats and "reexec" in feats and "validate" in feats)
    return feats, nontrivial


if __name__ == "__main__":
    import sys
    seed = int(sys.argv[1]) if len(sys.argv) > 1 else 1
    n = int(sys.argv[2]) if len(sys.argv) > 2 else 200
    size = sys.argv[3] if len(sys.argv) > 3 else "quick"
    harness = os.environ.get("ACC_HARNESS", os.path.join(common.BUILD, "target-default", "release", HARNESS_BIN))
    driver = os.path.join(common.BUILD, "ocaml-acc", "acc_driver")
    tot = 0
    bad = 0
    feats_count = {}
    for prof in PROFILES:
        cases = generate(seed, prof, n, size, prefix=f"{prof}-")
        impl, model = run_both(cases, harness, driver, shards=6)
        for c in cases:
            cid = c.split()[1]
            r = compare_case(impl.get(cid, ["ERROR missing"]), model.get(cid, ["ERROR missing"]))
            tot += 1
            f, nt = classify(c, model.get(cid, []))
            for x in f:
                feats_count[x] = feats_count.get(x, 0) + 1
            if nt:
                feats_count["NONTRIVIAL"] = feats_count.get("NONTRIVIAL", 0) + 1
            if r["level"] is not None:
                bad += 1
                if bad <= 3:
                    print("DIFF", cid, r)
                    print(c)
    print("cases", tot, "diffs", bad)
    for k in sorted(feats_count):
        print(f"  {k}: {feats_count[k]}")

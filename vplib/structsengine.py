"""Structs correspondence engine (C06, C07, C10): generate cases with tracked structs and
`specify`, run the real crate (harness/src/structs_harness.rs, hooks H1+H8) and the extracted
Coq model coq/Structs/Model.v (+ specification column coq/Structs/Spec.v) on them, diff at
three levels (values, events, internal state) and against the from-scratch specification
(handles compared through canonical names), classify.

Families: 0 leaf(Inp)  1 mk(Inp)  2 ontr(TS)  3 spec(TS, specify)  4 top(Inp).
Rank (acyclic by construction): leaf < spec < ontr < mk(key) < top(key)."""
import random
import re

from . import seqengine as se
from .seqengine import sx, parse_sx, run_both, parse_output, shrink   # noqa: F401  (re-exported)

OPS = ["add", "sub", "min", "max", "and", "or", "eq", "lt"]

PROFILES = {
    # w: history op weights; p_new: creation density; idvals: identity values drawn
    "structs": dict(w=dict(set=42, get=30, gets=16, entries=5, synth=4, setcell=3), p_dur=0.2, p_cell=0.08,
                    idvals=[0, 0, 1, 1, 2], p_spec=0.25, p_cond=0.55, hashmod=[2, 2, 2, 0]),
    # input durabilities move (HIGH -> LOW with the same value, then a LOW write of a new value)
    "durstructs": dict(w=dict(set=50, get=30, gets=14, entries=2, synth=4), p_dur=0.35, p_idur=0.6, p_cell=0.0,
                       idvals=[0, 1, 1, 2], p_spec=0.1, p_cond=0.3, hashmod=[2, 0], p_samelower=0.3),
    "churn":   dict(w=dict(toggle=45, set=10, get=25, gets=12, entries=6, synth=2), p_dur=0.05, p_cell=0.0,
                    idvals=[0, 1, 0, 1, 2], p_spec=0.15, p_cond=0.9, hashmod=[2, 2, 0]),
    "specify": dict(w=dict(set=40, get=22, gets=28, entries=2, synth=6, setcell=2), p_dur=0.3, p_cell=0.05,
                    idvals=[0, 1, 1, 2], p_spec=0.8, p_cond=0.5, hashmod=[2, 0], permute=True),
    "misuse":  dict(w=dict(set=40, get=35, gets=20, entries=2, synth=3), p_dur=0.1, p_cell=0.0,
                    idvals=[0, 1], p_spec=0.7, p_cond=0.4, hashmod=[2, 0], misuse=True),
}


class Gen:
    def __init__(self, rng, profile, size):
        self.r = rng
        self.p = PROFILES[profile]
        self.profile = profile
        self.size = size
        self.var = 1

    # ---- plain value expressions (inputs, cells, leaf calls)
    def plain(self, depth, ctx):
        r = self.r
        if depth <= 0 or r.random() < 0.35:
            c = r.random()
            if c < 0.3:
                return ["lit", r.choice([0, 1, 2, 3])]
            if c < 0.3 + self.p["p_cell"]:
                return ["cell", r.randrange(2)] if r.random() < 0.8 else ["touch"]
            if c < 0.55 and ctx.get("leaf_ok"):
                return ["call", 0, ["lit", r.randrange(ctx["nk"])]]
            return ["in", r.randrange(ctx["ni"]), r.randrange(3)]
        c = r.random()
        if c < 0.7:
            return ["op", r.choice(OPS), self.plain(depth - 1, ctx), self.plain(depth - 1, ctx)]
        return ["if", self.plain(depth - 1, ctx), self.plain(depth - 1, ctx), self.plain(depth - 1, ctx)]

    def cond(self, ctx):
        """a condition that history writes flip often"""
        r = self.r
        i, f = r.randrange(ctx["ni"]), r.randrange(3)
        ctx["toggles"].append((i, f))
        c = r.random()
        if c < 0.5:
            return ["in", i, f]
        if c < 0.8:
            return ["op", "lt", ["in", i, f], ["lit", 2]]
        return ["op", "and", ["in", i, f], ["lit", 1]]

    def fresh(self):
        self.var += 1
        return self.var

    def chain(self, items):
        if not items:
            return ["lit", 0]
        e = items[0]
        for it in items[1:]:
            e = ["op", "add", e, it]
        return e

    def uses(self, x, ctx, own):
        """things done with the struct bound to x (own = created by this body)"""
        r = self.r
        items = []
        if r.random() < 0.75:
            items.append(["reth", x])
        if own and r.random() < self.p["p_spec"]:
            sp = ["specify", 3, x, self.plain(1, ctx)]
            if r.random() < 0.35:
                sp = ["if", self.cond(ctx), sp, ["lit", 0]]
            items.append(sp)
            if self.p.get("misuse") and r.random() < 0.25:
                items.append(["specify", 3, x, ["lit", r.choice([0, 1, 2])]])      # double specify
        k = r.random()
        if ctx["may_call_ontr"] and k < 0.5:
            items.append(["calls", 2, x])
        if ctx["may_call_spec"] and r.random() < 0.5:
            items.append(["calls", 3, x])
        if r.random() < 0.5:
            items.append(["field", x, r.randrange(2)])
        if r.random() < 0.25:
            items.append(["idfield", x])
        if ctx["may_call_ontr"] and r.random() < 0.15:
            y = self.fresh()
            items.append(["let", y, ["nths", 2, x, 0], self.chain([["field", y, 0], ["reth", y]]), ["lit", 0]])
        r.shuffle(items)
        return self.chain(items)

    def creation(self, ctx):
        r = self.r
        x = self.fresh()
        idv = r.choice(self.p["idvals"])
        ide = ["lit", idv] if r.random() < 0.7 else ["op", "and", ["in", r.randrange(ctx["ni"]), r.randrange(3)], ["lit", r.choice([1, 1, 3])]]
        f0 = self.plain(1, ctx)
        f1 = self.plain(1, ctx)
        e = ["let", x, ["new", ide, f0, f1], self.uses(x, ctx, True), ["lit", 0]]
        if r.random() < self.p["p_cond"]:
            e = ["if", self.cond(ctx), e, ["lit", 0]] if r.random() < 0.7 else ["if", self.cond(ctx), ["lit", 0], e]
        return e

    def borrow(self, ctx, fam, key_e):
        """use a struct returned by another creator"""
        r = self.r
        y = self.fresh()
        us = self.uses(y, ctx, False)
        if self.p.get("misuse") and r.random() < 0.3:
            us = ["op", "add", us, ["specify", 3, y, ["lit", 1]]]                 # foreign specify
        return ["let", y, ["nth", fam, key_e, r.randrange(3)], us, ["lit", r.choice([0, 7])]]

    def node_body(self, fam, k, ctx):
        r = self.r
        self.var = 1
        items = []
        if fam == 0:
            return self.plain(2, dict(ctx, leaf_ok=False))
        if fam == 3:                                     # spec body: self fields, inputs, leaf
            body = self.chain([self.plain(1, ctx)] + ([["field", 0, r.randrange(2)]] if r.random() < 0.6 else [])
                              + ([["idfield", 0]] if r.random() < 0.2 else []))
            return ["let", 0, ["self"], body, ["lit", 0]]
        if fam == 2:                                     # ontr body
            c2 = dict(ctx, may_call_ontr=False, may_call_spec=True)
            items.append(self.plain(1, ctx))
            if r.random() < 0.7:
                items.append(["field", 0, r.randrange(2)])
            if r.random() < 0.5:
                items.append(["calls", 3, 0])
            if r.random() < 0.25:
                items.append(self.creation(c2))
            r.shuffle(items)
            return ["let", 0, ["self"], self.chain(items), ["lit", 0]]
        c1 = dict(ctx, may_call_ontr=True, may_call_spec=True)
        if fam == 1:
            n_new = r.choice([0, 1, 1, 2, 2, 3])
            for _ in range(n_new):
                items.append(self.creation(c1))
            if k > 0 and r.random() < 0.35:
                items.append(self.borrow(c1, 1, ["lit", r.randrange(k)]))
            if r.random() < 0.6:
                items.append(self.plain(1, ctx))
            r.shuffle(items)
            return self.chain(items)
        # top
        for _ in range(r.choice([1, 1, 2])):
            key_e = ["lit", r.randrange(ctx["nk"])] if r.random() < 0.7 else self.plain(1, ctx)
            items.append(self.borrow(c1, 1, key_e))
        if r.random() < 0.3:
            items.append(self.creation(c1))
        if k > 0 and r.random() < 0.3:
            items.append(["call", 4, ["lit", r.randrange(k)]])
        if r.random() < 0.4:
            items.append(["call", 1, ["lit", r.randrange(ctx["nk"])]])
        if r.random() < 0.5:
            items.append(self.plain(1, ctx))
        r.shuffle(items)
        return self.chain(items)

    def case(self, cid):
        r = self.r
        p = self.p
        nk = r.randint(2, 3)
        ni = nk
        ctx = dict(nk=nk, ni=ni, leaf_ok=True, toggles=[])
        nodes = []
        for fam in (0, 3, 2, 1, 4):
            for k in range(nk):
                if fam in (0,) and r.random() < 0.4:
                    continue
                nodes.append(["node", fam, k, self.node_body(fam, k, ctx)])
        ival = [[i, f, r.choice([0, 1, 2, 3])] for i in range(ni) for f in range(3)]
        idur = [[i, f, r.choice([0, 1, 2, 2])] for i in range(ni) for f in range(3)
                if r.random() < p.get("p_idur", p["p_dur"])]
        durs = {(i, f): d for i, f, d in idur}
        nops = r.randint(10, 28) if self.size == "quick" else r.randint(20, 60)
        hist = []
        w = p["w"]
        kinds = list(w.keys())
        weights = [w[k] for k in kinds]
        toggles = ctx["toggles"] or [(0, 0)]
        cur = {(i, f): v for i, f, v in ival}

        def reads():
            k = r.random()
            if k < 0.45:
                return ["get", r.choice([1, 4, 4]), r.randrange(nk)]
            if k < 0.5:
                return ["get", 0, r.randrange(nk)]
            return ["gets", r.choice([2, 3, 3]), r.choice([1, 1, 4]), r.randrange(nk), r.randrange(3)]

        for _ in range(nops):
            k = r.choices(kinds, weights)[0]
            if k in ("set", "toggle"):
                if k == "toggle" or r.random() < 0.6:
                    i, f = r.choice(toggles)
                    v = 0 if cur.get((i, f), 0) != 0 else r.choice([1, 2, 3])
                else:
                    i, f = r.randrange(ni), r.randrange(3)
                    v = r.choice([0, 1, 2, 3])
                if p.get("p_samelower") and durs.get((i, f), 0) > 0 and r.random() < p["p_samelower"]:
                    v = cur.get((i, f), 0)                      # same value, lower durability
                    op = ["set", i, f, v, r.randrange(durs[(i, f)])]
                else:
                    op = ["set", i, f, v]
                    if r.random() < p["p_dur"]:
                        op.append(r.choice([0, 1, 2]))
                cur[(i, f)] = v
                if len(op) > 4:
                    durs[(i, f)] = op[4]
                hist.append(op)
                if p.get("permute") or k == "toggle":
                    rs = [reads() for _ in range(r.randint(1, 3))]
                    r.shuffle(rs)
                    hist += rs
            elif k == "get":
                hist.append(reads() if r.random() < 0.3 else ["get", r.choice([1, 4, 4]), r.randrange(nk)])
            elif k == "gets":
                hist.append(["gets", r.choice([2, 3, 3]), r.choice([1, 1, 4]), r.randrange(nk), r.randrange(3)])
            elif k == "entries":
                hist.append(["entries"])
            elif k == "synth":
                hist.append(["synth", r.choice([0, 0, 1, 2])])
            elif k == "setcell":
                hist.append(["setcell", r.randrange(2), r.choice([0, 1, 2])])
                hist.append(["synth", r.choice([0, 0, 1, 2])])
        hist.append(["get", 4, r.randrange(nk)])
        hist.append(["entries"])
        return sx(["case", cid, ["cfg", ["nk", nk], ["ni", ni], ["nf", 3], ["hashmod", r.choice(p["hashmod"])]],
                   ["ival"] + ival, ["idur"] + idur, ["prog"] + nodes, ["hist"] + hist])


def generate(seed, profile, n, size, prefix="c"):
    rng = random.Random(f"structs/{seed}/{profile}/{size}")
    g = Gen(rng, profile, size)
    return [g.case(f"{prefix}{i}") for i in range(n)]


# ------------------------------------------------------------------ comparing

LINE = re.compile(r"^([RCESVNI]) (\d+) ?(.*)$")


def split_lines(lines):
    d = {"R": {}, "C": {}, "E": {}, "S": {}, "V": {}, "N": {}, "I": {}, "ERROR": []}
    for l in lines:
        if l.startswith("ERROR"):
            d["ERROR"].append(l)
            continue
        m = LINE.match(l)
        if m:
            d[m.group(1)][int(m.group(2))] = m.group(3)
    return d


def relax_events(ev):
    """DidDiscard events inside one deletion cascade come out in the order of a hashbrown
    table (IdentityMap::drain -> tracked_struct_ids -> remove_outputs), which the model does
    not reproduce: maximal runs of `d:` events are compared as multisets."""
    out, run = [], []
    for e in ev.split():
        if e.startswith("d:"):
            run.append(e)
        else:
            out += sorted(run)
            run = []
            out.append(e)
    out += sorted(run)
    return " ".join(out)


def relax_state(st):
    """after a relaxed cascade the free list holds the same ids in a different order"""
    m = re.search(r"free=\[([^\]]*)\]", st)
    if not m:
        return st
    ids = sorted(x for x in m.group(1).split(",") if x)
    return st[:m.start()] + "free=[" + ",".join(ids) + "]" + st[m.end():]


def plain_of(r):
    """'ret v [h,..]' -> (v, nhandles) ; 'panic c' -> ('panic', c)"""
    if r is None:
        return None
    if r.startswith("panic") or r.startswith("fuel"):
        return ("panic", r.split()[-1])
    m = re.match(r"ret (\d+) \[(.*)\]", r)
    return (int(m.group(1)), len([x for x in m.group(2).split(",") if x]))


def compare_case(impl_lines, model_lines):
    """-> dict(level=None|'error'|'spec'|'values'|'events'|'state', step, impl, model, relaxed=bool)"""
    a = split_lines(impl_lines)
    b = split_lines(model_lines)
    if a["ERROR"] or b["ERROR"]:
        return dict(level="error", step=-1, impl=a["ERROR"], model=b["ERROR"])
    relaxed = False
    order_relaxed = False
    n = max(len(a["R"]), len(b["R"]))
    for i in range(n):
        if i in b["V"]:
            # implementation vs specification, handles through canonical names
            if a["R"].get(i) == b["R"].get(i):
                if b["C"].get(i) != b["V"][i]:
                    return dict(level="spec", step=i, impl=b["C"].get(i), model=b["V"][i], relaxed=relaxed,
                                ignored_specify=i in b["I"])
            elif plain_of(a["R"].get(i)) != plain_of(b["V"][i]):
                return dict(level="spec", step=i, impl=a["R"].get(i), model=b["V"][i], relaxed=relaxed,
                            ignored_specify=i in b["I"])
        if a["R"].get(i) != b["R"].get(i):
            return dict(level="values", step=i, impl=a["R"].get(i), model=b["R"].get(i), relaxed=relaxed)
        if a["N"].get(i) != b["N"].get(i):
            return dict(level="values", step=i, impl=a["N"].get(i), model=b["N"].get(i), relaxed=relaxed)
        ea, eb = a["E"].get(i, ""), b["E"].get(i, "")
        if ea != eb:
            if relax_events(ea) == relax_events(eb):
                relaxed = True
                order_relaxed = True
            else:
                return dict(level="events", step=i, impl=ea, model=eb, relaxed=relaxed)
        sa, sb = a["S"].get(i), b["S"].get(i)
        if sa != sb:
            if order_relaxed and sa is not None and sb is not None and relax_state(sa) == relax_state(sb):
                relaxed = True
            else:
                return dict(level="state", step=i, impl=sa, model=sb, relaxed=relaxed)
    return dict(level=None, relaxed=relaxed)


def spec_only_compare(impl_lines, model_lines):
    a = split_lines(impl_lines)
    b = split_lines(model_lines)
    for i in sorted(b["V"]):
        if a["R"].get(i) == b["R"].get(i):
            if b["C"].get(i) != b["V"][i]:
                return dict(level="spec", step=i, impl=b["C"].get(i), model=b["V"][i], ignored_specify=i in b["I"])
        elif plain_of(a["R"].get(i)) != plain_of(b["V"][i]):
            return dict(level="spec", step=i, impl=a["R"].get(i), model=b["V"][i], ignored_specify=i in b["I"])
    return dict(level=None)


# ------------------------------------------------------------------ parsing the records

def parse_state(st):
    """-> dict(rev=int, memo={key: dict}, slots={idx: dict}, free=[(i,g)])"""
    out = dict(rev=0, memo={}, slots={}, free=[])
    m = re.search(r"revs=(\d+)", st)
    if m:
        out["rev"] = int(m.group(1))
    m = re.search(r"memo=(\S*)", st)
    if m:
        for ent in m.group(1).split(";"):
            if not ent:
                continue
            mm = re.match(r"^(\d+\.\d+):(\d):(\d+):(\d+):(\d+):([^:]+):\[([^\]]*)\]:\{([^}]*)\}", ent)
            if not mm:
                continue
            out["memo"][mm.group(1)] = dict(hv=mm.group(2), ver=int(mm.group(3)), ch=int(mm.group(4)),
                                            dur=int(mm.group(5)), origin=mm.group(6),
                                            edges=[e for e in mm.group(7).split(",") if e],
                                            structs=[e for e in mm.group(8).split(",") if e])
    m = re.search(r"slots=(\S*)", st)
    if m:
        for ent in m.group(1).split(";"):
            if not ent:
                continue
            p = ent.split(":")
            if p[1] == "-":
                out["slots"][int(p[0])] = dict(live=False, dur=int(p[2]), r0=int(p[3]), r1=int(p[4]))
            else:
                out["slots"][int(p[0])] = dict(live=True, upd=int(p[1]), dur=int(p[2]), r0=int(p[3]), r1=int(p[4]),
                                               idv=int(p[5]), f0=int(p[6]), f1=int(p[7]))
    m = re.search(r"free=\[([^\]]*)\]", st)
    if m:
        out["free"] = [tuple(int(x) for x in e.split(".")) for e in m.group(1).split(",") if e]
    return out


def hist_of(case_text):
    tree = parse_sx(case_text)
    return next(x for x in tree[2:] if isinstance(x, list) and x and x[0] == "hist")[1:]


def classify(model_lines):
    """features of a case, from the model's own log/state"""
    d = split_lines(model_lines)
    feats = set()
    seen_exec = set()
    ever_free = set()
    for i in sorted(d["R"]):
        ev = d["E"].get(i, "").split()
        st = parse_state(d["S"].get(i, ""))
        for e in ev:
            t, k = e.split(":", 1)
            if t == "x":
                if k in seen_exec:
                    feats.add("reexec")
                seen_exec.add(k)
                if k.startswith("3."):
                    feats.add("spec_body_ran")
            elif t == "v":
                feats.add("validate")
                if k.startswith("3."):
                    feats.add("validate_specified")
                if k.startswith("2."):
                    feats.add("validate_keyed_by_struct")
            elif t == "d":
                feats.add("discard_struct" if k.startswith("s.") else "discard_memo")
            elif t == "w":
                feats.add("stale_output_struct" if ">s." in k else "stale_output_specified")
        for (ix, g) in st["free"]:
            ever_free.add(ix)
        for ix, sl in st["slots"].items():
            if sl["live"] and ix in ever_free:
                feats.add("slot_reused")
        for k, m in st["memo"].items():
            if m["origin"].startswith("a"):
                feats.add("assigned_memo")
            if any(e.startswith("o.") for e in m["edges"]):
                feats.add("output_edge")
            if m["ch"] < m["ver"] and k.split(".")[0] in ("1", "4") and m["structs"]:
                feats.add("creator_backdated_or_validated")
            if any(s.split(".")[1] != "0" for s in m["structs"]):
                feats.add("generation_gt0_live")
        r = d["R"][i]
        if r.startswith("panic 6"):
            feats.add("specify_foreign_panic")
        if r.startswith("panic 8"):
            feats.add("specify_twice_panic")
        if r.startswith("panic 9"):
            feats.add("lock_panic")
        if r.startswith("panic 3"):
            feats.add("backdate_panic")
    return feats


# ------------------------------------------------------------------ known deviation classes (C10)

def specify_hazards(model_lines):
    """Steps at which the run (per the model's own records, which equal the implementation's
    whenever the three-level comparison passes) meets the precondition of a `specify`
    deviation class.  On a fresh database a specifiable key is either assigned or computed,
    once; the classes are the two ways an incremental run flips that:
      ignored_specify      marker line I: the from-scratch evaluation of this request ignored a
                           specify because the key had been computed earlier in the creator's run;
      assign_over_derived  a specify replaced a Derived memo left over from an EARLIER revision
                           (specify.rs:101-108 only protects memos verified in this revision);
                           sub-flag never_change: that memo had durability NEVER_CHANGE, so its
                           readers recorded no edge to it (active_query.rs:129-137);
      unspecify_recompute  the body ran for a key whose previous memo was Assigned (creator no
                           longer specifies); sub-flag old_stamp: the new memo's changed_at is
                           not later than the old memo's verified_at, so readers see 'unchanged'.
    -> dict class -> first step"""
    d = split_lines(model_lines)
    out = {}
    prev = None
    for i in sorted(d["R"]):
        st = parse_state(d["S"].get(i, ""))
        if i in d["I"]:
            out.setdefault("ignored_specify", i)
        if prev is not None:
            for e in d["E"].get(i, "").split():
                if e.startswith("x:3."):
                    loc = ".".join(e[2:].split(".")[:2])
                    old = prev["memo"].get(loc)
                    new = st["memo"].get(loc)
                    if old and old["origin"].startswith("a"):
                        out.setdefault("unspecify_recompute", i)
                        if new is None or new["ch"] <= old["ver"]:
                            out.setdefault("unspecify_recompute.old_stamp", i)
            for loc, new in st["memo"].items():
                old = prev["memo"].get(loc)
                if loc.startswith("3.") and new["origin"].startswith("a") and old and not old["origin"].startswith("a") \
                        and old["ver"] < st["rev"] and prev["slots"].get(int(loc.split(".")[1]), {}).get("live"):
                    out.setdefault("assign_over_derived", i)
                    if old["dur"] == 3:
                        out.setdefault("assign_over_derived.never_change", i)
        prev = st
    return out


def c10_class(r, impl_lines, model_lines):
    """name of the known deviation class a spec-level difference r belongs to, or None"""
    hz = specify_hazards(model_lines)
    step = r["step"]
    at = lambda k: k in hz and hz[k] <= step
    impl = str(r.get("impl"))
    if impl.startswith("panic 3") and at("unspecify_recompute"):
        return "backdate_assertion_when_unspecified_value_equals_computed"
    if r.get("ignored_specify") and at("assign_over_derived"):
        return "specify_overwrites_value_computed_earlier_when_reader_only_validated"
    if at("unspecify_recompute.old_stamp"):
        return "reader_validated_after_unspecify_because_recomputed_stamp_is_old"
    if at("assign_over_derived"):
        return "reader_validated_after_specify_over_derived_memo_of_earlier_revision"
    return None


# ------------------------------------------------------------------ builds

def build_driver():
    """Extract the Structs model and build ocaml/structs_driver (if stale)."""
    import os
    from . import common
    drv = os.path.join(common.BUILD, "ocaml-structs", "structs_driver")
    deps = [os.path.join(common.COQ, p) for p in ("Structs/Model.vo", "Structs/Spec.vo", "Structs/Dsl.vo", "Kern/CoreK.vo")]
    deps += [os.path.join(common.ROOT, "ocaml", "structs_driver.ml"), os.path.join(common.COQ, "ExtractStructs.v")]
    if os.path.exists(drv) and all(os.path.exists(d) and os.path.getmtime(d) <= os.path.getmtime(drv) for d in deps):
        return drv
    common.sh([os.path.join(common.ROOT, "ocaml", "build_structs.sh")], timeout=900, check=True,
              env={"COQROOT": common.COQ})
    return drv


PROBE = ("(case probe (cfg (nk 2) (ni 2) (nf 3) (hashmod 0)) (ival) (idur) "
         "(prog (node 1 0 (let 2 (new (lit 1) (lit 2) (lit 3)) (reth 2) (lit 0)))) (hist (get 1 0)))")


def build_all(prop):
    """audit, translator, proofs, model driver, harness (+ probe that hook H8 is present)."""
    import os
    from . import common
    probs = common.audit()
    if probs:
        raise common.CheckError("audit failed: " + "; ".join(probs[:5]))
    proof_broken = None
    digest = {}
    ok, log, digest = common.run_translator()
    if not ok:
        proof_broken = dict(kind="translation", detail=log[-3000:])
    rep = None
    if proof_broken is None:
        rep = common.props_report(prop)
        if not rep["ok"]:
            proof_broken = dict(kind="proof", detail=rep["log"][-3000:], theorems=rep["theorems"],
                                bad_axioms=rep["bad_axioms"])
    driver = None
    try:
        ok, log = common.coq_make(["Structs/Model.vo", "Structs/Spec.vo", "Structs/Dsl.vo"])
        if ok:
            driver = build_driver()
        elif proof_broken is None:
            raise common.CheckError("Structs model does not compile:\n" + log[-2000:])
    except common.CheckError:
        if proof_broken is None:
            raise
    rel = common.cargo_build("harness", "default", bins=["structs_harness"])
    harness = os.path.join(rel, "structs_harness")
    if driver is None:
        raise common.CheckError("structs model driver could not be built")
    impl, model = run_both([PROBE], harness, driver, shards=1)
    st = parse_state(split_lines(impl.get("probe", []))["S"].get(0, ""))
    if not st["slots"]:
        raise common.CheckError("hook H8 (hooks/H8-structs.patch: verif_dump of the tracked-struct ingredient) "
                                "is not applied to /repo: the state dump has no struct slots")
    return proof_broken, rep, digest, driver, harness


# ------------------------------------------------------------------ the generic structs check

C10_CLASSES = [
    "specify_overwrites_value_computed_earlier_when_reader_only_validated",
    "backdate_assertion_when_unspecified_value_equals_computed",
    "reader_validated_after_unspecify_because_recomputed_stamp_is_old",
    "reader_validated_after_specify_over_derived_memo_of_earlier_revision",
]


def run_structs(ctx, profiles, n_quick, n_thorough, oracle=None, owns_spec_diffs=False,
                nontrivial_rule=None, thm_note="", extra_assumptions=None):
    """audit, props_report, builds, implementation vs model at values/events/state, implementation
    vs from-scratch specification on values (handles through canonical names), property oracle
    on the implementation's own records, decision (DESIGN section 6), evidence.
    owns_spec_diffs: this property decides the `specify` deviation classes (C10); for the other
    properties a spec-level difference that belongs to a C10 class is counted, not decided."""
    import time
    from . import common
    t0 = time.time()
    proof_broken, rep, digest, driver, harness = build_all(ctx.prop)
    n = n_quick if ctx.tier == "quick" else n_thorough
    size = "quick" if ctx.tier == "quick" else "thorough"
    cases = list(se.corpus(ctx.prop))
    ncorpus = len(cases)
    per = max(1, n // len(profiles))
    for p in profiles:
        cases += generate(ctx.seed, p, per, size, prefix=f"{p}-")
    impl, model = run_both(cases, harness, driver, shards=6)

    known = {kf["class"]: kf for kf in common.known_findings() if kf["property"] == ctx.prop}
    feats_count, opcount = {}, {}
    distinct, nontrivial = set(), 0
    corr_diffs, spec_diffs, oracle_diffs = [], [], []
    class_count = {}
    relaxed_cases = 0
    for c in cases:
        cid = c.split()[1]
        il, ml = impl.get(cid, ["ERROR missing"]), model.get(cid, ["ERROR missing"])
        r = compare_case(il, ml)
        if r["level"] == "error":
            raise common.CheckError(f"driver error on case {cid}: {r}")
        if r.get("relaxed"):
            relaxed_cases += 1
        if r["level"] == "spec":
            cls = c10_class(r, il, ml)
            if cls is not None:
                class_count[cls] = class_count.get(cls, 0) + 1
            if cls is not None and (not owns_spec_diffs or cls in known):
                pass                                  # a known / foreign deviation class: counted
            else:
                spec_diffs.append((c, dict(r, deviation_class=cls)))
        elif r["level"] is not None:
            corr_diffs.append((c, r))
        if oracle is not None:
            o = oracle(c, il, ml)
            if o is not None:
                oracle_diffs.append((c, o))
        f = classify(ml)
        nt = nontrivial_rule(f) if nontrivial_rule else ("reexec" in f and "validate" in f)
        for x in f:
            feats_count[x] = feats_count.get(x, 0) + 1
        h = common.case_hash(c.split(" ", 2)[2])
        if nt and h not in distinct:
            distinct.add(h)
            nontrivial += 1
        for opk in ("(set ", "(get ", "(gets ", "(synth ", "(setcell ", "(entries)"):
            opcount[opk.strip("( )")] = opcount.get(opk.strip("( )"), 0) + c.count(opk)
    if owns_spec_diffs:
        for cls, cnt in sorted(class_count.items()):
            if cls in known:
                ctx.known_finding(f"class={cls} {known[cls]['text']} (met in {cnt} generated cases)")

    def fails_at(level):
        def f(text):
            i2, m2 = run_both([text], harness, driver, shards=1)
            cid = text.split()[1]
            if cid not in i2 or cid not in m2:
                return False
            return compare_case(i2[cid], m2[cid])["level"] == level
        return f

    def report_case(c, r, kind, no_input=False):
        ctx.violation(dict(kind=kind, case=c, first_difference=r, engine="structs",
                           how_to_replay="./vp replay <this file>"), no_input=no_input)

    reported = 0
    seen_classes = set()
    for c, r in spec_diffs:
        cls = r.get("deviation_class")
        if cls in seen_classes or reported >= 4:
            continue
        seen_classes.add(cls)
        small = shrink(c, fails_at("spec"), budget=150)
        i2, m2 = run_both([small], harness, driver, shards=1)
        cid = small.split()[1]
        r2 = compare_case(i2[cid], m2[cid])
        if r2["level"] == "spec":
            r2 = dict(r2, deviation_class=c10_class(r2, i2[cid], m2[cid]))
        report_case(small, r2 if r2["level"] else r,
                    "implementation differs from the from-scratch specification"
                    + (f" (specify deviation class {cls}, not listed in known-findings.txt)" if cls else ""))
        reported += 1
    for c, o in oracle_diffs[:3]:
        report_case(c, o, "property oracle violated on the implementation's own records")
        reported += 1

    searched = 0
    if reported == 0 and (proof_broken is not None or corr_diffs):
        extra = []
        for p in profiles + (["durstructs"] if "durstructs" not in profiles else []):
            extra += generate(ctx.seed + 7919, p, max(400, n_thorough // len(profiles)), "thorough", prefix=f"s-{p}-")
        i3, m3 = run_both(extra, harness, driver, shards=6)
        searched = len(extra)
        found = None
        for c in extra:
            cid = c.split()[1]
            r3 = spec_only_compare(i3.get(cid, []), m3.get(cid, []))
            if r3["level"] == "spec":
                cls = c10_class(r3, i3.get(cid, []), m3.get(cid, []))
                if cls is None or (owns_spec_diffs and cls not in known):
                    found = (c, dict(r3, deviation_class=cls))
                    break
            if oracle is not None:
                o3 = oracle(c, i3.get(cid, []), m3.get(cid, []))
                if o3 is not None:
                    found = (c, o3)
                    break
        if found:
            report_case(found[0], found[1], "failing input found after proof/correspondence broke")
        elif proof_broken is not None:
            ctx.violation(dict(kind="proof obligation no longer checks", broken=proof_broken,
                               theorem_file=f"coq/Props/{ctx.prop}.v",
                               search=f"{searched} extra cases compared with the specification, none fails"),
                          no_input=True)
        else:
            c, r = corr_diffs[0]
            small = shrink(c, fails_at(r["level"]), budget=100)
            i2, m2 = run_both([small], harness, driver, shards=1)
            r2 = compare_case(i2[small.split()[1]], m2[small.split()[1]])
            ctx.violation(dict(kind="correspondence model/implementation no longer holds",
                               relation=f"Structs model (coq/Structs/Model.v) vs implementation at level {r['level']}",
                               case=small, first_difference=r2 if r2["level"] else r, engine="structs",
                               n_cases_differing=len(corr_diffs),
                               search=f"{searched} extra cases compared with the specification, none fails"),
                          no_input=True)

    sample = cases[ncorpus] if len(cases) > ncorpus else cases[0]
    ctx.coverage.update({
        "obligations": rep["obligations"] if rep else 0,
        "discharged": rep["discharged"] if rep else 0,
        "checker_cmd": f"make -C coq Props/{ctx.prop}.vo  (coqc 8.16.1, Print Assumptions captured and compared with coq/ASSUMPTIONS.allow)",
        "trusted_base": common.TRUSTED_BASE_COMMON + [
            "hook H8 (tracked-struct slots, free list) reporting internal state truthfully",
            "the harness's identity-field Hash impl (value mod HASHMOD) is the model's idhash",
        ] + (extra_assumptions or []),
        "theorems": rep["statements"] if rep else [],
        "axioms_reported": rep["axioms"] if rep else [],
        "closed_under_global_context": rep["closed_count"] if rep else 0,
        "theorem_note": thm_note,
        "evaluations": len(cases),
        "corpus_cases": ncorpus,
        "distinct_nontrivial": nontrivial,
        "rule": "seeded generation (profiles %s); non-trivial = %s; distinct = different program+history text" % (
            ",".join(profiles), "property-specific rule on the model's own log/state (see check module)"
            if nontrivial_rule else "at least one re-execution and one validation"),
        "traces_validated_against_impl": len(cases) - len(corr_diffs),
        "correspondence_levels": [
            "values (u8 result + returned struct ids, panic class; entries() enumeration with field values)",
            "events (WillExecute, DidValidateMemoizedValue, DidDiscard, WillDiscardStaleOutput; keys with generation)",
            "state (revisions, cancellation count, input stamps, every memo: has_value/verified_at/changed_at/durability/"
            "origin incl. assigner/edges incl. field and output edges/tracked_struct_ids; every struct slot: "
            "updated_at/durability/field revisions/field values; free list with generations)",
        ],
        "comparison_relaxations": {
            "tracked_struct_ids order inside a memo": "compared as a sorted list (hashbrown drain order not modelled)",
            "DidDiscard order inside one deletion cascade": f"compared exactly first; multiset fallback needed in {relaxed_cases} cases",
            "generation of a live slot": "not stored by the Rust slot; compared through the owners' id lists and the free list",
        },
        "implementation_vs_spec_disagreements": len(spec_diffs),
        "specify_deviation_class_cases": class_count,
        "implementation_vs_model_disagreements": len(corr_diffs),
        "oracle_disagreements": len(oracle_diffs),
        "failing_input_search_cases": searched,
        "feature_histogram": feats_count,
        "operation_histogram": opcount,
        "samples": [sample],
        "wall_s": round(time.time() - t0, 1),
    })
    ctx.assumptions = [
        "user code is deterministic in what it reads (salsa's contract) and does not forge or leak struct handles",
        "the hook dumps (H1, H8) report internal state truthfully",
        "executions that unwind are outside the Structs-layer theorems (see checks/notes)",
    ] + (extra_assumptions or [])
    ctx.write_evidence("proof")


def replay(ctx, rp):
    """Re-run exactly the recorded case against the current /repo."""
    proof_broken, rep, digest, driver, harness = build_all(ctx.prop)
    if "case" not in rp:
        print("replay: no concrete input recorded; broken obligation:", rp.get("broken", rp.get("relation")))
        print("proof status now:", "broken" if proof_broken else "ok")
        return 1 if proof_broken else 0
    c = rp["case"]
    impl, model = run_both([c], harness, driver, shards=1)
    cid = c.split()[1]
    r = compare_case(impl[cid], model[cid])
    print("implementation:")
    print("\n".join(impl[cid]))
    print("model + specification:")
    print("\n".join(model[cid]))
    print("first difference:", r)
    if r["level"] == "spec":
        print("deviation class:", c10_class(r, impl[cid], model[cid]))
    return 1 if r["level"] else 0

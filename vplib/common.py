"""vplib.common — shared machinery for ./vp: builds, audit, evidence, replays, known findings."""
import hashlib
import json
import os
import re
import subprocess
import sys
import time

ROOT = os.path.dirname(os.path.dirname(os.path.abspath(__file__)))
REPO = os.environ.get("VERIF_REPO", "/repo")
BUILD = os.path.join(ROOT, ".build")
COQ = os.path.join(ROOT, "coq")
GUARD = "salsa_rs_salsa_verif"

FORBIDDEN = re.compile(
    r"\b(Admitted|admit|Axiom|Axioms|Parameter|Parameters|Conjecture|Conjectures|Admit Obligations|"
    r"Unset Guard Checking|bypass_check|native_compute|Unset Positivity Checking|Unset Universe Checking|"
    r"Extract Constant|Extract Inlined Constant|Extract Inductive|ExtrOcamlNatInt|ExtrOcamlZInt|ExtrOcamlNativeString|"
    r"ExtrOcamlString|ExtrOcamlIntConv|ExtrOcamlNatBigInt|ExtrOcamlZBigInt)\b"
)


class CheckError(Exception):
    """The check itself is broken (not a property violation)."""


def sh(cmd, cwd=None, timeout=1800, env=None, check=False):
    e = dict(os.environ)
    e.update({"CARGO_NET_OFFLINE": "true"})
    if env:
        e.update(env)
    p = subprocess.run(cmd, cwd=cwd, shell=isinstance(cmd, str), env=e, timeout=timeout,
                       stdout=subprocess.PIPE, stderr=subprocess.STDOUT, text=True)
    if check and p.returncode != 0:
        raise CheckError(f"command failed ({p.returncode}): {cmd}\n{p.stdout[-4000:]}")
    return p.returncode, p.stdout


# ------------------------------------------------------------------ audit

def strip_comments(text):
    out = []
    depth = 0
    i = 0
    while i < len(text):
        if text.startswith("(*", i):
            depth += 1
            i += 2
        elif text.startswith("*)", i) and depth > 0:
            depth -= 1
            i += 2
        else:
            if depth == 0:
                out.append(text[i])
            i += 1
    return "".join(out)


def coq_files():
    fs = []
    for d, _, files in os.walk(COQ):
        for f in files:
            if f.endswith(".v"):
                fs.append(os.path.join(d, f))
    return sorted(fs)


def audit():
    """grep every .v for forbidden vernacular (comments stripped); top-level Variable/Hypothesis."""
    problems = []
    for f in coq_files():
        text = strip_comments(open(f).read())
        for m in FORBIDDEN.finditer(text):
            line = text.count("\n", 0, m.start()) + 1
            problems.append(f"{os.path.relpath(f, ROOT)}:{line}: forbidden `{m.group(0)}`")
        depth = 0
        for n, line in enumerate(text.split("\n"), 1):
            s = line.strip()
            if re.match(r"^Section\b", s):
                depth += 1
            elif re.match(r"^End\b", s) and depth > 0:
                depth -= 1
            elif depth == 0 and re.match(r"^(Variable|Variables|Hypothesis|Hypotheses|Context)\b", s):
                problems.append(f"{os.path.relpath(f, ROOT)}:{n}: top-level `{s.split()[0]}`")
    proj = open(os.path.join(COQ, "_CoqProject")).read()
    for bad in ("-type-in-type", "-impredicative-set", "-noinit"):
        if bad in proj:
            problems.append(f"_CoqProject: forbidden flag {bad}")
    return problems


# ------------------------------------------------------------------ coq

def run_translator():
    """Regenerate coq/gen/Kernels.v from /repo. Returns (ok, message, digest_dict)."""
    tr = os.path.join(ROOT, "translator", "rust2gallina.py")
    out = os.path.join(COQ, "gen", "Kernels.v")
    dig = os.path.join(COQ, "gen", "kernels.json")
    if not os.path.exists(tr):
        raise CheckError("translator missing")
    rc, log = sh([sys.executable, tr, "--repo", REPO, "--out", out, "--digest", dig], timeout=120)
    digest = {}
    if os.path.exists(dig):
        try:
            digest = json.load(open(dig))
        except Exception:
            digest = {}
    return rc == 0, log, digest


def coq_make(targets=None, timeout=3000, jobs=16):
    """Build the given .vo targets (relative to coq/) — or everything. Returns (ok, log)."""
    mk = os.path.join(COQ, "Makefile")
    proj = os.path.join(COQ, "_CoqProject")
    if not os.path.exists(mk) or os.path.getmtime(mk) < os.path.getmtime(proj):
        sh("coq_makefile -f _CoqProject -o Makefile", cwd=COQ, check=True)
    cmd = ["make", f"-j{jobs}"] + (targets or [])
    rc, log = sh(cmd, cwd=COQ, timeout=timeout)
    return rc == 0, log


def read_allow():
    p = os.path.join(COQ, "ASSUMPTIONS.allow")
    if not os.path.exists(p):
        return set()
    return {l.strip() for l in open(p) if l.strip() and not l.startswith("#")}


def props_report(prop_id, force=True):
    """Compile Props/<id>.v, capture Print Assumptions. Returns dict with theorem list,
    per-theorem assumption status, obligations/discharged, and the log."""
    src = os.path.join(COQ, "Props", f"{prop_id}.v")
    if not os.path.exists(src):
        raise CheckError(f"no Props/{prop_id}.v")
    vo = src[:-2] + ".vo"
    if force and os.path.exists(vo):
        os.remove(vo)   # force recompilation so Print Assumptions output is captured
    ok, log = coq_make([f"Props/{prop_id}.vo"])
    text = strip_comments(open(src).read())
    theorems = re.findall(r"^\s*(?:Theorem|Corollary)\s+([A-Za-z0-9_']+)", text, re.M)
    allow = read_allow()
    # parse "Print Assumptions" blocks from the log
    status = {}
    blocks = re.split(r"\n(?=Closed under the global context|Axioms:)", "\n" + log)
    closed = log.count("Closed under the global context")
    axioms = []
    for m in re.finditer(r"Axioms:\n((?:.+\n?)+?)(?=\n\S|\Z)", log):
        for l in m.group(1).split("\n"):
            mm = re.match(r"^([A-Za-z0-9_.']+)\s*:", l)
            if mm:
                axioms.append(mm.group(1))
    bad_axioms = [a for a in axioms if a.split(".")[-1] not in allow and a not in allow]
    n_print = len(re.findall(r"^\s*Print Assumptions\s+", text, re.M))
    discharged = len(theorems) if (ok and not bad_axioms and n_print >= len(theorems)) else 0
    return {
        "ok": ok and not bad_axioms and n_print >= len(theorems) and len(theorems) > 0,
        "compiled": ok,
        "theorems": theorems,
        "closed_count": closed,
        "axioms": sorted(set(axioms)),
        "bad_axioms": bad_axioms,
        "obligations": len(theorems),
        "discharged": discharged,
        "log": log[-6000:],
        "statements": theorem_statements(text),
    }


def theorem_statements(text):
    out = []
    for m in re.finditer(r"^\s*(?:Theorem|Corollary)\s+([A-Za-z0-9_']+)\s*:(.*?)\.\s*\n\s*Proof", text, re.M | re.S):
        out.append({"name": m.group(1), "statement": " ".join(m.group(2).split())[:600]})
    return out


# ------------------------------------------------------------------ builds

def build_ocaml_core():
    drv = os.path.join(BUILD, "ocaml-core", "core_driver")
    deps = [os.path.join(COQ, p) for p in ("Core/Model.vo", "Core/Spec.vo", "Core/Dsl.vo", "Kern/CoreK.vo")]
    deps += [os.path.join(ROOT, "ocaml", "core_driver.ml"), os.path.join(COQ, "Extract.v")]
    if os.path.exists(drv) and all(os.path.exists(d) and os.path.getmtime(d) <= os.path.getmtime(drv) for d in deps):
        return drv
    sh([os.path.join(ROOT, "ocaml", "build_core.sh")], timeout=900, check=True)
    return drv


def crate_dir(crate):
    """The harness crates depend on salsa by path /repo.  When VERIF_REPO points elsewhere
    (e.g. a scratch worktree with a seeded change, so that /repo itself is never touched while
    other work builds against it) a copy of the crate with the path rewritten is used."""
    src = os.path.join(ROOT, crate)
    if REPO == "/repo":
        return src
    import shutil
    tag = hashlib.sha256(REPO.encode()).hexdigest()[:8]
    dst = os.path.join(BUILD, "alt", tag, crate)
    if os.path.exists(dst):
        shutil.rmtree(dst)
    shutil.copytree(src, dst, ignore=shutil.ignore_patterns("target"))
    for d, _, files in os.walk(dst):
        for f in files:
            if f == "Cargo.toml":
                pth = os.path.join(d, f)
                t = open(pth).read().replace('path = "/repo"', 'path = "%s"' % REPO)
                open(pth, "w").write(t)
    return dst


def target_dir(name):
    if REPO == "/repo":
        return os.path.join(BUILD, f"target-{name}")
    tag = hashlib.sha256(REPO.encode()).hexdigest()[:8]
    return os.path.join(BUILD, "alt", tag, f"target-{name}")


def cargo_build(crate="harness", target="default", features=None, bins=None, timeout=2400):
    """Build a harness crate against the repository's current working tree with the hook cfg on."""
    cdir = crate_dir(crate)
    for f in ("Cargo.lock", "rust-toolchain.toml"):
        src = os.path.join(REPO, f)
        dst = os.path.join(cdir, f)
        if os.path.exists(src) and (not os.path.exists(dst)):
            import shutil
            shutil.copy(src, dst)
    tdir = target_dir(target)
    cmd = ["cargo", "build", "--offline", "--release"]
    if features:
        cmd += ["--features", ",".join(features)]
    for b in bins or []:
        cmd += ["--bin", b]
    rc, log = sh(cmd, cwd=cdir, timeout=timeout,
                 env={"CARGO_TARGET_DIR": tdir, "RUSTFLAGS": f"--cfg {GUARD}"})
    if rc != 0:
        raise CheckError(f"cargo build of {crate} against {REPO} failed:\n{log[-6000:]}")
    return os.path.join(tdir, "release")


# ------------------------------------------------------------------ known findings

def known_findings():
    p = os.path.join(ROOT, "known-findings.txt")
    out = []
    if not os.path.exists(p):
        return out
    for l in open(p):
        l = l.strip()
        if l.startswith("finding:"):
            m = re.match(r"finding:\s+property=(\S+)\s+class=(\S+)\s*(.*)", l)
            if m:
                out.append({"property": m.group(1), "class": m.group(2), "text": m.group(3)})
    return out


# ------------------------------------------------------------------ context / evidence

class Ctx:
    def __init__(self, prop, tier, seed):
        self.prop = prop
        self.tier = tier
        self.seed = seed
        self.t0 = time.time()
        self.violations = []      # list of replay paths
        self.known = []
        self.coverage = {}
        self.assumptions = []
        self.replay_n = 0

    def replay_path(self):
        self.replay_n += 1
        d = os.path.join(ROOT, "replays")
        os.makedirs(d, exist_ok=True)
        return os.path.join(d, f"{self.prop}-{self.seed}-{self.replay_n}.json")

    def violation(self, replay, no_input=False):
        path = self.replay_path()
        replay = dict(replay)
        replay["property"] = self.prop
        replay["seed"] = self.seed
        replay["tier"] = self.tier
        with open(path, "w") as f:
            json.dump(replay, f, indent=1)
        line = f"VIOLATION property={self.prop} replay={path}"
        if no_input:
            line += " no-failing-input-found"
        print(line, flush=True)
        self.violations.append(path)

    def known_finding(self, text):
        print(f"KNOWN-FINDING: property={self.prop} {text}", flush=True)
        self.known.append(text)

    def write_evidence(self, level="proof"):
        ev = {
            "property_id": self.prop,
            "tier": self.tier,
            "seed": self.seed,
            "level": level,
            "coverage": self.coverage,
            "assumptions": self.assumptions,
            "wall_s": round(time.time() - self.t0, 2),
            "violations": len(self.violations),
        }
        if self.known:
            ev["coverage"]["known_findings_met"] = self.known
        d = os.environ.get("VERIF_EVIDENCE_DIR") or os.path.join(ROOT, "evidence")  # seeded-defect runs write elsewhere
        os.makedirs(d, exist_ok=True)
        with open(os.path.join(d, f"{self.prop}.json"), "w") as f:
            json.dump(ev, f, indent=1)


def case_hash(text):
    return hashlib.sha256(text.encode()).hexdigest()[:16]


TRUSTED_BASE_COMMON = [
    "Coq 8.16.1 kernel (coqc); vm_compute only in Examples / stated finite sweeps; no native_compute",
    "translator/rust2gallina.py (layer K kernels regenerated from /repo's Rust text on every run)",
    "extraction with ExtrOcamlBasic only (bool, option, unit, list, prod, sumbool; no Extract Constant), OCaml 4.13.1, the OCaml driver (parsing/printing glue)",
    "the Rust harness + DSL interpreter, the cfg(salsa_rs_salsa_verif) hooks reporting internal state truthfully, the Python generators and diff",
    "hand-transcribed stateful models are tied to the code by differential correspondence (values, events, internal state) on generated cases, not derived from source",
]

"""vp setup: translator, full Coq build, extraction + OCaml drivers, cargo builds."""
import os
import sys
from . import common


def run():
    probs = common.audit()
    if probs:
        for p in probs:
            print("AUDIT:", p)
        return 1
    if os.path.exists(os.path.join(common.ROOT, "translator", "rust2gallina.py")):
        ok, log, _ = common.run_translator()
        if not ok:
            print("translator failed:\n" + log)
            return 1
    ok, log = common.coq_make(None, timeout=3400)
    if not ok:
        print(log[-8000:])
        return 1
    common.build_ocaml_core()
    for extra in ("build_extra.sh",):
        p = os.path.join(common.ROOT, "ocaml", extra)
        if os.path.exists(p):
            common.sh([p], timeout=1200, check=True)
    common.cargo_build("harness", "default")
    if os.path.exists(os.path.join(common.ROOT, "checks", "cyclecheck.py")):
        sys.path.insert(0, common.ROOT)
        from checks import cyclecheck
        cyclecheck.build_ocaml_cycle()
    # other engines (each guarded: a missing piece must not break the engines that exist)
    root = common.ROOT
    if os.path.exists(os.path.join(root, "harness-intern")):
        common.cargo_build("harness-intern", "default")
        common.sh([os.path.join(root, "ocaml/intern/build.sh"), root], timeout=900, check=True)
    if os.path.exists(os.path.join(root, "harness-proto")):
        common.sh([os.path.join(root, "ocaml/proto/build.sh")], timeout=900, check=True)
        common.cargo_build("harness-proto", "shuttle")
        common.sh(["cargo", "build", "--offline", "--release", "--no-default-features"],
                  cwd=os.path.join(root, "harness-proto"), timeout=2400, check=True,
                  env={"CARGO_TARGET_DIR": os.path.join(common.BUILD, "target-std"),
                       "RUSTFLAGS": f"--cfg {common.GUARD}"})
    if os.path.exists(os.path.join(root, "vplib", "structsengine.py")):
        from vplib import structsengine
        structsengine.build_driver()
        common.cargo_build("harness", "default", bins=["structs_harness"])
    if os.path.exists(os.path.join(root, "vplib", "accengine.py")):
        from vplib import accengine
        accengine.build_ocaml_acc()
        common.cargo_build("harness", "default", bins=[accengine.HARNESS_BIN])
    if os.path.exists(os.path.join(root, "harness-persist")):
        from vplib import persistengine
        persistengine.build_ocaml_persist()
        common.cargo_build("harness-persist", "persist")
    if os.path.exists(os.path.join(root, "harness-life")):
        sys.path.insert(0, root)
        from checks import life_diff
        life_diff.build(jobs=12)
    if os.path.exists(os.path.join(root, "harness-par")):
        sys.path.insert(0, root)
        from checks import parcheck
        parcheck.build_harness(std=False)
        parcheck.build_harness(std=True)
        for fn in ("build_cyc_harness", "build_cycle_driver", "build_cert_driver"):
            if hasattr(parcheck, fn):
                try:
                    getattr(parcheck, fn)()
                except TypeError:
                    pass
    if os.path.exists(os.path.join(root, "harness-conc")):
        sys.path.insert(0, root)
        from checks import conc_diff
        conc_diff.build(jobs=12)
    if os.path.exists(os.path.join(root, "harness-codec")):
        from checks import codec_diff
        codec_diff.build_harness(False, common.REPO)
        codec_diff.build_harness(True, common.REPO)
    print("setup ok")
    return 0

//! core_harness — runs generated cases against the real salsa crate and prints one
//! observation record per operation, in the same format as ocaml/core_driver.ml.
//!
//! A *program* is data: one DSL expression per node (function family, key).  Every
//! tracked function's body is `interp(db, FAMILY, key)`, which interprets that
//! expression against the real salsa API.  The harness never interprets results.

use std::collections::HashMap;
use std::panic::{AssertUnwindSafe, catch_unwind};
use std::sync::atomic::{AtomicU8, Ordering};
use std::sync::{Arc, Mutex, RwLock};

use salsa::{Database, Durability, Setter};

mod sexp;
use sexp::Sx;

// ------------------------------------------------------------------ salsa items

#[salsa::input]
struct Inp {
    #[returns(copy)]
    a: u8,
    #[returns(copy)]
    b: u8,
    #[returns(copy)]
    c: u8,
}

#[salsa::db]
#[derive(Clone)]
struct Db {
    storage: salsa::Storage<Self>,
}

#[salsa::db]
impl salsa::Database for Db {}

const FAM_PLAIN: u8 = 0;
const FAM_LRU: u8 = 1;
const FAM_NOEQ: u8 = 2;
const LRU_DECLARED: usize = 2;

#[salsa::tracked(returns(copy))]
fn plain(db: &dyn salsa::Database, k: Inp) -> V {
    V(interp(db, FAM_PLAIN, k))
}

#[salsa::tracked(returns(copy), lru = 2)]
fn lru_fn(db: &dyn salsa::Database, k: Inp) -> V {
    V(interp(db, FAM_LRU, k))
}

#[salsa::tracked(returns(copy), no_eq)]
fn noeq(db: &dyn salsa::Database, k: Inp) -> V {
    V(interp(db, FAM_NOEQ, k))
}

// ------------------------------------------------------------------ DSL

#[derive(Debug, Clone)]
enum Expr {
    Lit(u8),
    In(usize, usize),
    Call(u8, Box<Expr>),
    Cell(usize),
    Touch,
    PanicIf(usize),
    Op(String, Box<Expr>, Box<Expr>),
    If(Box<Expr>, Box<Expr>, Box<Expr>),
}

struct CaseData {
    nk: usize,
    nodes: HashMap<(u8, usize), Expr>,
    inputs: Vec<Inp>,
}

static CASE: RwLock<Option<Arc<CaseData>>> = RwLock::new(None);
static CELLS: [AtomicU8; 8] = [const { AtomicU8::new(0) }; 8];
static PCELLS: [AtomicU8; 8] = [const { AtomicU8::new(0) }; 8];
/// event-callback fault: -1 = disarmed, n >= 0 = panic at the (n+1)-th modelled event
static EVFAULT: std::sync::atomic::AtomicI64 = std::sync::atomic::AtomicI64::new(-1);
const EQ_FAULT: usize = 6;

/// Result type of every tracked function: a `u8` whose `PartialEq` (used by salsa for
/// backdating) is user code that can be made to panic.
#[derive(Clone, Copy, Debug, Hash)]
struct V(u8);
impl PartialEq for V {
    fn eq(&self, other: &Self) -> bool {
        if PCELLS[EQ_FAULT].load(Ordering::SeqCst) != 0 {
            panic!("verif-injected panic");
        }
        self.0 == other.0
    }
}
impl Eq for V {}

fn case_data() -> Arc<CaseData> {
    CASE.read().unwrap().as_ref().unwrap().clone()
}

fn interp(db: &dyn salsa::Database, fam: u8, k: Inp) -> u8 {
    let cd = case_data();
    let key = salsa::plumbing::AsId::as_id(&k).index() as usize;
    match cd.nodes.get(&(fam, key)) {
        Some(e) => eval(db, &cd, e),
        None => 0,
    }
}

fn call_fam(db: &dyn salsa::Database, cd: &CaseData, fam: u8, key: usize) -> u8 {
    let k = cd.inputs[key];
    match fam {
        FAM_PLAIN => plain(db, k).0,
        FAM_LRU => lru_fn(db, k).0,
        FAM_NOEQ => noeq(db, k).0,
        _ => panic!("harness: unknown family {fam}"),
    }
}

fn eval(db: &dyn salsa::Database, cd: &CaseData, e: &Expr) -> u8 {
    match e {
        Expr::Lit(v) => *v,
        Expr::In(i, f) => {
            let inp = cd.inputs[*i];
            match f {
                0 => inp.a(db),
                1 => inp.b(db),
                _ => inp.c(db),
            }
        }
        Expr::Call(fam, k) => {
            let kv = eval(db, cd, k) as usize % cd.nk;
            call_fam(db, cd, *fam, kv)
        }
        Expr::Cell(c) => {
            db.report_untracked_read();
            CELLS[*c].load(Ordering::SeqCst)
        }
        Expr::Touch => {
            db.report_untracked_read();
            0
        }
        Expr::PanicIf(c) => {
            if PCELLS[*c].load(Ordering::SeqCst) != 0 {
                panic!("verif-injected panic");
            }
            0
        }
        Expr::Op(o, a, b) => {
            let x = eval(db, cd, a);
            let y = eval(db, cd, b);
            match o.as_str() {
                "add" => x.wrapping_add(y),
                "sub" => x.wrapping_sub(y),
                "min" => x.min(y),
                "max" => x.max(y),
                "and" => x & y,
                "or" => x | y,
                "eq" => (x == y) as u8,
                "lt" => (x < y) as u8,
                "shr" => x >> (y % 8),
                _ => panic!("harness: unknown op {o}"),
            }
        }
        Expr::If(c, a, b) => {
            if eval(db, cd, c) != 0 {
                eval(db, cd, a)
            } else {
                eval(db, cd, b)
            }
        }
    }
}

fn expr_of(x: &Sx) -> Expr {
    let l = x.list();
    match l[0].atom() {
        "lit" => Expr::Lit(l[1].int() as u8),
        "in" => Expr::In(l[1].int() as usize, l[2].int() as usize),
        "call" => Expr::Call(l[1].int() as u8, Box::new(expr_of(&l[2]))),
        "cell" => Expr::Cell(l[1].int() as usize),
        "touch" => Expr::Touch,
        "panicif" => Expr::PanicIf(l[1].int() as usize),
        "op" => Expr::Op(
            l[1].atom().to_string(),
            Box::new(expr_of(&l[2])),
            Box::new(expr_of(&l[3])),
        ),
        "if" => Expr::If(
            Box::new(expr_of(&l[1])),
            Box::new(expr_of(&l[2])),
            Box::new(expr_of(&l[3])),
        ),
        other => panic!("harness: bad expr {other}"),
    }
}

fn dur_of(d: i64) -> Durability {
    match d {
        0 => Durability::LOW,
        1 => Durability::MEDIUM,
        2 => Durability::HIGH,
        _ => Durability::NEVER_CHANGE,
    }
}

// ------------------------------------------------------------------ observation

fn panic_code(payload: &(dyn std::any::Any + Send)) -> u32 {
    let msg = if let Some(s) = payload.downcast_ref::<String>() {
        s.clone()
    } else if let Some(s) = payload.downcast_ref::<&str>() {
        s.to_string()
    } else if let Some(c) = payload.downcast_ref::<salsa::Cancelled>() {
        format!("Cancelled::{c:?}")
    } else {
        String::from("<opaque>")
    };
    if msg.contains("never-changing inputs cannot be mutated") {
        1
    } else if msg.contains("dependency graph cycle") {
        2
    } else if msg.contains("returned the same value, but the previous execution changed at") {
        3
    } else if msg.contains("too many cycle iterations") {
        4
    } else if msg.contains("verif-injected panic") {
        5
    } else if msg.contains("PropagatedPanic") {
        7
    } else {
        eprintln!("harness: unclassified panic: {msg}");
        99
    }
}

struct Names {
    fam_of: HashMap<u32, u8>,
    field_of: HashMap<u32, usize>,
}

fn names(db: &Db) -> Names {
    let mut fam_of = HashMap::new();
    let mut field_of = HashMap::new();
    for (idx, name) in salsa::verif::ingredient_names(db) {
        match name {
            "plain" => {
                fam_of.insert(idx, FAM_PLAIN);
            }
            "lru_fn" => {
                fam_of.insert(idx, FAM_LRU);
            }
            "noeq" => {
                fam_of.insert(idx, FAM_NOEQ);
            }
            "a" => {
                field_of.insert(idx, 0);
            }
            "b" => {
                field_of.insert(idx, 1);
            }
            "c" => {
                field_of.insert(idx, 2);
            }
            _ => {}
        }
    }
    Names { fam_of, field_of }
}

fn kv<'a>(line: &'a str, key: &str) -> &'a str {
    let pat = format!("{key}=");
    let start = line.find(&pat).unwrap_or_else(|| panic!("no {key} in {line}")) + pat.len();
    let rest = &line[start..];
    if rest.starts_with('[') {
        let end = rest.find(']').unwrap();
        &rest[1..end]
    } else if rest.starts_with('(') {
        let end = rest.find(')').unwrap();
        &rest[1..end]
    } else {
        let end = rest.find(' ').unwrap_or(rest.len());
        &rest[..end]
    }
}

fn digits(s: &str) -> Vec<u64> {
    let mut out = Vec::new();
    let mut cur = String::new();
    for ch in s.chars() {
        if ch.is_ascii_digit() {
            cur.push(ch);
        } else if !cur.is_empty() {
            out.push(cur.parse().unwrap());
            cur.clear();
        }
    }
    if !cur.is_empty() {
        out.push(cur.parse().unwrap());
    }
    out
}

fn state_line(db: &Db, nm: &Names, cd: &CaseData, ni: usize, nf: usize) -> String {
    let dump = salsa::verif::dump_state(db);
    let mut revs = String::new();
    let mut cc = String::new();
    let mut ins: Vec<(usize, Vec<u64>, Vec<u64>)> = Vec::new();
    let mut memos: Vec<(u8, usize, String)> = Vec::new();
    let mut lrus: Vec<(u8, String)> = Vec::new();
    for line in &dump {
        if let Some(rest) = line.strip_prefix("runtime ") {
            revs = kv(rest, "revisions").to_string();
            cc = kv(rest, "ccount").to_string();
        } else if line.starts_with("input ") {
            let id = digits(kv(line, "id"));
            ins.push((
                id[0] as usize,
                digits(kv(line, "revisions")),
                digits(kv(line, "durabilities")),
            ));
        } else if line.starts_with("memo ") {
            let key = digits(kv(line, "key"))[0] as usize;
            let name = kv(line, "name");
            let fam = match name {
                "plain" => FAM_PLAIN,
                "lru_fn" => FAM_LRU,
                "noeq" => FAM_NOEQ,
                _ => 255,
            };
            let origin = kv(line, "origin");
            let untracked = match origin {
                "derived" => "0".to_string(),
                "untracked" => "1".to_string(),
                other => other.to_string(),
            };
            let mut edges = Vec::new();
            for e in kv(line, "edges").split(',').filter(|s| !s.is_empty()) {
                let parts: Vec<&str> = e.split(':').collect();
                let ing: u32 = parts[1].parse().unwrap();
                let idx: usize = parts[2].parse().unwrap();
                if parts[0] == "i" {
                    if let Some(f) = nm.field_of.get(&ing) {
                        edges.push(format!("i.{idx}.{f}"));
                    } else if let Some(fam) = nm.fam_of.get(&ing) {
                        edges.push(format!("q.{fam}.{idx}"));
                    } else {
                        edges.push(format!("?{e}"));
                    }
                } else {
                    edges.push(format!("o{e}"));
                }
            }
            let mut extra = String::new();
            if kv(line, "final") != "1" {
                extra.push_str(":provisional");
            }
            if !kv(line, "heads").is_empty() {
                extra.push_str(&format!(":heads={}", kv(line, "heads")));
            }
            if !kv(line, "structs").is_empty() {
                extra.push_str(&format!(":structs={}", kv(line, "structs")));
            }
            if kv(line, "iter") != "0" {
                extra.push_str(&format!(":iter={}", kv(line, "iter")));
            }
            memos.push((
                fam,
                key,
                format!(
                    "{}:{}:{}:{}:{}:[{}]{}",
                    kv(line, "has_value"),
                    kv(line, "verified_at"),
                    kv(line, "changed_at"),
                    kv(line, "dur"),
                    untracked,
                    edges.join(","),
                    extra
                ),
            ));
        } else if line.starts_with("fn ") {
            let name = kv(line, "name");
            if name == "lru_fn" {
                let ev = kv(line, "eviction");
                lrus.push((FAM_LRU, format!("{}:[{}]", kv(ev, "cap"), kv(ev, "order"))));
            }
        }
    }
    let _ = cd;
    ins.sort();
    memos.sort();
    let mut s = format!("revs={revs} cc={cc} in=");
    for (i, r, d) in &ins {
        if *i >= ni {
            continue;
        }
        let inp = cd.inputs[*i];
        let vals = [inp.a(db), inp.b(db), inp.c(db)];
        for f in 0..nf {
            s.push_str(&format!("{i}.{f}:{}:{}:{};", vals[f], r[f], d[f]));
        }
    }
    s.push_str(" memo=");
    for (fam, key, m) in &memos {
        s.push_str(&format!("{fam}.{key}:{m};"));
    }
    s.push_str(" lru=");
    for (fam, l) in &lrus {
        s.push_str(&format!("{fam}:{l};"));
    }
    s
}

// ------------------------------------------------------------------ running a case

fn find<'a>(items: &'a [Sx], name: &str) -> &'a [Sx] {
    for it in items {
        if let Sx::L(l) = it {
            if !l.is_empty() && l[0].is_atom(name) {
                return &l[1..];
            }
        }
    }
    &[]
}

fn run_case(line: &str) {
    let sx = sexp::parse(line);
    let items = sx.list();
    assert!(items[0].is_atom("case"));
    let id = items[1].atom().to_string();
    let cfg = find(&items[2..], "cfg");
    let geti = |name: &str, dflt: i64| -> i64 {
        let v = find(cfg, name);
        if v.len() == 1 { v[0].int() } else { dflt }
    };
    let nk = geti("nk", 1) as usize;
    let ni = geti("ni", 1) as usize;
    let nf = geti("nf", 3) as usize;
    for c in cfg {
        let l = c.list();
        if l[0].is_atom("lru") {
            assert_eq!(l[1].int() as u8, FAM_LRU, "only family 1 has an lru policy");
            assert_eq!(l[2].int() as usize, LRU_DECLARED, "declared lru capacity is fixed");
        }
    }
    let tri = |name: &str| -> HashMap<(usize, usize), i64> {
        find(&items[2..], name)
            .iter()
            .map(|t| {
                let l = t.list();
                ((l[0].int() as usize, l[1].int() as usize), l[2].int())
            })
            .collect()
    };
    let ival = tri("ival");
    let idur = tri("idur");

    let log: Arc<Mutex<Vec<salsa::Event>>> = Arc::new(Mutex::new(Vec::new()));
    let log2 = log.clone();
    let mut db = Db {
        storage: salsa::Storage::new(Some(Box::new(move |e: salsa::Event| {
            match e.kind {
                salsa::EventKind::WillExecute { .. }
                | salsa::EventKind::DidValidateMemoizedValue { .. } => {
                    // the event callback is user code: the armed fault fires here (once)
                    let n = EVFAULT.load(Ordering::SeqCst);
                    if n == 0 {
                        EVFAULT.store(-1, Ordering::SeqCst);
                        panic!("verif-injected panic");
                    } else if n > 0 {
                        EVFAULT.store(n - 1, Ordering::SeqCst);
                    }
                    log2.lock().unwrap().push(e);
                }
                _ => {}
            }
        }))),
    };
    for c in CELLS.iter().chain(PCELLS.iter()) {
        c.store(0, Ordering::SeqCst);
    }
    EVFAULT.store(-1, Ordering::SeqCst);
    let n_inputs = ni.max(nk);
    let mut inputs = Vec::new();
    for i in 0..n_inputs {
        let g = |f: usize| *ival.get(&(i, f)).unwrap_or(&0) as u8;
        let d = |f: usize| dur_of(*idur.get(&(i, f)).unwrap_or(&0));
        let inp = Inp::builder(g(0), g(1), g(2))
            .a_durability(d(0))
            .b_durability(d(1))
            .c_durability(d(2))
            .new(&db);
        assert_eq!(salsa::plumbing::AsId::as_id(&inp).index() as usize, i);
        inputs.push(inp);
    }
    let mut nodes = HashMap::new();
    for n in find(&items[2..], "prog") {
        let l = n.list();
        nodes.insert((l[1].int() as u8, l[2].int() as usize), expr_of(&l[3]));
    }
    let cd = Arc::new(CaseData { nk, nodes, inputs });
    *CASE.write().unwrap() = Some(cd.clone());
    let nm = names(&db);

    println!("CASE {id}");
    for (idx, o) in find(&items[2..], "hist").iter().enumerate() {
        let l = o.list();
        log.lock().unwrap().clear();
        let res: Result<u8, Box<dyn std::any::Any + Send>> = match l[0].atom() {
            "set" => {
                let inp = cd.inputs[l[1].int() as usize];
                let f = l[2].int();
                let v = l[3].int() as u8;
                let d = if l.len() > 4 { Some(dur_of(l[4].int())) } else { None };
                catch_unwind(AssertUnwindSafe(|| {
                    macro_rules! doset {
                        ($setter:ident) => {{
                            let s = inp.$setter(&mut db);
                            match d {
                                Some(d) => s.with_durability(d).to(v),
                                None => s.to(v),
                            }
                        }};
                    }
                    match f {
                        0 => doset!(set_a),
                        1 => doset!(set_b),
                        _ => doset!(set_c),
                    };
                    0
                }))
            }
            "synth" => {
                let d = dur_of(l[1].int());
                catch_unwind(AssertUnwindSafe(|| {
                    db.synthetic_write(d);
                    0
                }))
            }
            "setcell" => {
                CELLS[l[1].int() as usize].store(l[2].int() as u8, Ordering::SeqCst);
                Ok(0)
            }
            "setpanic" => {
                PCELLS[l[1].int() as usize].store(l[2].int() as u8, Ordering::SeqCst);
                Ok(0)
            }
            "evfault" => {
                let n = if l[1].is_atom("off") { -1 } else { l[1].int() };
                EVFAULT.store(n, Ordering::SeqCst);
                Ok(0)
            }
            "get" => {
                let fam = l[1].int() as u8;
                let key = l[2].int() as usize;
                catch_unwind(AssertUnwindSafe(|| call_fam(&db, &cd, fam, key)))
            }
            "setlru" => {
                assert_eq!(l[1].int() as u8, FAM_LRU);
                let n = l[2].int() as usize;
                catch_unwind(AssertUnwindSafe(|| {
                    lru_fn::set_lru_capacity(&mut db, n);
                    0
                }))
            }
            "evict" => catch_unwind(AssertUnwindSafe(|| {
                db.trigger_lru_eviction();
                0
            })),
            other => panic!("harness: bad op {other}"),
        };
        match &res {
            Ok(v) => println!("R {idx} ret {v}"),
            Err(p) => println!("R {idx} panic {}", panic_code(p.as_ref())),
        }
        let mut ev = String::new();
        for e in log.lock().unwrap().iter() {
            let (tag, key) = match e.kind {
                salsa::EventKind::WillExecute { database_key } => ("x", database_key),
                salsa::EventKind::DidValidateMemoizedValue { database_key } => ("v", database_key),
                _ => continue,
            };
            let (ing, kidx, _gen) = salsa::verif::key_parts(key);
            let fam = nm.fam_of.get(&ing).copied().unwrap_or(255);
            ev.push_str(&format!(" {tag}:{fam}.{kidx}"));
        }
        println!("E {idx}{ev}");
        println!("S {idx} {}", state_line(&db, &nm, &cd, ni, nf));
    }
    *CASE.write().unwrap() = None;
}

fn main() {
    // keep the default panic hook quiet: panics are expected outcomes here
    std::panic::set_hook(Box::new(|_| {}));
    let path = std::env::args().nth(1).expect("usage: core_harness CASEFILE");
    let text = std::fs::read_to_string(path).unwrap();
    for line in text.lines() {
        if line.starts_with('(') {
            let r = catch_unwind(AssertUnwindSafe(|| run_case(line)));
            if let Err(p) = r {
                let msg = p
                    .downcast_ref::<String>()
                    .cloned()
                    .or_else(|| p.downcast_ref::<&str>().map(|s| s.to_string()))
                    .unwrap_or_default();
                println!("ERROR {msg}");
                *CASE.write().unwrap_or_else(|e| e.into_inner()) = None;
            }
        }
    }
}

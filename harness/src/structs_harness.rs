//! structs_harness — runs generated cases with tracked structs and `specify` against the real
//! salsa crate and prints one observation record per operation, in the same format as
//! ocaml/structs_driver.ml (the extracted Coq model coq/Structs/Model.v).
//!
//! A *program* is data: one DSL expression per node (function family, node key).  Every
//! tracked function's body is `interp(db, FAMILY, key)`.  The harness never interprets
//! results: it prints values, events and the hook-dumped internal state.
//!
//! Families: 0 `leaf` (Inp), 1 `mk` (Inp), 2 `ontr` (TS), 3 `spec` (TS, specify), 4 `top` (Inp).
//! Every function returns `(u8, Vec<TS>)`: plain data plus tracked structs.

use std::collections::HashMap;
use std::hash::{Hash, Hasher};
use std::panic::{AssertUnwindSafe, catch_unwind};
use std::sync::atomic::{AtomicU8, Ordering};
use std::sync::{Arc, Mutex, RwLock};

use salsa::plumbing::{AsId, ZalsaDatabase};
use salsa::{Database, Durability, Setter};

mod sexp;
use sexp::Sx;

// ------------------------------------------------------------------ salsa items

#[salsa::input]
struct Inp {
    #[returns(copy)]
    a: u8,
    #[returns(copy)]
    b: u8,
    #[returns(copy)]
    c: u8,
}

/// Identity field type with a *known* hash: value mod HASHMOD (so that distinct identity
/// values collide when HASHMOD is small; the model's `idhash` is the same function).
#[derive(Clone, Copy, PartialEq, Eq, Debug)]
struct IdV(u8);

static HASHMOD: AtomicU8 = AtomicU8::new(2);

impl Hash for IdV {
    fn hash<H: Hasher>(&self, state: &mut H) {
        let m = HASHMOD.load(Ordering::SeqCst);
        state.write_u8(if m == 0 { self.0 } else { self.0 % m });
    }
}

#[salsa::tracked]
struct TS<'db> {
    #[returns(copy)]
    idv: IdV,
    #[tracked]
    #[returns(copy)]
    f0: u8,
    #[tracked]
    #[no_eq]
    #[returns(copy)]
    f1: u8,
}

type Out<'db> = (u8, Vec<TS<'db>>);

#[salsa::db]
#[derive(Clone)]
struct Db {
    storage: salsa::Storage<Self>,
}

#[salsa::db]
impl salsa::Database for Db {}

const FAM_LEAF: u8 = 0;
const FAM_MK: u8 = 1;
const FAM_ONTR: u8 = 2;
const FAM_SPEC: u8 = 3;
const FAM_TOP: u8 = 4;
/// first slot index of the tracked-struct pages (the inputs occupy page 0)
const BASE: u32 = 128;

#[salsa::tracked(returns(clone))]
fn leaf<'db>(db: &'db dyn salsa::Database, k: Inp) -> Out<'db> {
    interp(db, FAM_LEAF, Key::In(k))
}

#[salsa::tracked(returns(clone))]
fn mk<'db>(db: &'db dyn salsa::Database, k: Inp) -> Out<'db> {
    interp(db, FAM_MK, Key::In(k))
}

#[salsa::tracked(returns(clone))]
fn ontr<'db>(db: &'db dyn salsa::Database, s: TS<'db>) -> Out<'db> {
    interp(db, FAM_ONTR, Key::St(s))
}

#[salsa::tracked(returns(clone), specify)]
fn spec<'db>(db: &'db dyn salsa::Database, s: TS<'db>) -> Out<'db> {
    interp(db, FAM_SPEC, Key::St(s))
}

#[salsa::tracked(returns(clone))]
fn top<'db>(db: &'db dyn salsa::Database, k: Inp) -> Out<'db> {
    interp(db, FAM_TOP, Key::In(k))
}

// ------------------------------------------------------------------ DSL

#[derive(Debug, Clone)]
enum Expr {
    Lit(u8),
    In(usize, usize),
    Call(u8, Box<Expr>),
    Cell(usize),
    Touch,
    Op(String, Box<Expr>, Box<Expr>),
    If(Box<Expr>, Box<Expr>, Box<Expr>),
    Let(u32, Box<HExpr>, Box<Expr>, Box<Expr>),
    Field(u32, usize),
    IdField(u32),
    CallS(u8, u32),
    Specify(u8, u32, Box<Expr>),
    RetH(u32),
}

#[derive(Debug, Clone)]
enum HExpr {
    New(Expr, Expr, Expr),
    Nth(u8, Expr, usize),
    NthS(u8, u32, usize),
    SelfH,
    Var(u32),
}

#[derive(Clone, Copy)]
enum Key<'db> {
    In(Inp),
    St(TS<'db>),
}

struct CaseData {
    nk: usize,
    nodes: HashMap<(u8, usize), Expr>,
    inputs: Vec<Inp>,
}

static CASE: RwLock<Option<Arc<CaseData>>> = RwLock::new(None);
static CELLS: [AtomicU8; 8] = [const { AtomicU8::new(0) }; 8];

fn case_data() -> Arc<CaseData> {
    CASE.read().unwrap().as_ref().unwrap().clone()
}

struct Ctx<'db> {
    env: Vec<(u32, TS<'db>)>,
    acc: Vec<TS<'db>>,
    selfh: Option<TS<'db>>,
}

impl<'db> Ctx<'db> {
    fn get(&self, x: u32) -> Option<TS<'db>> {
        self.env.iter().rev().find(|(y, _)| *y == x).map(|(_, h)| *h)
    }
}

fn interp<'db>(db: &'db dyn salsa::Database, fam: u8, k: Key<'db>) -> Out<'db> {
    let cd = case_data();
    let (node_key, selfh) = match k {
        Key::In(i) => (i.as_id().index() as usize, None),
        // the body of a struct-keyed function first reads the identity field of its key
        Key::St(s) => (s.idv(db).0 as usize % cd.nk, Some(s)),
    };
    let mut cx = Ctx { env: Vec::new(), acc: Vec::new(), selfh };
    let v = match cd.nodes.get(&(fam, node_key)) {
        Some(e) => eval(db, &cd, e, &mut cx),
        None => 0,
    };
    (v, cx.acc)
}

fn call_in<'db>(db: &'db dyn salsa::Database, cd: &CaseData, fam: u8, key: usize) -> Out<'db> {
    let k = cd.inputs[key];
    match fam {
        FAM_LEAF => leaf(db, k),
        FAM_MK => mk(db, k),
        FAM_TOP => top(db, k),
        _ => panic!("harness: family {fam} is not keyed by an input"),
    }
}

fn call_st<'db>(db: &'db dyn salsa::Database, fam: u8, s: TS<'db>) -> Out<'db> {
    match fam {
        FAM_ONTR => ontr(db, s),
        FAM_SPEC => spec(db, s),
        _ => panic!("harness: family {fam} is not keyed by a tracked struct"),
    }
}

fn eval<'db>(db: &'db dyn salsa::Database, cd: &CaseData, e: &Expr, cx: &mut Ctx<'db>) -> u8 {
    match e {
        Expr::Lit(v) => *v,
        Expr::In(i, f) => {
            let inp = cd.inputs[*i];
            match f {
                0 => inp.a(db),
                1 => inp.b(db),
                _ => inp.c(db),
            }
        }
        Expr::Call(fam, k) => {
            let kv = eval(db, cd, k, cx) as usize % cd.nk;
            call_in(db, cd, *fam, kv).0
        }
        Expr::Cell(c) => {
            db.report_untracked_read();
            CELLS[*c].load(Ordering::SeqCst)
        }
        Expr::Touch => {
            db.report_untracked_read();
            0
        }
        Expr::Op(o, a, b) => {
            let x = eval(db, cd, a, cx);
            let y = eval(db, cd, b, cx);
            match o.as_str() {
                "add" => x.wrapping_add(y),
                "sub" => x.wrapping_sub(y),
                "min" => x.min(y),
                "max" => x.max(y),
                "and" => x & y,
                "or" => x | y,
                "eq" => (x == y) as u8,
                "lt" => (x < y) as u8,
                "shr" => x >> (y % 8),
                _ => panic!("harness: unknown op {o}"),
            }
        }
        Expr::If(c, a, b) => {
            if eval(db, cd, c, cx) != 0 {
                eval(db, cd, a, cx)
            } else {
                eval(db, cd, b, cx)
            }
        }
        Expr::Let(x, h, body, els) => match heval(db, cd, h, cx) {
            Some(hd) => {
                cx.env.push((*x, hd));
                let v = eval(db, cd, body, cx);
                cx.env.pop();
                v
            }
            None => eval(db, cd, els, cx),
        },
        Expr::Field(x, f) => match cx.get(*x) {
            Some(h) => {
                if *f == 0 {
                    h.f0(db)
                } else {
                    h.f1(db)
                }
            }
            None => 0,
        },
        Expr::IdField(x) => match cx.get(*x) {
            Some(h) => h.idv(db).0,
            None => 0,
        },
        Expr::CallS(fam, x) => match cx.get(*x) {
            Some(h) => call_st(db, *fam, h).0,
            None => 0,
        },
        Expr::Specify(fam, x, v) => {
            let vv = eval(db, cd, v, cx);
            if let Some(h) = cx.get(*x) {
                assert_eq!(*fam, FAM_SPEC, "harness: only family 3 is specifiable");
                spec::specify(db, h, (vv, Vec::new()));
            }
            0
        }
        Expr::RetH(x) => {
            if let Some(h) = cx.get(*x) {
                cx.acc.push(h);
            }
            0
        }
    }
}

fn heval<'db>(
    db: &'db dyn salsa::Database,
    cd: &CaseData,
    h: &HExpr,
    cx: &mut Ctx<'db>,
) -> Option<TS<'db>> {
    match h {
        HExpr::New(a, b, c) => {
            let idv = eval(db, cd, a, cx);
            let f0 = eval(db, cd, b, cx);
            let f1 = eval(db, cd, c, cx);
            Some(TS::new(db, IdV(idv), f0, f1))
        }
        HExpr::Nth(fam, k, i) => {
            let kv = eval(db, cd, k, cx) as usize % cd.nk;
            call_in(db, cd, *fam, kv).1.get(*i).copied()
        }
        HExpr::NthS(fam, x, i) => match cx.get(*x) {
            Some(hd) => call_st(db, *fam, hd).1.get(*i).copied(),
            None => None,
        },
        HExpr::SelfH => cx.selfh,
        HExpr::Var(x) => cx.get(*x),
    }
}

fn expr_of(x: &Sx) -> Expr {
    let l = x.list();
    let b = |i: usize| Box::new(expr_of(&l[i]));
    match l[0].atom() {
        "lit" => Expr::Lit(l[1].int() as u8),
        "in" => Expr::In(l[1].int() as usize, l[2].int() as usize),
        "call" => Expr::Call(l[1].int() as u8, b(2)),
        "cell" => Expr::Cell(l[1].int() as usize),
        "touch" => Expr::Touch,
        "op" => Expr::Op(l[1].atom().to_string(), b(2), b(3)),
        "if" => Expr::If(b(1), b(2), b(3)),
        "let" => Expr::Let(l[1].int() as u32, Box::new(hexpr_of(&l[2])), b(3), b(4)),
        "field" => Expr::Field(l[1].int() as u32, l[2].int() as usize),
        "idfield" => Expr::IdField(l[1].int() as u32),
        "calls" => Expr::CallS(l[1].int() as u8, l[2].int() as u32),
        "specify" => Expr::Specify(l[1].int() as u8, l[2].int() as u32, b(3)),
        "reth" => Expr::RetH(l[1].int() as u32),
        other => panic!("harness: bad expr {other}"),
    }
}

fn hexpr_of(x: &Sx) -> HExpr {
    let l = x.list();
    match l[0].atom() {
        "new" => HExpr::New(expr_of(&l[1]), expr_of(&l[2]), expr_of(&l[3])),
        "nth" => HExpr::Nth(l[1].int() as u8, expr_of(&l[2]), l[3].int() as usize),
        "nths" => HExpr::NthS(l[1].int() as u8, l[2].int() as u32, l[3].int() as usize),
        "self" => HExpr::SelfH,
        "var" => HExpr::Var(l[1].int() as u32),
        other => panic!("harness: bad hexpr {other}"),
    }
}

fn dur_of(d: i64) -> Durability {
    match d {
        0 => Durability::LOW,
        1 => Durability::MEDIUM,
        2 => Durability::HIGH,
        _ => Durability::NEVER_CHANGE,
    }
}

// ------------------------------------------------------------------ observation

fn panic_code(payload: &(dyn std::any::Any + Send)) -> u32 {
    let msg = if let Some(s) = payload.downcast_ref::<String>() {
        s.clone()
    } else if let Some(s) = payload.downcast_ref::<&str>() {
        s.to_string()
    } else if let Some(c) = payload.downcast_ref::<salsa::Cancelled>() {
        format!("Cancelled::{c:?}")
    } else {
        String::from("<opaque>")
    };
    if msg.contains("never-changing inputs cannot be mutated") {
        1
    } else if msg.contains("dependency graph cycle") {
        2
    } else if msg.contains("returned the same value, but the previous execution changed at") {
        3
    } else if msg.contains("can only use `specify` on salsa structs created during the current tracked fn") {
        6
    } else if msg.contains("cannot call `specify` twice") {
        8
    } else if msg.contains("write lock taken")
        || msg.contains("cannot delete read-locked")
        || msg.contains("cannot delete write-locked")
        || msg.contains("failed to acquire write lock")
    {
        9
    } else if msg.contains("expected a query assigned by")
        || msg.contains("two concurrent writers")
        || msg.contains("assertion")
    {
        10
    } else {
        eprintln!("harness: unclassified panic: {msg}");
        99
    }
}

#[derive(Clone, Copy, PartialEq)]
enum IngKind {
    InField(usize),
    FnIn(u8),
    FnSt(u8),
    Struct,
    StField(usize),
    Other,
}

struct Names {
    kind: HashMap<u32, IngKind>,
}

fn names(db: &Db) -> Names {
    let mut kind = HashMap::new();
    for (idx, name) in salsa::verif::ingredient_names(db) {
        let k = match name {
            "a" => IngKind::InField(0),
            "b" => IngKind::InField(1),
            "c" => IngKind::InField(2),
            "leaf" => IngKind::FnIn(FAM_LEAF),
            "mk" => IngKind::FnIn(FAM_MK),
            "top" => IngKind::FnIn(FAM_TOP),
            "ontr" => IngKind::FnSt(FAM_ONTR),
            "spec" => IngKind::FnSt(FAM_SPEC),
            "TS" => IngKind::Struct,
            "f0" => IngKind::StField(0),
            "f1" => IngKind::StField(1),
            _ => IngKind::Other,
        };
        kind.insert(idx, k);
    }
    Names { kind }
}

impl Names {
    /// `fam.idx.gen` for function keys, `s.idx.gen` for tracked structs (struct slot indices
    /// are printed relative to BASE)
    fn key(&self, ing: u32, idx: u32, generation: u32) -> String {
        match self.kind.get(&ing).copied().unwrap_or(IngKind::Other) {
            IngKind::FnIn(f) => format!("{f}.{idx}.{generation}"),
            IngKind::FnSt(f) => format!("{f}.{}.{generation}", idx.wrapping_sub(BASE)),
            IngKind::Struct => format!("s.{}.{generation}", idx.wrapping_sub(BASE)),
            _ => format!("?{ing}.{idx}.{generation}"),
        }
    }
    fn edge(&self, tag: &str, ing: u32, idx: u32, generation: u32) -> String {
        match (tag, self.kind.get(&ing).copied().unwrap_or(IngKind::Other)) {
            ("i", IngKind::InField(f)) => format!("i.{idx}.{f}"),
            ("i", IngKind::FnIn(_)) | ("i", IngKind::FnSt(_)) => format!("q.{}", self.key(ing, idx, generation)),
            ("i", IngKind::StField(f)) => format!("f.{}.{generation}.{f}", idx.wrapping_sub(BASE)),
            ("o", IngKind::FnIn(_)) | ("o", IngKind::FnSt(_)) => format!("o.{}", self.key(ing, idx, generation)),
            _ => format!("?{tag}:{ing}:{idx}:{generation}"),
        }
    }
}

fn kv<'a>(line: &'a str, key: &str) -> &'a str {
    let pat = format!(" {key}=");
    let start = line.find(&pat).unwrap_or_else(|| panic!("no {key} in {line}")) + pat.len();
    let rest = &line[start..];
    if rest.starts_with('[') {
        let end = rest.find(']').unwrap();
        &rest[1..end]
    } else {
        let end = rest.find(' ').unwrap_or(rest.len());
        &rest[..end]
    }
}

fn digits(s: &str) -> Vec<u64> {
    let mut out = Vec::new();
    let mut cur = String::new();
    for ch in s.chars() {
        if ch.is_ascii_digit() {
            cur.push(ch);
        } else if !cur.is_empty() {
            out.push(cur.parse().unwrap());
            cur.clear();
        }
    }
    if !cur.is_empty() {
        out.push(cur.parse().unwrap());
    }
    out
}

fn triple(s: &str) -> (u32, u32, u32) {
    let p: Vec<u32> = s.split(':').map(|x| x.parse().unwrap()).collect();
    (p[0], p[1], p[2])
}

fn memo_text(nm: &Names, line: &str) -> (u8, String) {
    let fam = match kv(line, "name") {
        "leaf" => FAM_LEAF,
        "mk" => FAM_MK,
        "ontr" => FAM_ONTR,
        "spec" => FAM_SPEC,
        "top" => FAM_TOP,
        _ => 255,
    };
    let mut edges = Vec::new();
    let mut origin = match kv(line, "origin") {
        "derived" => "d".to_string(),
        "untracked" => "u".to_string(),
        other => other.to_string(),
    };
    for e in kv(line, "edges").split(',').filter(|s| !s.is_empty()) {
        let (tag, rest) = e.split_once(':').unwrap();
        let (ing, idx, generation) = triple(rest);
        if tag == "by" {
            origin = format!("a{}", nm.key(ing, idx, generation));
        } else {
            edges.push(nm.edge(tag, ing, idx, generation));
        }
    }
    let mut structs: Vec<String> = kv(line, "structs")
        .split(',')
        .filter(|s| !s.is_empty())
        .map(|s| {
            let (_ing, idx, generation) = triple(s);
            format!("{}.{generation}", idx.wrapping_sub(BASE))
        })
        .collect();
    structs.sort();
    let mut extra = String::new();
    if kv(line, "final") != "1" {
        extra.push_str(":provisional");
    }
    if !kv(line, "heads").is_empty() {
        extra.push_str(&format!(":heads={}", kv(line, "heads")));
    }
    (
        fam,
        format!(
            "{}:{}:{}:{}:{}:[{}]:{{{}}}{}",
            kv(line, "has_value"),
            kv(line, "verified_at"),
            kv(line, "changed_at"),
            kv(line, "dur"),
            origin,
            edges.join(","),
            structs.join(","),
            extra
        ),
    )
}

/// (idx relative to BASE, idv, f0, f1) of every live tracked struct, through `entries()`
fn live_entries(db: &Db) -> Vec<(u32, u8, u8, u8)> {
    let mut out = Vec::new();
    for entry in TS::ingredient(db).entries(db.zalsa()) {
        let idx = entry.key().key_index().index();
        let f = entry.value().fields();
        out.push((idx.wrapping_sub(BASE), f.0.0, f.1, f.2));
    }
    out.sort();
    out
}

fn state_line(db: &Db, nm: &Names, cd: &CaseData, ni: usize, nf: usize) -> String {
    let dump = salsa::verif::dump_state(db);
    let mut revs = String::new();
    let mut cc = String::new();
    let mut ins: Vec<(usize, Vec<u64>, Vec<u64>)> = Vec::new();
    let mut memos: Vec<(u8, u32, String)> = Vec::new();
    let mut slots: Vec<(u32, String, String)> = Vec::new();
    let mut free = String::new();
    let mut memo_order: Vec<(u64, u8)> = Vec::new();
    for line in &dump {
        if let Some(rest) = line.strip_prefix("runtime") {
            revs = kv(rest, "revisions").to_string();
            cc = kv(rest, "ccount").to_string();
        } else if line.starts_with("input ") {
            let id = digits(kv(line, "id"));
            ins.push((id[0] as usize, digits(kv(line, "revisions")), digits(kv(line, "durabilities"))));
        } else if line.starts_with("memo ") {
            let key = digits(kv(line, "key"))[0] as u32;
            let (fam, text) = memo_text(nm, line);
            memos.push((fam, key, text));
        } else if line.starts_with("smemo ") {
            let key = digits(kv(line, "key"))[0] as u32;
            let (fam, text) = memo_text(nm, line);
            // `smemo key=K MI name=...`: MI = memo ingredient index (table order)
            let mi: u64 = line.split(' ').nth(2).unwrap().parse().unwrap();
            memo_order.push((mi, fam));
            memos.push((fam, key.wrapping_sub(BASE), text));
        } else if line.starts_with("struct ") {
            let idx = digits(kv(line, "id"))[0] as u32;
            let upd = kv(line, "updated_at");
            let r = digits(kv(line, "revisions"));
            slots.push((
                idx.wrapping_sub(BASE),
                if upd == "none" { "-".to_string() } else { upd.to_string() },
                format!("{}:{}:{}", kv(line, "dur"), r[0], r[1]),
            ));
        } else if line.starts_with("structfree ") {
            free = kv(line, "free")
                .split(',')
                .filter(|s| !s.is_empty())
                .map(|s| {
                    let (i, g) = s.split_once(':').unwrap();
                    format!("{}.{g}", i.parse::<u32>().unwrap().wrapping_sub(BASE))
                })
                .collect::<Vec<_>>()
                .join(",");
        }
    }
    // the model's clear_memos order (sfams = [2,3]) assumes ontr precedes spec in the memo table
    for (mi, fam) in &memo_order {
        for (mj, fam2) in &memo_order {
            if fam < fam2 {
                assert!(mi < mj, "harness: memo ingredient order differs from the model's sfams");
            }
        }
    }
    ins.sort();
    memos.sort();
    slots.sort();
    let live = live_entries(db);
    let mut s = format!("revs={revs} cc={cc} in=");
    for (i, r, d) in &ins {
        if *i >= ni {
            continue;
        }
        let inp = cd.inputs[*i];
        let vals = [inp.a(db), inp.b(db), inp.c(db)];
        for f in 0..nf {
            s.push_str(&format!("{i}.{f}:{}:{}:{};", vals[f], r[f], d[f]));
        }
    }
    s.push_str(" memo=");
    for (fam, key, m) in &memos {
        s.push_str(&format!("{fam}.{key}:{m};"));
    }
    s.push_str(" slots=");
    for (idx, upd, rest) in &slots {
        if upd == "-" {
            s.push_str(&format!("{idx}:-:{rest};"));
        } else {
            let (_, idv, f0, f1) = live.iter().find(|e| e.0 == *idx).copied().unwrap_or((0, 255, 255, 255));
            s.push_str(&format!("{idx}:{upd}:{rest}:{idv}:{f0}:{f1};"));
        }
    }
    s.push_str(&format!(" free=[{free}]"));
    s
}

// ------------------------------------------------------------------ running a case

fn find<'a>(items: &'a [Sx], name: &str) -> &'a [Sx] {
    for it in items {
        if let Sx::L(l) = it {
            if !l.is_empty() && l[0].is_atom(name) {
                return &l[1..];
            }
        }
    }
    &[]
}

fn fmt_out(v: &Out<'_>) -> String {
    let hs: Vec<String> = v
        .1
        .iter()
        .map(|h| {
            let id = h.as_id();
            format!("{}.{}", id.index().wrapping_sub(BASE), id.generation())
        })
        .collect();
    format!("{} [{}]", v.0, hs.join(","))
}

fn run_case(line: &str) {
    let sx = sexp::parse(line);
    let items = sx.list();
    assert!(items[0].is_atom("case"));
    let id = items[1].atom().to_string();
    let cfg = find(&items[2..], "cfg");
    let geti = |name: &str, dflt: i64| -> i64 {
        let v = find(cfg, name);
        if v.len() == 1 { v[0].int() } else { dflt }
    };
    let nk = geti("nk", 1) as usize;
    let ni = geti("ni", 1) as usize;
    let nf = geti("nf", 3) as usize;
    HASHMOD.store(geti("hashmod", 2) as u8, Ordering::SeqCst);
    let tri = |name: &str| -> HashMap<(usize, usize), i64> {
        find(&items[2..], name)
            .iter()
            .map(|t| {
                let l = t.list();
                ((l[0].int() as usize, l[1].int() as usize), l[2].int())
            })
            .collect()
    };
    let ival = tri("ival");
    let idur = tri("idur");

    let log: Arc<Mutex<Vec<salsa::Event>>> = Arc::new(Mutex::new(Vec::new()));
    let log2 = log.clone();
    let mut db = Db {
        storage: salsa::Storage::new(Some(Box::new(move |e: salsa::Event| match e.kind {
            salsa::EventKind::WillExecute { .. }
            | salsa::EventKind::DidValidateMemoizedValue { .. }
            | salsa::EventKind::DidDiscard { .. }
            | salsa::EventKind::WillDiscardStaleOutput { .. } => {
                log2.lock().unwrap().push(e);
            }
            _ => {}
        }))),
    };
    for c in CELLS.iter() {
        c.store(0, Ordering::SeqCst);
    }
    let n_inputs = ni.max(nk);
    let mut inputs = Vec::new();
    for i in 0..n_inputs {
        let g = |f: usize| *ival.get(&(i, f)).unwrap_or(&0) as u8;
        let d = |f: usize| dur_of(*idur.get(&(i, f)).unwrap_or(&0));
        let inp = Inp::builder(g(0), g(1), g(2))
            .a_durability(d(0))
            .b_durability(d(1))
            .c_durability(d(2))
            .new(&db);
        assert_eq!(inp.as_id().index() as usize, i);
        inputs.push(inp);
    }
    let mut nodes = HashMap::new();
    for n in find(&items[2..], "prog") {
        let l = n.list();
        nodes.insert((l[1].int() as u8, l[2].int() as usize), expr_of(&l[3]));
    }
    let cd = Arc::new(CaseData { nk, nodes, inputs });
    *CASE.write().unwrap() = Some(cd.clone());
    let nm = names(&db);

    println!("CASE {id}");
    for (idx, o) in find(&items[2..], "hist").iter().enumerate() {
        let l = o.list();
        log.lock().unwrap().clear();
        let mut entries_line: Option<String> = None;
        let res: Result<String, Box<dyn std::any::Any + Send>> = match l[0].atom() {
            "set" => {
                let inp = cd.inputs[l[1].int() as usize];
                let f = l[2].int();
                let v = l[3].int() as u8;
                let d = if l.len() > 4 { Some(dur_of(l[4].int())) } else { None };
                catch_unwind(AssertUnwindSafe(|| {
                    macro_rules! doset {
                        ($setter:ident) => {{
                            let s = inp.$setter(&mut db);
                            match d {
                                Some(d) => s.with_durability(d).to(v),
                                None => s.to(v),
                            }
                        }};
                    }
                    match f {
                        0 => doset!(set_a),
                        1 => doset!(set_b),
                        _ => doset!(set_c),
                    };
                    "0 []".to_string()
                }))
            }
            "synth" => {
                let d = dur_of(l[1].int());
                catch_unwind(AssertUnwindSafe(|| {
                    db.synthetic_write(d);
                    "0 []".to_string()
                }))
            }
            "setcell" => {
                CELLS[l[1].int() as usize].store(l[2].int() as u8, Ordering::SeqCst);
                Ok("0 []".to_string())
            }
            "get" => {
                let fam = l[1].int() as u8;
                let key = l[2].int() as usize;
                catch_unwind(AssertUnwindSafe(|| fmt_out(&call_in(&db, &cd, fam, key))))
            }
            "gets" => {
                let fam = l[1].int() as u8;
                let qf = l[2].int() as u8;
                let key = l[3].int() as usize;
                let i = l[4].int() as usize;
                catch_unwind(AssertUnwindSafe(|| {
                    let first = call_in(&db, &cd, qf, key);
                    match first.1.get(i).copied() {
                        None => "255 []".to_string(),
                        Some(h) => fmt_out(&call_st(&db, fam, h)),
                    }
                }))
            }
            "entries" => {
                let live = live_entries(&db);
                entries_line = Some(
                    live.iter()
                        .map(|(i, a, b, c)| format!(" {i}:{a}:{b}:{c}"))
                        .collect::<String>(),
                );
                Ok(format!("{} []", live.len()))
            }
            other => panic!("harness: bad op {other}"),
        };
        match &res {
            Ok(v) => println!("R {idx} ret {v}"),
            Err(p) => println!("R {idx} panic {}", panic_code(p.as_ref())),
        }
        let mut ev = String::new();
        for e in log.lock().unwrap().iter() {
            let kp = |k: salsa::DatabaseKeyIndex| {
                let (ing, kidx, generation) = salsa::verif::key_parts(k);
                nm.key(ing, kidx, generation)
            };
            match e.kind {
                salsa::EventKind::WillExecute { database_key } => ev.push_str(&format!(" x:{}", kp(database_key))),
                salsa::EventKind::DidValidateMemoizedValue { database_key } => {
                    ev.push_str(&format!(" v:{}", kp(database_key)))
                }
                salsa::EventKind::DidDiscard { key } => ev.push_str(&format!(" d:{}", kp(key))),
                salsa::EventKind::WillDiscardStaleOutput { execute_key, output_key } => {
                    ev.push_str(&format!(" w:{}>{}", kp(execute_key), kp(output_key)))
                }
                _ => continue,
            };
        }
        println!("E {idx}{ev}");
        if let Some(n) = entries_line {
            println!("N {idx}{n}");
        }
        println!("S {idx} {}", state_line(&db, &nm, &cd, ni, nf));
    }
    *CASE.write().unwrap() = None;
}

fn main() {
    // keep the default panic hook quiet: panics are expected outcomes here
    std::panic::set_hook(Box::new(|_| {}));
    let path = std::env::args().nth(1).expect("usage: structs_harness CASEFILE");
    let text = std::fs::read_to_string(path).unwrap();
    for line in text.lines() {
        if line.starts_with('(') {
            let r = catch_unwind(AssertUnwindSafe(|| run_case(line)));
            if let Err(p) = r {
                let msg = p
                    .downcast_ref::<String>()
                    .cloned()
                    .or_else(|| p.downcast_ref::<&str>().map(|s| s.to_string()))
                    .unwrap_or_default();
                println!("ERROR {msg}");
                *CASE.write().unwrap_or_else(|e| e.into_inner()) = None;
            }
        }
    }
}
